(* L4Enum / EnumModel: executable model of games/enumeration._action_to_steps
   (worklist enumeration of an input-complete sub-machine) and a checker for
   the property C12 states about its result.

   States are pairs (x, y) of indices of environment / component valuations
   (the component part includes the implementation's memory).  The
   environment's action does not read the component's next values (C12's
   domain): E x y x'.  The component's action: S x y x' y'.
   [pick] models dd's `pick`: any element of a non-empty set. *)
From Coq Require Import List Bool Arith Lia.
Import ListNotations.

Definition state := (nat * nat)%type.
Definition state_eqb (a b : state) : bool :=
  Nat.eqb (fst a) (fst b) && Nat.eqb (snd a) (snd b).

Record graph := mkG {
  nodes : list state;          (* node id = position *)
  queue : list nat;            (* head = next to pop (the code pops the last) *)
  edges : list (nat * nat) }.

Section Enum.
Variables nx ny : nat.
Variable E : nat -> nat -> nat -> bool.
Variable S : nat -> nat -> nat -> nat -> bool.
Variable pick : (nat -> bool) -> option nat.

Fixpoint find_node (l : list state) (s : state) (i : nat) : option nat :=
  match l with
  | [] => None
  | a :: r => if state_eqb a s then Some i else find_node r s (Datatypes.S i)
  end.
Definition visited (g : graph) (s : state) : bool :=
  match find_node (nodes g) s 0 with Some _ => true | None => false end.

Definition nonempty (p : nat -> bool) : bool := existsb p (seq 0 ny).

(* one next environment value x' at node u with state s *)
Definition process_env (s : state) (u : nat) (g : graph) (x' : nat) : option graph :=
  let cand := fun y' => S (fst s) (snd s) x' y' in
  let cand_vis := fun y' => cand y' && visited g (x', y') in
  if nonempty cand_vis then
    match pick cand_vis with
    | Some y' =>
        match find_node (nodes g) (x', y') 0 with
        | Some w => Some (mkG (nodes g) (queue g) ((u, w) :: edges g))
        | None => None
        end
    | None => None
    end
  else if nonempty cand then
    match pick cand with
    | Some y' =>
        let w := length (nodes g) in
        Some (mkG (nodes g ++ [(x', y')]) (w :: queue g) ((u, w) :: edges g))
    | None => None
    end
  else None.   (* the code asserts: the component has no successor *)

Fixpoint process_all (s : state) (u : nat) (g : graph) (xs : list nat) : option graph :=
  match xs with
  | [] => Some g
  | x' :: r =>
      if E (fst s) (snd s) x' then
        match process_env s u g x' with
        | Some g' => process_all s u g' r
        | None => None
        end
      else process_all s u g r
  end.

Definition step (g : graph) : option graph :=
  match queue g with
  | [] => Some g
  | u :: q =>
      match nth_error (nodes g) u with
      | Some s => process_all s u (mkG (nodes g) q (edges g)) (seq 0 nx)
      | None => None
      end
  end.

Fixpoint run (fuel : nat) (g : graph) : option graph :=
  match queue g with
  | [] => Some g
  | _ => match fuel with
         | 0 => None
         | Datatypes.S k => match step g with Some g' => run k g' | None => None end
         end
  end.

(* ---- the checker for C12's statement about the resulting graph -------- *)
Fixpoint nodup_b (l : list state) : bool :=
  match l with
  | [] => true
  | a :: r => negb (existsb (state_eqb a) r) && nodup_b r
  end.

Definition edge_ok (ns : list state) (e : nat * nat) : bool :=
  match nth_error ns (fst e), nth_error ns (snd e) with
  | Some s, Some t => E (fst s) (snd s) (fst t) && S (fst s) (snd s) (fst t) (snd t)
  | _, _ => false
  end.

Definition out_count (ns : list state) (es : list (nat * nat)) (u x' : nat) : nat :=
  length (filter (fun e => Nat.eqb (fst e) u &&
                           match nth_error ns (snd e) with
                           | Some t => Nat.eqb (fst t) x' | None => false end) es).

Definition node_complete (ns : list state) (es : list (nat * nat)) (u : nat) (s : state) : bool :=
  forallb (fun x' => Nat.eqb (out_count ns es u x')
                       (if E (fst s) (snd s) x' then 1 else 0)) (seq 0 nx).

Fixpoint all_complete (ns : list state) (es : list (nat * nat)) (i : nat) (l : list state) : bool :=
  match l with
  | [] => true
  | s :: r => node_complete ns es i s && all_complete ns es (Datatypes.S i) r
  end.

Definition check_graph (g : graph) : bool :=
  nodup_b (nodes g) &&
  forallb (fun s => Nat.ltb (fst s) nx && Nat.ltb (snd s) ny) (nodes g) &&
  forallb (edge_ok (nodes g)) (edges g) &&
  all_complete (nodes g) (edges g) 0 (nodes g).

End Enum.

(* ---- initial nodes per qinit form (enumeration._init_search) ----------- *)
Section Init.
Variables nx ny : nat.
Variable EI : nat -> bool.            (* EnvInit, over environment values *)
Variable SI : nat -> nat -> bool.     (* initial condition of the machine *)
Variable pick : (nat -> bool) -> option nat.            (* over y *)
Variable pickx : (nat -> bool) -> option nat.           (* over x *)

Definition all_states : list state :=
  flat_map (fun x => map (fun y => (x, y)) (seq 0 ny)) (seq 0 nx).

(* \A \A : all states satisfying EnvInit /\ SysInit *)
Definition init_AA : option (list state) :=
  Some (filter (fun s => EI (fst s) && SI (fst s) (snd s)) all_states).

(* \E \E : one state satisfying SysInit *)
Definition init_EE : option (list state) :=
  match pickx (fun x => existsb (SI x) (seq 0 ny)) with
  | Some x => match pick (SI x) with Some y => Some [(x, y)] | None => None end
  | None => None
  end.

(* \A \E : for each x with EnvInit, one y with SysInit *)
Fixpoint init_AE_from (xs : list nat) : option (list state) :=
  match xs with
  | [] => Some []
  | x :: r =>
      if EI x then
        match pick (SI x), init_AE_from r with
        | Some y, Some l => Some ((x, y) :: l)
        | _, _ => None
        end
      else init_AE_from r
  end.
Definition init_AE : option (list state) := init_AE_from (seq 0 nx).

(* \E \A : one y with SysInit for every x; all x with EnvInit *)
Definition init_EA : option (list state) :=
  match pick (fun y => forallb (fun x => SI x y) (seq 0 nx)) with
  | Some y => Some (map (fun x => (x, y)) (filter EI (seq 0 nx)))
  | None => None
  end.

End Init.
