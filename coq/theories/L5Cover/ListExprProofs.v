(* L5Cover / ListExprProofs: the formula printed for a cover denotes the
   union of its boxes (inside the type hints when clipping is on), hence
   agrees with f on care for every valid cover (C08). *)
From Coq Require Import List ZArith Bool Lia Arith.
Import ListNotations.
From Omega Require Import L5Cover.Boxes L5Cover.BoxesProofs L5Cover.ListExpr.
Open Scope Z_scope.

Lemma eval_conj p l : eval p (conj l) = forallb (eval p) l.
Proof.
  induction l as [|e l IH]; [reflexivity|].
  destruct l as [|e' l'].
  - cbn. rewrite andb_true_r. reflexivity.
  - change (conj (e :: e' :: l')) with (EAnd e (conj (e' :: l'))).
    cbn [eval forallb]. rewrite IH. destruct (eval p e); reflexivity.
Qed.

Lemma eval_disj p l : eval p (disj l) = existsb (eval p) l.
Proof.
  induction l as [|e l IH]; [reflexivity|].
  destruct l as [|e' l'].
  - cbn. rewrite orb_false_r. reflexivity.
  - change (disj (e :: e' :: l')) with (EOr e (disj (e' :: l'))).
    cbn [eval existsb]. rewrite IH. destruct (eval p e); reflexivity.
Qed.

Lemma eval_atom p i ab :
  eval p (atom i ab) = (fst ab <=? nth i p 0) && (nth i p 0 <=? snd ab).
Proof.
  unfold atom. destruct (Z.eqb_spec (fst ab) (snd ab)) as [E|E]; cbn.
  - rewrite <- E.
    destruct (Z.eqb_spec (nth i p 0) (fst ab)), (Z.leb_spec (fst ab) (nth i p 0)),
      (Z.leb_spec (nth i p 0) (fst ab)); cbn; try reflexivity; lia.
  - destruct (fst ab <=? nth i p 0); reflexivity.
Qed.

(* ------------------------------------------------------------ clipping *)
(* _clip_subrange, when it does not raise: the clipped interval is non-empty,
   lies inside the hint, and has the same members among the values of the
   hint; (None, None) is returned only if every value of the hint is a
   member *)
Theorem clip_preserves a b u v r :
  clip_subrange (a, b) (u, v) = Some r ->
  match r with
  | None => forall x, u <= x <= v -> a <= x <= b
  | Some (a', b') =>
      a' <= b' /\ u <= a' /\ b' <= v /\
      forall x, u <= x <= v -> (a <= x <= b <-> a' <= x <= b')
  end.
Proof.
  unfold clip_subrange.
  destruct (Z.leb_spec a b); [|discriminate].
  destruct (Z.leb_spec u v); [|discriminate].
  destruct (Z.leb_spec a v); [|discriminate].
  destruct (Z.leb_spec u b); [|discriminate].
  destruct (Z.leb_spec (Z.max a u) (Z.min b v)); [|discriminate].
  destruct (Z.eqb_spec (Z.max a u) u).
  - destruct (Z.eqb_spec v (Z.min b v)); intros HH; inversion HH; subst.
    + intros x Hx. lia.
    + repeat split; try lia.
  - intros HH; inversion HH; subst. repeat split; try lia.
Qed.

(* it raises exactly when an interval is empty or they are disjoint *)
Lemma clip_subrange_total a b u v :
  a <= b -> u <= v -> a <= v -> u <= b ->
  exists r, clip_subrange (a, b) (u, v) = Some r.
Proof.
  intros. unfold clip_subrange.
  destruct (Z.leb_spec a b); [|lia]. destruct (Z.leb_spec u v); [|lia].
  destruct (Z.leb_spec a v); [|lia]. destruct (Z.leb_spec u b); [|lia].
  destruct (Z.leb_spec (Z.max a u) (Z.min b v)); [|lia].
  destruct (if Z.max a u =? u then v =? Z.min b v else false); eexists; reflexivity.
Qed.

(* ------------------------------------------------------------ one box *)
Lemma skipn_cons_nth (p : point) i :
  (i < length p)%nat -> skipn i p = nth i p 0 :: skipn (S i) p.
Proof.
  revert i. induction p as [|x p IH]; intros i H; [cbn in H; lia|].
  destruct i as [|i]; [reflexivity|]. cbn [skipn nth]. apply IH. cbn in H. lia.
Qed.

Lemma containsb_length b p : containsb b p = true -> length b = length p.
Proof. intros H. apply containsb_true in H. unfold contains in H. induction H; cbn; congruence. Qed.

Lemma containsb_cons i b x p :
  containsb (i :: b) (x :: p) = (fst i <=? x) && (x <=? snd i) && containsb b p.
Proof.
  cbn [containsb]. destruct (fst i <=? x), (x <=? snd i); reflexivity.
Qed.

(* without clipping a printed conjunction denotes its box; with clipping it
   does so at the points that satisfy the type hints *)
Lemma box_atoms_sem use_dom : forall b i doms c p,
  box_atoms use_dom i doms b = Some c ->
  length p = (i + length b)%nat ->
  length doms = length b ->
  (use_dom = true -> containsb doms (skipn i p) = true) ->
  forallb (eval p) c = containsb b (skipn i p).
Proof.
  induction b as [|ab b IH]; intros i doms c p H Hlen Hd Hin.
  - destruct doms; [|discriminate]. cbn in H. inversion H; subst. cbn in Hlen.
    rewrite skipn_all2 by lia. reflexivity.
  - destruct doms as [|dom doms]; [discriminate|]. cbn [box_atoms] in H.
    destruct (Z.ltb_spec (snd ab) (fst ab)) as [Hemp|Hne]; [discriminate|].
    destruct (box_atoms use_dom (S i) doms b) as [rest|] eqn:Er; [|discriminate].
    cbn [length] in Hlen, Hd.
    rewrite (skipn_cons_nth p i) in * by lia.
    rewrite containsb_cons.
    assert (IH' : forallb (eval p) rest = containsb b (skipn (S i) p)).
    { apply (IH (S i) doms); [exact Er | lia | lia |].
      intros Hu. specialize (Hin Hu). rewrite containsb_cons in Hin.
      apply andb_true_iff in Hin. apply Hin. }
    destruct use_dom.
    + specialize (Hin eq_refl). rewrite containsb_cons in Hin.
      apply andb_true_iff in Hin. destruct Hin as [Hx _].
      apply andb_true_iff in Hx. destruct Hx as [Hx1 Hx2].
      apply Z.leb_le in Hx1. apply Z.leb_le in Hx2.
      destruct ab as [a b0]. destruct dom as [u v]. cbn [fst snd] in *.
      destruct (clip_subrange (a, b0) (u, v)) as [[[a' b']|]|] eqn:Ec; [| |discriminate].
      * inversion H; subst. cbn [forallb]. rewrite eval_atom, IH'. cbn [fst snd].
        apply clip_preserves in Ec. destruct Ec as [_ [_ [_ Ec]]].
        specialize (Ec (nth i p 0) (Logic.conj Hx1 Hx2)).
        f_equal.
        destruct (Z.leb_spec a' (nth i p 0)), (Z.leb_spec (nth i p 0) b'),
          (Z.leb_spec a (nth i p 0)), (Z.leb_spec (nth i p 0) b0); cbn; try reflexivity; lia.
      * inversion H; subst. rewrite IH'.
        apply clip_preserves in Ec. specialize (Ec (nth i p 0) (Logic.conj Hx1 Hx2)).
        destruct (Z.leb_spec a (nth i p 0)), (Z.leb_spec (nth i p 0) b0); cbn; try reflexivity; lia.
    + inversion H; subst. cbn [forallb]. rewrite eval_atom, IH'. reflexivity.
Qed.

Lemma box_atoms_sem0 use_dom b doms c p :
  box_atoms use_dom O doms b = Some c ->
  length p = length b -> length doms = length b ->
  (use_dom = true -> containsb doms p = true) ->
  eval p (conj c) = containsb b p.
Proof.
  intros H Hl Hd Hin. rewrite eval_conj.
  apply (box_atoms_sem use_dom b O doms c p H); assumption.
Qed.

(* ------------------------------------------------------------ a cover *)
Lemma list_expr_sem use_dom doms : forall K ds p,
  list_expr use_dom doms K = Some ds ->
  (forall b, In b K -> length b = length doms) ->
  length p = length doms ->
  (use_dom = true -> containsb doms p = true) ->
  existsb (eval p) ds = existsb (fun b => containsb b p) K.
Proof.
  induction K as [|b K IH]; intros ds p H HK Hp Hin; cbn [list_expr] in H.
  - inversion H. reflexivity.
  - destruct (box_atoms use_dom 0 doms b) as [c|] eqn:Ec; [|discriminate].
    destruct (list_expr use_dom doms K) as [r|] eqn:Er; [|discriminate].
    inversion H; subst. cbn [existsb]. f_equal.
    + apply (box_atoms_sem0 use_dom b doms c p Ec); [| |exact Hin].
      * rewrite Hp. symmetry. apply HK. left. reflexivity.
      * symmetry. apply HK. left. reflexivity.
    + apply IH; [reflexivity | | exact Hp | exact Hin].
      intros b' Hb'. apply HK. right. exact Hb'.
Qed.

Lemma list_expr_length use_dom doms : forall K ds,
  list_expr use_dom doms K = Some ds -> length ds = length K.
Proof.
  induction K as [|b K IH]; intros ds H; cbn [list_expr] in H.
  - inversion H. reflexivity.
  - destruct (box_atoms use_dom 0 doms b); [|discriminate].
    destruct (list_expr use_dom doms K) as [r|]; [|discriminate].
    inversion H; subst. cbn. f_equal. apply IH. reflexivity.
Qed.

(* x \in lo .. hi conjuncts hold exactly at the points of the ranges *)
Lemma range_atoms_sem : forall rs i p,
  length p = (i + length rs)%nat ->
  forallb (eval p) (range_atoms i rs) = containsb rs (skipn i p).
Proof.
  induction rs as [|r rs IH]; intros i p Hl.
  - cbn in *. rewrite skipn_all2 by lia. reflexivity.
  - cbn [range_atoms forallb length] in *.
    rewrite (skipn_cons_nth p i) by lia. rewrite containsb_cons.
    rewrite IH by lia. cbn [eval tval].
    destruct (fst r <=? nth i p 0), (nth i p 0 <=? snd r); reflexivity.
Qed.

Lemma in_ranges_containsb rs p : in_ranges rs p <-> containsb rs p = true.
Proof. symmetry. apply containsb_true. Qed.

Lemma in_ranges_length rs p : in_ranges rs p -> length p = length rs.
Proof. unfold in_ranges. intros H. induction H; cbn; congruence. Qed.

Lemma forallb_app' {A} (f : A -> bool) l1 l2 :
  forallb f (l1 ++ l2) = forallb f l1 && forallb f l2.
Proof. induction l1; cbn; [reflexivity|]. rewrite IHl1, andb_assoc. reflexivity. Qed.

Lemma care_implies_hints_true limits doms care :
  care_implies_hints limits doms care = true ->
  forall p, in_ranges limits p -> care p = true -> containsb doms p = true.
Proof.
  unfold care_implies_hints. rewrite allb_forallb, forallb_forall.
  intros H p Hp Hc. specialize (H p (proj2 (grid_In limits p) Hp)).
  rewrite Hc in H. exact H.
Qed.

Section DNF.
Variables limits doms : list ival.
Variables f care : point -> bool.
Variable K : list box.
Hypothesis Hlen : length doms = length limits.
(* K is a cover of f by boxes inside [f or outside care] *)
Hypothesis Hcov : covers limits f K.
Hypothesis Himp : forall b, In b K -> implicant limits f care b.

Lemma K_lengths b : In b K -> length b = length doms.
Proof.
  intros Hb. destruct (Himp b Hb) as [Hin _]. unfold box_in in Hin.
  rewrite Hlen. clear -Hin. induction Hin; cbn; congruence.
Qed.

(* the disjunction of the printed boxes agrees with f on care *)
Lemma union_agrees p :
  in_ranges limits p -> care p = true ->
  existsb (fun b => containsb b p) K = f p.
Proof.
  intros Hp Hc. destruct (f p) eqn:Ef.
  - apply existsb_exists. destruct (Hcov p Hp Ef) as [b [Hb Hcb]].
    exists b. split; [exact Hb | apply containsb_true, Hcb].
  - destruct (existsb (fun b => containsb b p) K) eqn:E; [|reflexivity].
    apply existsb_exists in E. destruct E as [b [Hb Hcb]].
    destruct (Himp b Hb) as [_ Hi]. apply containsb_true in Hcb.
    destruct (Hi p Hcb); congruence.
Qed.

(* C08, first sentence, for the model of dumps_cover: with any combination of
   show_dom / show_limits (and with or without the care marker line), the
   printed formula agrees with f at every point of the care set *)
Theorem dnf_equiv_on_care care_is_true show_dom show_limits e :
  dumps_cover limits doms care care_is_true show_dom show_limits K = Some e ->
  forall p, in_ranges limits p -> care p = true -> eval p e = f p.
Proof.
  unfold dumps_cover. intros H p Hp Hc.
  set (use_dom := if show_dom then care_implies_hints limits doms care else false) in *.
  destruct (list_expr use_dom doms K) as [ds|] eqn:El; [|discriminate].
  inversion H; subst e. clear H.
  pose proof (in_ranges_length _ _ Hp) as Hpl.
  assert (Hdom : use_dom = true -> containsb doms p = true).
  { intros Hu. unfold use_dom in Hu. destruct show_dom; [|discriminate].
    apply (care_implies_hints_true limits doms care Hu p Hp Hc). }
  rewrite eval_conj, forallb_app', forallb_app'.
  assert (E1 : forallb (eval p) (if show_limits then range_atoms 0 limits else []) = true).
  { destruct show_limits; [|reflexivity].
    rewrite range_atoms_sem by (cbn; lia). cbn [skipn].
    apply in_ranges_containsb, Hp. }
  assert (E2 : forallb (eval p) (if use_dom then range_atoms 0 doms else []) = true).
  { destruct use_dom eqn:Eu; [|reflexivity].
    rewrite range_atoms_sem by (cbn; lia). cbn [skipn]. apply Hdom. reflexivity. }
  assert (E4 : forallb (eval p) (if care_is_true then [] else [ETrue]) = true).
  { destruct care_is_true; reflexivity. }
  rewrite E1, E2. cbn [app forallb andb]. rewrite E4, andb_true_r.
  rewrite eval_disj.
  rewrite (list_expr_sem use_dom doms K ds p El); [apply union_agrees; assumption | | |exact Hdom].
  - intros b Hb. apply K_lengths, Hb.
  - lia.
Qed.

(* C08, second sentence: each printed disjunct holds at some point (is
   non-empty), holds at no care point outside f, and the disjuncts together
   hold at every point of f (that satisfies the type hints when clipping is
   on) *)
Theorem disjuncts_sound use_dom ds :
  list_expr use_dom doms K = Some ds ->
  (use_dom = true -> forall p, in_ranges limits p -> care p = true ->
                               containsb doms p = true) ->
  (forall d, In d ds ->
     forall p, in_ranges limits p -> care p = true -> eval p d = true -> f p = true) /\
  (forall p, in_ranges limits p -> f p = true ->
     (use_dom = true -> containsb doms p = true) ->
     exists d, In d ds /\ eval p d = true).
Proof.
  intros El Hdom. split.
  - intros d Hd p Hp Hc He.
    rewrite <- (union_agrees p Hp Hc).
    rewrite <- (list_expr_sem use_dom doms K ds p El).
    + apply existsb_exists. exists d. split; assumption.
    + intros b Hb. apply K_lengths, Hb.
    + rewrite (in_ranges_length _ _ Hp). lia.
    + intros Hu. apply Hdom; assumption.
  - intros p Hp Hf Hin.
    assert (E : existsb (eval p) ds = true).
    { rewrite (list_expr_sem use_dom doms K ds p El).
      - apply existsb_exists. destruct (Hcov p Hp Hf) as [b [Hb Hcb]].
        exists b. split; [exact Hb | apply containsb_true, Hcb].
      - intros b Hb. apply K_lengths, Hb.
      - rewrite (in_ranges_length _ _ Hp). lia.
      - exact Hin. }
    apply existsb_exists in E. exact E.
Qed.
End DNF.

(* ------------------------------------------------------------ non-emptiness *)
(* a point of the box that also satisfies the hints, when the box meets the
   hints in every coordinate (the condition asserted by _clip_subrange) *)
Fixpoint meet_point (b doms : list ival) : point :=
  match b, doms with
  | ab :: b', d :: doms' => Z.max (fst ab) (fst d) :: meet_point b' doms'
  | _, _ => []
  end.

Lemma box_atoms_nonempty : forall b i doms c,
  box_atoms true i doms b = Some c ->
  length doms = length b ->
  containsb b (meet_point b doms) = true /\
  containsb doms (meet_point b doms) = true.
Proof.
  induction b as [|[a b0] b IH]; intros i doms c H Hd.
  - destruct doms; [|discriminate]. split; reflexivity.
  - destruct doms as [|[u v] doms]; [discriminate|]. cbn [box_atoms] in H.
    destruct (Z.ltb_spec (snd (a, b0)) (fst (a, b0))) as [Hemp|Hne]; [discriminate|].
    destruct (box_atoms true (S i) doms b) as [rest|] eqn:Er; [|discriminate].
    destruct (clip_subrange (a, b0) (u, v)) as [r|] eqn:Ec; [|discriminate].
    cbn [meet_point fst snd] in *. rewrite !containsb_cons. cbn [fst snd].
    destruct (IH (S i) doms rest Er) as [A B]; [cbn in Hd; lia|].
    rewrite A, B.
    unfold clip_subrange in Ec.
    destruct (Z.leb_spec a b0); [|discriminate].
    destruct (Z.leb_spec u v); [|discriminate].
    destruct (Z.leb_spec a v); [|discriminate].
    destruct (Z.leb_spec u b0); [|discriminate].
    split; rewrite !andb_true_r; apply andb_true_iff; split; apply Z.leb_le; lia.
Qed.

Lemma box_atoms_false_total : forall b i doms,
  length doms = length b -> properb b = true ->
  exists c, box_atoms false i doms b = Some c.
Proof.
  induction b as [|ab b IH]; intros i doms Hd Hp.
  - eexists. reflexivity.
  - destruct doms as [|d doms]; [discriminate|]. cbn [box_atoms].
    unfold properb in Hp. cbn [allb] in Hp.
    destruct (Z.leb_spec (fst ab) (snd ab)) as [Hle|]; [|discriminate].
    destruct (Z.ltb_spec (snd ab) (fst ab)); [lia|].
    destruct (IH (S i) doms) as [c Hc]; [cbn in Hd; lia | exact Hp |].
    rewrite Hc. eexists. reflexivity.
Qed.

(* every printed disjunct is satisfiable: with clipping, at a point of the
   box inside the hints; without, at any point of the (non-empty) box *)
Theorem disjunct_nonempty_clipped doms b c :
  box_atoms true O doms b = Some c ->
  length doms = length b ->
  exists p, containsb b p = true /\ eval p (conj c) = true.
Proof.
  intros H Hd. destruct (box_atoms_nonempty b O doms c H Hd) as [A B].
  exists (meet_point b doms). split; [exact A|].
  rewrite (box_atoms_sem0 true b doms c _ H); [exact A | | exact Hd | intros _; exact B].
  apply containsb_length in A. symmetry. exact A.
Qed.

Theorem disjunct_nonempty_plain doms b c p :
  box_atoms false O doms b = Some c ->
  length doms = length b -> containsb b p = true ->
  eval p (conj c) = true.
Proof.
  intros H Hd Hp.
  rewrite (box_atoms_sem0 false b doms c p H); [exact Hp | | exact Hd | discriminate].
  apply containsb_length in Hp. symmetry. exact Hp.
Qed.

(* ------------------------------------------------------------ the checker *)
(* meaning of the Boolean check that is evaluated on the REAL printed
   formula (e: whole formula, ds: its disjuncts) *)
Theorem printed_ok_correct limits f care clipped e ds :
  printed_ok limits f care clipped e ds = true ->
  (forall p, in_ranges limits p -> care p = true -> eval p e = f p) /\
  (forall d, In d ds -> exists b,
      Forall (fun i => fst i <= snd i) b /\
      (forall p, in_ranges limits p -> eval p d = containsb b p) /\
      (forall p, contains b p -> care p = true -> f p = true)) /\
  (forall p, in_ranges limits p -> f p = true ->
      (clipped = true -> care p = true) ->
      exists d, In d ds /\ eval p d = true).
Proof.
  unfold printed_ok. rewrite !if_andb, !andb_true_iff, !allb_forallb, !forallb_forall.
  intros [H1 [H2 H3]]. split; [|split].
  - intros p Hp Hc. specialize (H1 p (proj2 (grid_In _ _) Hp)). rewrite Hc in H1.
    apply eqb_prop, H1.
  - intros d Hd. specialize (H2 d Hd). unfold disjunct_ok in H2.
    destruct (box_of_conj limits d) as [b|]; [|discriminate].
    rewrite !if_andb, !andb_true_iff, !allb_forallb, !forallb_forall in H2.
    destruct H2 as [A [B C]]. exists b. split; [|split].
    + apply Forall_forall. intros i Hi. unfold properb in A.
      rewrite allb_forallb, forallb_forall in A. apply Z.leb_le, A, Hi.
    + intros p Hp. apply eqb_prop, B, grid_In, Hp.
    + intros p Hp Hc. specialize (C p (proj2 (box_points_In b p) Hp)).
      rewrite Hc in C. exact C.
  - intros p Hp Hf Hcl. specialize (H3 p (proj2 (grid_In _ _) Hp)). rewrite Hf in H3.
    assert (E : (if clipped then care p else true) = true).
    { destruct clipped; [apply Hcl; reflexivity | reflexivity]. }
    rewrite E in H3.
    rewrite anyb_existsb in H3. apply existsb_exists in H3. exact H3.
Qed.
