(* Per-step facts for the liveness argument of the Rabin transducer model, for
   iterate lists with the structure [rounds_ok] (RabinIter1): every allowed
   step in which the environment keeps its action
     - strictly lowers the level (index of the first z containing the state)
       and forgets the persistence index                           (rho_1), or
     - picks a persistence index, not raising the level            (rho_2), or
     - keeps level-or-lower, persistence index and goal, strictly lowers the
       rank in the attractor of the pursued goal                   (rho_3), or
     - happens at a state of the pursued goal and advances it      (rho_4);
   in the last two cases the state is outside cpre(previous basin) and the
   state reached is in cpre(previous basin) or in the persistence predicate.
   The level-0 part of rho_1 (the repair of finding F3: steps out of
   cpre(FALSE) towards the EMPTY basin) contains no step in which the
   environment keeps its action (RabinClosure1.ca_false_breaks_env, used in
   rabin_step_kinds): such a step ends the behaviour considered here, so it
   does not occur in this list. *)
From Coq Require Import List Bool Arith Lia.
Import ListNotations.
From Omega Require Import L4.Arena L4.ArenaFacts L4.Kleene L4.AlgOrder L4.GameSpec.
From OmegaGen Require Import FixpointGen Gr1Gen.
From OmegaGP Require Import FixpointProofs TransducerModel StreettNB2 StreettClosure1
  RabinClosure1 RabinIter1 RabinClosure2.

(* ---- list helpers ---------------------------------------------------------- *)
Lemma combine_map2 {A B A' B'} (f : A -> A') (g : B -> B') a b :
  combine (map f a) (map g b) = map (fun p => (f (fst p), g (snd p))) (combine a b).
Proof.
  revert b. induction a as [|x a IH]; intros [|y b]; cbn [map combine]; try reflexivity.
  rewrite IH. reflexivity.
Qed.

Lemma map_split {A B} (f : A -> B) l l1 b l2 :
  map f l = l1 ++ b :: l2 ->
  exists m1 a m2, l = m1 ++ a :: m2 /\ l1 = map f m1 /\ b = f a /\ l2 = map f m2.
Proof.
  intros Hm. apply map_eq_app in Hm. destruct Hm as [m1 [rest [Hl [H1 Hr]]]].
  apply map_eq_cons in Hr. destruct Hr as [a [m2 [Hrest [Ha H2]]]].
  exists m1, a, m2. subst. auto.
Qed.

Lemma tl_map {A B} (f : A -> B) l : tl (map f l) = map f (tl l).
Proof. destruct l; reflexivity. Qed.

Lemma last_map {A B} (f : A -> B) l d : last (map f l) (f d) = f (last l d).
Proof.
  revert d. induction l as [|a l IH]; intros d; [reflexivity|].
  cbn [map]. rewrite !last_cons_def. apply IH.
Qed.

Lemma hd_tl_split {A} (l l1 l2 : list A) z d :
  tl l = l1 ++ z :: l2 -> l = hd d l :: l1 ++ z :: l2.
Proof. destruct l as [|a l]; [destruct l1; discriminate|]. cbn [tl hd]. intros ->. reflexivity. Qed.

Lemma nth_error_combine {A B} (a : list A) (b : list B) k x y :
  nth_error (combine a b) k = Some (x, y) -> nth_error a k = Some x /\ nth_error b k = Some y.
Proof.
  revert b k. induction a as [|a0 a IH]; intros [|b0 b] [|k]; cbn [combine nth_error];
    try discriminate.
  - intros Hc. injection Hc as <- <-. auto.
  - apply IH.
Qed.

Lemma nth_error_mid {A} (l1 : list A) a l2 : nth_error (l1 ++ a :: l2) (length l1) = Some a.
Proof. rewrite nth_error_app2 by lia. rewrite Nat.sub_diag. reflexivity. Qed.

Lemma firstn_exact {A} (l1 l2 : list A) : firstn (length l1) (l1 ++ l2) = l1.
Proof.
  rewrite firstn_app, Nat.sub_diag, firstn_all. cbn [firstn]. apply app_nil_r.
Qed.

Section Lift.
Variables nc nx ny M : nat.
Variables E S : bdd.
Variables moore plus_one : bool.
Local Notation L := (lift nc nx ny M).

Lemma hd_map_lift l : hd bfalse (map L l) = L (hd bfalse l).
Proof. destruct l; reflexivity. Qed.

Lemma last_map_lift l : last (map L l) bfalse = L (last l bfalse).
Proof. apply (last_map L l bfalse). Qed.

(* the base controllable predecessor, read in the extended arena *)
Lemma cpre_lift T v :
  0 < M ->
  cpre_spec nx ny moore plus_one E S T (bv M v) = true ->
  cpre_spec nx (ny * M) moore plus_one (L E) (L S) (L T) v = true.
Proof.
  intros HM. unfold cpre_spec.
  assert (Hphi : forall x' y', phi plus_one (L E) (L S) (L T) v x' (y' * M) =
                               phi plus_one E S T (bv M v) x' y').
  { intros x' y'. unfold phi, lift, bv. cbn [vc vx vy vxp vyp].
    rewrite !Nat.div_mul by lia. reflexivity. }
  assert (Hin : forall y', In y' (seq 0 ny) -> In (y' * M) (seq 0 (ny * M))).
  { intros y' Hy. apply in_seq in Hy. apply in_seq. nia. }
  destruct moore.
  - intros Hex. apply existsb_exists in Hex. destruct Hex as [y' [Hy Hall]].
    apply existsb_exists. exists (y' * M). split; [apply Hin, Hy|].
    rewrite forallb_forall in *. intros x' Hx'. rewrite Hphi. apply Hall, Hx'.
  - rewrite !forallb_forall. intros Hall x' Hx'. specialize (Hall x' Hx').
    apply existsb_exists in Hall. destruct Hall as [y' [Hy Hp]].
    apply existsb_exists. exists (y' * M). split; [apply Hin, Hy|]. rewrite Hphi. exact Hp.
Qed.

Lemma bv_inr0 v : Kleene.inr nc nx (ny * M) v -> Kleene.inr nc nx ny (bv M v) /\ 0 < M.
Proof.
  unfold Kleene.inr, in_range, bv. cbn [vc vx vy vxp vyp].
  repeat rewrite andb_true_iff. repeat rewrite Nat.ltb_lt. intros [[[[Hc Hx] Hy] Hxp] Hyp].
  assert (0 < M) by (destruct M; lia).
  assert (vy v / M < ny) by (apply Nat.div_lt_upper_bound; lia).
  assert (vyp v / M < ny) by (apply Nat.div_lt_upper_bound; lia). lia.
Qed.
End Lift.

Section Live1.
Variables nc nx ny : nat.
Variables E S : bdd.
Variables holds goals : list bdd.
Variables moore plus_one : bool.
Variables H G : nat.
Variables (zk : list bdd) (yki : list (list bdd)) (xkijr : list (list (list (list bdd)))).

Local Notation M := (H * G).
Local Notation L := (lift nc nx ny M).
Local Notation inrE := (Kleene.inr nc nx (ny * M)).
Local Notation inr := (Kleene.inr nc nx ny).
Local Notation le := (Kleene.le nc nx ny).
Local Notation rounds_ok := (rounds_ok nc nx ny E S holds goals moore plus_one).
Local Notation round_ok := (round_ok nc nx ny E S holds goals moore plus_one).
Local Notation hold_ok := (hold_ok nc nx ny E S goals moore plus_one).
Local Notation incr := (incr nc nx ny).
Local Notation cp := (cpre_spec nx ny moore plus_one E S).
Local Notation rg := (rg H G).
Local Notation rh := (rh H G).
Local Notation rgp := (rgp H G).
Local Notation rhp := (rhp H G).
Local Notation none := (length holds).
Local Notation n := (length goals).
Local Notation rounds := (combine (combine zk yki) xkijr).
Local Notation A := (rabin_action nc nx ny H G (L E) (L S) (map L holds) (map L goals)
                       moore plus_one (map L zk) (map (map L) yki)
                       (map (map (map (map L))) xkijr)).

Hypothesis Hro : rounds_ok bfalse zk yki xkijr.

Definition lvl (s : V) : nat := fidx zk s.
Definition zprev (k : nat) : bdd := last (firstn k zk) bfalse.
Definition xr_at (k h j : nat) : list bdd :=
  match nth_error xkijr k with
  | Some xijr => match nth_error xijr h with
                 | Some xjr => match nth_error xjr j with Some xr => xr | None => [] end
                 | None => [] end
  | None => [] end.
Definition xrank (k h j : nat) (s : V) : nat := fidx (xr_at k h j) s.

Inductive rfact (v : V) : Prop :=
| rf_down :
    lvl (bv M (nextpt v)) < lvl (bv M v) -> rhp v = none -> rfact v
| rf_pick :
    lvl (bv M (nextpt v)) <= lvl (bv M v) -> rh v = none -> rhp v < none -> rfact v
| rf_desc P :
    rh v < none -> rhp v = rh v -> rgp v = rg v -> rg v < n ->
    lvl (bv M (nextpt v)) <= lvl (bv M v) ->
    cp (zprev (lvl (bv M v))) (bv M v) = false ->
    nth_error holds (rh v) = Some P ->
    cp (zprev (lvl (bv M v))) (bv M (nextpt v)) || P (bv M (nextpt v)) = true ->
    xrank (lvl (bv M v)) (rh v) (rg v) (bv M (nextpt v)) <
      xrank (lvl (bv M v)) (rh v) (rg v) (bv M v) -> rfact v
| rf_adv P R :
    rh v < none -> rhp v = rh v -> rgp v = (rg v + 1) mod n ->
    nth_error goals (rg v) = Some R -> R (bv M v) = true ->
    lvl (bv M (nextpt v)) <= lvl (bv M v) ->
    cp (zprev (lvl (bv M v))) (bv M v) = false ->
    nth_error holds (rh v) = Some P ->
    cp (zprev (lvl (bv M v))) (bv M (nextpt v)) || P (bv M (nextpt v)) = true -> rfact v.

(* the rounds of the lifted lists are the lifted rounds *)
Definition LT (t : bdd * list bdd * list (list (list bdd))) :
    bdd * list bdd * list (list (list bdd)) :=
  (L (fst (fst t)), map L (snd (fst t)), map (map (map L)) (snd t)).

Lemma rounds_lift :
  combine (combine (map L zk) (map (map L) yki)) (map (map (map (map L))) xkijr) =
  map LT rounds.
Proof.
  rewrite !combine_map2. apply map_ext. intros [[z yi] xijr]. reflexivity.
Qed.

Lemma tz_LT T1 : last (map tz (map LT T1)) bfalse = L (last (map tz T1) bfalse).
Proof.
  rewrite map_map. rewrite <- (last_map_lift nc nx ny M), map_map. reflexivity.
Qed.

Lemma round_yi zp z yi xijr i y :
  round_ok zp z yi xijr -> nth_error yi i = Some y ->
  i < none /\ exists xjr P, nth_error xijr i = Some xjr /\ nth_error holds i = Some P /\
                           hold_ok zp z P y xjr.
Proof.
  intros [_ [_ [Ly [Lx Hall]]]] Hi.
  assert (Hlt : i < length yi) by (apply nth_error_Some; congruence).
  destruct (nth_error xijr i) as [xjr|] eqn:Ex; [|apply nth_error_None in Ex; lia].
  destruct (nth_error holds i) as [P|] eqn:EP; [|apply nth_error_None in EP; lia].
  split; [lia|]. exists xjr, P. split; [reflexivity|]. split; [reflexivity|].
  apply (Hall i y xjr P Hi Ex EP).
Qed.

Lemma round_xi zp z yi xijr i xjr :
  round_ok zp z yi xijr -> nth_error xijr i = Some xjr ->
  i < none /\ exists y P, nth_error yi i = Some y /\ nth_error holds i = Some P /\
                         hold_ok zp z P y xjr.
Proof.
  intros [_ [_ [Ly [Lx Hall]]]] Hi.
  assert (Hlt : i < length xijr) by (apply nth_error_Some; congruence).
  destruct (nth_error yi i) as [y|] eqn:Ey; [|apply nth_error_None in Ey; lia].
  destruct (nth_error holds i) as [P|] eqn:EP; [|apply nth_error_None in EP; lia].
  split; [lia|]. exists y, P. split; [reflexivity|]. split; [reflexivity|].
  apply (Hall i y xjr P Ey Hi EP).
Qed.

Lemma incr_zk : incr zk.
Proof.
  pose proof (rounds_incr nc nx ny E S holds goals moore plus_one _ _ _ _ Hro) as Hi.
  apply Hi.
Qed.

(* what a rim tells about the level *)
Lemma rim_level T1 z yi xijr T2 s :
  rounds = T1 ++ (z, yi, xijr) :: T2 -> inr s ->
  z s = true -> last (map tz T1) bfalse s = false ->
  round_ok (last (map tz T1) bfalse) z yi xijr /\
  lvl s = length T1 /\ zprev (length T1) = last (map tz T1) bfalse /\
  nth_error xkijr (length T1) = Some xijr /\
  (forall s', z s' = true -> lvl s' <= length T1).
Proof.
  intros Hl Hs Hz Hp.
  destruct (rounds_split nc nx ny E S holds goals moore plus_one _ _ _ _ Hro _ _ _ _ _ Hl)
    as [Hr Hzk].
  split; [exact Hr|].
  assert (Hlen : length (map tz T1) = length T1) by apply map_length.
  split; [|split; [|split]].
  - unfold lvl. rewrite Hzk. apply Nat.le_antisymm.
    + rewrite <- Hlen. apply fidx_le, Hz.
    + rewrite <- Hlen. apply fidx_ge. intros b Hb.
      destruct (b s) eqn:Eb; [|reflexivity].
      assert (Hi1 : incr (map tz T1)).
      { apply (incr_app_l nc nx ny (map tz T1) (z :: map tz T2)). rewrite <- Hzk. apply incr_zk. }
      pose proof (incr_le_last nc nx ny _ Hi1 b Hb bfalse s Hs Eb). congruence.
  - unfold zprev. rewrite Hzk, <- Hlen, firstn_exact. reflexivity.
  - pose proof (nth_error_mid T1 (z, yi, xijr) T2) as Hn. rewrite <- Hl in Hn.
    apply nth_error_combine in Hn. apply Hn.
  - intros s' Hz'. unfold lvl. rewrite Hzk, <- Hlen. apply fidx_le, Hz'.
Qed.

Lemma hold_lt_none v : rh v < none \/ rh v = none -> rh v <> none -> rh v < none.
Proof. lia. Qed.

Theorem rabin_step_facts v :
  inrE v -> A v = true -> L E v = true -> rfact v.
Proof.
  intros Hv HA HE.
  destruct (bv_inr0 nc nx ny M v Hv) as [Hs HM].
  pose proof (bv_inr' nc nx ny H G v Hv) as Hs'.
  set (s := bv M v) in *. set (s' := bv M (nextpt v)) in *.
  destruct (rabin_step_kinds nc nx ny H G (L E) (L S) (map L holds) (map L goals)
              moore plus_one _ _ _ v Hv HA HE)
    as [l1L zL l2L Hl Hz Hb Hn C1 C2
       |T1L zL yiL xijrL T2L i yL Hl Hrim C1 C2 Hi C3 Hy
       |T1L zL yiL xijrL T2L xjrL xrL goalL l1L xL l2L Hl Hrim C1 C2 C3 Hi Hj Hg Hlx Hx Hxb Hn
       |T1L zL yiL xijrL T2L goalL yL Hl Hrim C1 C2 C3 Hj Hg Hi Hy].
  - (* rho_1 *)
    rewrite map_length in C2. rewrite tl_map in Hl.
    destruct (map_split _ _ _ _ _ Hl) as [l1 [z [l2 [Hl' [-> [-> ->]]]]]].
    rewrite hd_map_lift, (last_map L l1 (hd bfalse zk)) in Hb, Hn.
    pose proof (hd_tl_split zk l1 l2 z bfalse Hl') as Hzk.
    pose proof incr_zk as Hi. rewrite Hzk in Hi.
    destruct (fidx_descend nc nx ny (hd bfalse zk) l1 z l2 s s' Hi Hs Hb Hn) as [F1 F2].
    apply rf_down; [|exact C2]. unfold lvl. rewrite Hzk. fold s s'. lia.
  - (* rho_2 *)
    rewrite map_length in C1. rewrite rounds_lift in Hl.
    destruct (map_split _ _ _ _ _ Hl) as [T1 [[[z yi] xijr] [T2 [Hl' [-> [Ht ->]]]]]].
    unfold LT in Ht. cbn [fst snd] in Ht. injection Ht as -> -> ->.
    destruct Hrim as [R1 [R2 R3]]. rewrite tz_LT in R2.
    destruct (rim_level T1 z yi xijr T2 s Hl' Hs R1 R2) as [Hr [Hlv [_ [_ Hup]]]].
    rewrite nth_error_map in Hi. destruct (nth_error yi i) as [y|] eqn:Ey; [|discriminate].
    cbn in Hi. injection Hi as <-.
    destruct (round_yi _ _ _ _ i y Hr Ey) as [Hlt [xjr [P [_ [_ [Hle _]]]]]].
    apply rf_pick; [|exact C1|rewrite C3; exact Hlt].
    fold s s'. rewrite Hlv. apply Hup. apply (Hle s' Hs' Hy).
  - (* rho_3 *)
    rewrite map_length in C1. rewrite rounds_lift in Hl.
    destruct (map_split _ _ _ _ _ Hl) as [T1 [[[z yi] xijr] [T2 [Hl' [-> [Ht ->]]]]]].
    unfold LT in Ht. cbn [fst snd] in Ht. injection Ht as -> -> ->.
    destruct Hrim as [R1 [R2 R3]]. rewrite tz_LT in R2, R3.
    destruct (rim_level T1 z yi xijr T2 s Hl' Hs R1 R2) as [Hr [Hlv [Hzp [Hxk Hup]]]].
    rewrite nth_error_map in Hi. destruct (nth_error xijr (rh v)) as [xjr|] eqn:Ex; [|discriminate].
    cbn in Hi. injection Hi as <-.
    rewrite combine_map2, nth_error_map in Hj.
    destruct (nth_error (combine xjr goals) (rg v)) as [[xr goal]|] eqn:Ej; [|discriminate].
    cbn in Hj. injection Hj as <- <-.
    destruct (nth_error_combine _ _ _ _ _ Ej) as [Exr Ego].
    destruct (round_xi _ _ _ _ _ xjr Hr Ex) as [Hlt [y [P [Ey [EP [Hyz [_ [_ [_ Hall]]]]]]]]].
    destruct (Hall xr (nth_error_In _ _ Exr)) as [Hinc Hxs].
    rewrite tl_map in Hlx.
    destruct (map_split _ _ _ _ _ Hlx) as [l1 [x [l2 [Hlx' [-> [-> ->]]]]]].
    rewrite hd_map_lift, (last_map L l1 (hd bfalse xr)) in Hxb, Hn.
    pose proof (hd_tl_split xr l1 l2 x bfalse Hlx') as Hxr.
    assert (Hxbin : In (last l1 (hd bfalse xr)) xr).
    { apply (last_in_hd_tl xr l1 l2 x bfalse Hlx'). }
    destruct (Hxs _ Hxbin) as [Hby [_ Hbg]].
    rewrite Hxr in Hinc.
    destruct (fidx_descend nc nx ny (hd bfalse xr) l1 x l2 s s' Hinc Hs Hxb Hn) as [F1 F2].
    apply (rf_desc v P); try assumption.
    + apply nth_error_Some. congruence.
    + fold s s'. rewrite Hlv. apply Hup. apply (Hyz s' Hs'). apply (Hby s' Hs' Hn).
    + fold s. rewrite Hlv, Hzp.
      destruct (cp (last (map tz T1) bfalse) s) eqn:Ec; [|reflexivity].
      rewrite <- R3. symmetry. rewrite step_spec.
      apply (cpre_lift nc nx ny M E S moore plus_one _ v HM Ec).
    + fold s s'. rewrite Hlv, Hzp. apply (Hbg s' Hs' Hn).
    + fold s s'. unfold xrank, xr_at. rewrite Hlv, Hxk, Ex, Exr, Hxr. lia.
  - (* rho_4 *)
    rewrite map_length in C1, C3. rewrite rounds_lift in Hl.
    destruct (map_split _ _ _ _ _ Hl) as [T1 [[[z yi] xijr] [T2 [Hl' [-> [Ht ->]]]]]].
    unfold LT in Ht. cbn [fst snd] in Ht. injection Ht as -> -> ->.
    destruct Hrim as [R1 [R2 R3]]. rewrite tz_LT in R2, R3.
    destruct (rim_level T1 z yi xijr T2 s Hl' Hs R1 R2) as [Hr [Hlv [Hzp [Hxk Hup]]]].
    rewrite nth_error_map in Hi. destruct (nth_error yi (rh v)) as [y|] eqn:Ey; [|discriminate].
    cbn in Hi. injection Hi as <-.
    rewrite nth_error_map in Hj. destruct (nth_error goals (rg v)) as [R|] eqn:ER; [|discriminate].
    cbn in Hj. injection Hj as <-.
    destruct (round_yi _ _ _ _ _ y Hr Ey) as [Hlt [xjr [P [_ [EP [Hyz [_ [Hyg _]]]]]]]].
    assert (Hn : 0 < n) by (assert (rg v < n) by (apply nth_error_Some; congruence); lia).
    apply (rf_adv v P R); try assumption.
    + fold s s'. rewrite Hlv. apply Hup. apply (Hyz s' Hs' Hy).
    + fold s. rewrite Hlv, Hzp.
      destruct (cp (last (map tz T1) bfalse) s) eqn:Ec; [|reflexivity].
      rewrite <- R3. symmetry. rewrite step_spec.
      apply (cpre_lift nc nx ny M E S moore plus_one _ v HM Ec).
    + fold s s'. rewrite Hlv, Hzp. apply (Hyg Hn s' Hs' Hy).
Qed.

End Live1.
