"""C13 helpers (1): drive the REAL codegen.dumps_bdd_as_code on raw BDDs.

Tables follow coq/theories/L7Codegen/Pred.v: bit idx(a) = sum a_i << i of an
int is the value at the assignment a; position i is the bit named `b<i>`.
"""
import logging
import re

from vlib import codegen_synth as cs

logging.disable(logging.CRITICAL)


def make_manager(rng, backend, n):
    """Manager with bits b0..b(n-1) declared in a random order (so that the
    level of a bit differs from its index)."""
    bdd = cs.new_bdd(backend)
    order = list(range(n))
    rng.shuffle(order)
    for i in order:
        bdd.declare(cs.bitname(i))
    return bdd


def bdd_of_table(bdd, n, t):
    """OR of cubes / Shannon expansion; the manager's variable order is its
    own, so build by `ite` on variables in index order (canonical anyway)."""
    return cs.bdd_from_table(bdd, n, t)


def extract_dag(bdd, roots, pos=None):
    """Node table reachable from the roots, through the accessors that
    codegen itself uses: int(u), u.var, u.negated, bdd.succ(u).

    Returns {key: dict(term, neg, level, var, low, high)} with var = index of
    the bit (b<i> -> i)."""
    dag = {}
    keep = []   # keep references alive while traversing
    stack = list(roots)
    while stack:
        u = stack.pop()
        k = int(u)
        if k in dag:
            continue
        keep.append(u)
        if u.var is None:
            dag[k] = dict(term=True, neg=bool(u.negated), level=0, var=0,
                          low=0, high=0)
            continue
        level, low, high = bdd.succ(u)
        dag[k] = dict(term=False, neg=bool(u.negated), level=int(level),
                      var=(int(u.var[1:]) if pos is None else pos[u.var]),
                      low=int(low), high=int(high))
        stack.append(low)
        stack.append(high)
    del keep
    return dag


LATCH_RE = re.compile(r'^(latch_\w+) = ', re.M)


def run_python_code(code, n, names):
    """exec the generated python on all 2^n inputs; {name: table}."""
    tabs = {name: 0 for name in names}
    comp = compile(code, '<generated>', 'exec')
    for k in range(1 << n):
        st = {cs.bitname(i): bool((k >> i) & 1) for i in range(n)}
        st['out_bits'] = {}
        exec(comp, st)
        out = st['out_bits']
        if set(out) != set(names):
            raise AssertionError(f'out_bits has keys {sorted(out)}')
        for name in names:
            v = out[name]
            if v is not True and v is not False:
                raise AssertionError(f'non-Boolean value {v!r}')
            if v:
                tabs[name] |= 1 << k
    return tabs


# ------------------------------------------------- evaluating the C output
# The C target is straight-line code over `bool` values:
#   stmt  ::= lvalue '=' expr ';'         lvalue ::= ident | out_bits["name"]
#   expr  ::= or ;  or ::= and ('||' and)* ;  and ::= un ('&&' un)*
#   un    ::= '!' un | '(' expr ')' | 'true' | 'false' | ident
# with `//` comments.  Anything else (e.g. a Python keyword) is an error, and
# an identifier must have been assigned before it is read (strict evaluator).
_C_TOKEN = re.compile(r'''\s*(?:(//[^\n]*)|(&&|\|\||[!()=;])|
    (out_bits\["[^"]*"\])|([A-Za-z_][A-Za-z_0-9']*))''', re.X)


def _c_tokens(code):
    pos, out = 0, []
    code = code.rstrip()
    while pos < len(code):
        m = _C_TOKEN.match(code, pos)
        if not m or m.end() == pos:
            raise AssertionError(f'C output: unexpected text {code[pos:pos + 20]!r}')
        pos = m.end()
        if m.group(1):
            continue
        out.append(m.group(2) or m.group(3) or m.group(4))
    return out


def _c_statements(code):
    toks = _c_tokens(code)
    stmts, cur = [], []
    for t in toks:
        if t == ';':
            stmts.append(cur)
            cur = []
        else:
            cur.append(t)
    if cur:
        raise AssertionError('C output: statement without `;`')
    return stmts


def _c_eval(toks, env):
    pos = [0]

    def peek():
        return toks[pos[0]] if pos[0] < len(toks) else None

    def take(t=None):
        x = peek()
        if x is None or (t is not None and x != t):
            raise AssertionError(f'C output: expected {t}, got {x}')
        pos[0] += 1
        return x

    def un():
        x = take()
        if x == '!':
            return not un()
        if x == '(':
            r = expr()
            take(')')
            return r
        if x == 'true':
            return True
        if x == 'false':
            return False
        if re.fullmatch(r"[A-Za-z_][A-Za-z_0-9']*", x):
            if x not in env:
                raise AssertionError(
                    f'C output: identifier {x!r} is neither an input, a C '
                    'constant, nor a latch assigned earlier')
            return env[x]
        raise AssertionError(f'C output: unexpected token {x!r}')

    def and_():
        r = un()
        while peek() == '&&':
            take()
            r2 = un()
            r = r and r2
        return r

    def expr():
        r = and_()
        while peek() == '||':
            take()
            r2 = and_()
            r = r or r2
        return r
    r = expr()
    if peek() is not None:
        raise AssertionError(f'C output: trailing token {peek()!r}')
    return r


def run_c_code(c_code, n, names):
    """Evaluate the C-syntax output on all 2^n inputs; {name: table}."""
    stmts = _c_statements(c_code)
    tabs = {name: 0 for name in names}
    for k in range(1 << n):
        env = {cs.bitname(i): bool((k >> i) & 1) for i in range(n)}
        out = {}
        for st in stmts:
            if len(st) < 3 or st[1] != '=':
                raise AssertionError(f'C output: not an assignment: {st[:4]}')
            v = _c_eval(st[2:], env)
            lv = st[0]
            if lv.startswith('out_bits['):
                out[lv[len('out_bits["'):-2]] = v
            else:
                if lv in env:
                    raise AssertionError(f'C output: {lv} assigned twice')
                env[lv] = v
        if set(out) != set(names):
            raise AssertionError(f'C output: out_bits has keys {sorted(out)}')
        for name in names:
            if out[name]:
                tabs[name] |= 1 << k
    return tabs


def c_to_python(c_code, languages):
    """Token-wise translation of the C-syntax output to the Python syntax
    table (structural check of the C target)."""
    c, p = languages['c'], languages['python']
    out = []
    for line in c_code.split('\n'):
        if line.startswith(c['COMMENT']):
            out.append(p['COMMENT'] + line[len(c['COMMENT']):])
            continue
        # statement separator: every code statement ends with SEP
        # (a latch assignment spans three lines; only the last carries it)
        if line.endswith(c['SEP']):
            line = line[:len(line) - len(c['SEP'])] + p['SEP']
        line = line.replace(c['AND'], p['AND']).replace(c['OR'], p['OR'])
        line = re.sub(r'\(! ', '(' + p['NOT'] + ' ', line)
        line = re.sub(r'\btrue\b', p['TRUE'], line)
        line = re.sub(r'\bfalse\b', p['FALSE'], line)
        out.append(line)
    return '\n'.join(out)


def c_statements_terminated(c_code, languages):
    """Every C statement (maximal run of non-comment lines ending at a line
    that closes its parentheses) ends with `;`."""
    sep = languages['c']['SEP']
    com = languages['c']['COMMENT']
    depth = 0
    for line in c_code.split('\n'):
        if line.startswith(com):
            if depth:
                return False
            continue
        depth += line.count('(') - line.count(')')
        if depth == 0 and not line.endswith(sep):
            return False
        if depth != 0 and line.endswith(sep):
            return False
    return depth == 0


def rand_roots(rng, bdd, n):
    """1-4 named roots: random tables / formulas, constants, complements and
    shared sub-functions."""
    k = rng.randint(1, 4)
    tabs = []
    for j in range(k):
        c = rng.random()
        if c < 0.08:
            t = rng.choice([0, cs.full(n)])
        elif c < 0.2 and tabs:
            t = ~tabs[-1] & cs.full(n)       # complement of another root
        elif c < 0.28 and tabs:
            t = tabs[-1]                     # the same function twice
        elif c < 0.6:
            t = cs.rand_table(rng, n, rng.choice([0.2, 0.5, 0.8]))
        else:
            t = cs.rand_formula_table(rng, n, rng.randint(1, 4))
        tabs.append(t)
    return tabs


def info_lit(k, d):
    b = lambda x: 'true' if x else 'false'
    z = lambda x: f'({x})' if x < 0 else str(x)
    return (f'({z(k)}, mk_info {b(d["term"])} {b(d["neg"])} {d["level"]}%nat '
            f'{d["var"]}%nat {z(d["low"])} {z(d["high"])})')


def dag_lit(dag):
    return '[' + '; '.join(info_lit(k, dag[k]) for k in sorted(dag)) + ']'
