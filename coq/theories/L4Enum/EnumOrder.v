(* L4Enum / EnumOrder: the worklist model of EnumModel with the ORDER in which
   the next environment values are enumerated at a node as a parameter.

   EnumModel.step enumerates x' = 0, 1, ..., nx-1; the code enumerates what
   dd's `pick_iter` yields, in an order that depends on the BDD manager.
   [step_o]/[run_o] take that order as a function [enum] of the node's state;
   EnumModel.step/run are the instance [enum := fun _ => seq 0 nx]
   (EnumOrderProofs.run_o_seq).  No proofs here. *)
From Coq Require Import List Bool Arith.
Import ListNotations.
From Omega Require Import L4Enum.EnumModel.

Section EnumO.
Variables nx ny : nat.
Variable E : nat -> nat -> nat -> bool.
Variable S : nat -> nat -> nat -> nat -> bool.
Variable pick : (nat -> bool) -> option nat.
Variable enum : state -> list nat.

Definition step_o (g : graph) : option graph :=
  match queue g with
  | [] => Some g
  | u :: q =>
      match nth_error (nodes g) u with
      | Some s => process_all ny E S pick s u (mkG (nodes g) q (edges g)) (enum s)
      | None => None
      end
  end.

Fixpoint run_o (fuel : nat) (g : graph) : option graph :=
  match queue g with
  | [] => Some g
  | _ => match fuel with
         | 0 => None
         | Datatypes.S k =>
             match step_o g with Some g' => run_o k g' | None => None end
         end
  end.

End EnumO.
