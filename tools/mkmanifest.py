"""Write MANIFEST.json from tools/manifest_data.py (keeps it valid)."""
import json
import os
import sys
sys.path.insert(0, os.path.dirname(__file__))
import manifest_data as md

here = os.path.dirname(os.path.dirname(os.path.abspath(__file__)))
checks = []
for pid, d in sorted(md.CHECKS.items()):
    checks.append(dict(
        property_id=pid,
        quick_cmd=f'./check {pid} --tier quick',
        thorough_cmd=f'./check {pid} --tier thorough',
        evidence_file=f'/verif/evidence/{pid}.json',
        replay_cmd_template=f'./check {pid} --replay {{path}}',
        engine='coq-proof+correspondence',
        level_claimed=dict(category='proof', text=d['text'],
                           design_ref=(f"§12.2 (row {pid}) and §12.3 as built; plan: "
                                       + d['design_ref'])),
        level_note=d['note'],
        technique=d['technique']))
allp = [json.loads(l)['id'] for l in open(os.path.join(here, 'properties.jsonl'))]
na = [dict(property_id=p, reason=md.NOT_APPLICABLE.get(
          p, 'check not built yet; planned per DESIGN.md §6 (work in progress, not a limit of the technique)'))
      for p in allp if p not in md.CHECKS]
m = dict(
    version=1,
    setup_cmd='./setup.sh',
    hooks=dict(guard='OMEGA_VERIF',
               enable='no hooks are needed: all observables are reachable from the public/module-level API; checks run /venv/bin/python with PYTHONPATH=/repo',
               baseline_off_cmd='cd /repo && /venv/bin/python -m pytest -ra -q -p no:cacheprovider --timeout=900 --continue-on-collection-errors',
               source_commits=md.HOOK_COMMITS, add_only=True),
    engines=[dict(name='coq-proof+correspondence', path='/verif/check',
                  serves_properties=sorted(md.CHECKS),
                  kind_free_text='Coq 8.16.1 theorems over a model that is (T) regenerated from /repo by tools/py2coq.py, (G) generated tables, or (H) hand-written and tied by a correspondence check evaluated inside Coq with vm_compute')],
    checks=checks,
    notes=md.NOTES,
    not_applicable=na)
with open(os.path.join(here, 'MANIFEST.json'), 'w') as f:
    json.dump(m, f, indent=1)
print('wrote MANIFEST.json with', len(checks), 'checks,', len(na), 'not applicable')
