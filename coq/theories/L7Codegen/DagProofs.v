(* L7 / DagProofs: straightline_correct — for every well-formed DAG (levels
   strictly increase along edges) and every list of roots, the program
   emitted by dumps_bdd_as_code, run on any input, assigns every latch before
   it is used and only once, and leaves in out_bits[name] the value of the
   BDD rooted at the reference. *)
From Coq Require Import List Bool Arith ZArith Lia.
Import ListNotations.
From Omega Require Import L7Codegen.Pred L7Codegen.Dag.

(* --- small facts ----------------------------------------------------------- *)
Lemma mem_z_In u us : mem_z u us = true <-> In u us.
Proof.
  unfold mem_z. rewrite existsb_exists. split.
  - intros [x [H E]]. apply Z.eqb_eq in E. subst. exact H.
  - intro H. exists u. split; [exact H|apply Z.eqb_refl].
Qed.

Lemma find_info_In d u i : find_info d u = Some i -> In (u, i) d.
Proof.
  induction d as [|[k j] r IH]; cbn; [discriminate|].
  destruct (Z.eqb k u) eqn:E.
  - intro H. injection H as <-. apply Z.eqb_eq in E. subst. left. reflexivity.
  - intro H. right. apply IH, H.
Qed.

Lemma nodup_snoc {A} (l : list A) x : NoDup l -> ~ In x l -> NoDup (l ++ [x]).
Proof.
  induction l as [|y r IH]; cbn; intros H N.
  - constructor; [intros []|constructor].
  - inversion H; subst. constructor.
    + rewrite in_app_iff. cbn. intuition.
    + apply IH; intuition.
Qed.

(* layers *)
Lemma layer_at_add l l' u L :
  layer_at l (add_to_layer l' u L)
  = if Nat.eqb l l' then layer_at l L ++ [u] else layer_at l L.
Proof.
  induction L as [|[k us] r IH]; cbn.
  - rewrite Nat.eqb_sym. destruct (Nat.eqb l l'); reflexivity.
  - destruct (Nat.eqb k l') eqn:E1; cbn.
    + apply Nat.eqb_eq in E1. subst k.
      destruct (Nat.eqb l' l) eqn:E2.
      * apply Nat.eqb_eq in E2. subst. rewrite Nat.eqb_refl. reflexivity.
      * rewrite Nat.eqb_sym, E2. reflexivity.
    + destruct (Nat.eqb k l) eqn:E2; [|exact IH].
      apply Nat.eqb_eq in E2. subst k. rewrite E1. reflexivity.
Qed.

Lemma In_layer_add x l l' u L :
  In x (layer_at l (add_to_layer l' u L)) <->
  In x (layer_at l L) \/ (l = l' /\ x = u).
Proof.
  rewrite layer_at_add. destruct (Nat.eqb l l') eqn:E.
  - apply Nat.eqb_eq in E. rewrite in_app_iff. cbn. intuition.
  - apply Nat.eqb_neq in E. intuition.
Qed.

Lemma keys_add l' u L l :
  In l (map fst (add_to_layer l' u L)) <-> In l (map fst L) \/ l = l'.
Proof.
  induction L as [|[k us] r IH]; cbn.
  - intuition.
  - destruct (Nat.eqb k l') eqn:E; cbn.
    + apply Nat.eqb_eq in E. subst. intuition.
    + rewrite IH. intuition.
Qed.

Lemma keys_add_nodup l' u L :
  NoDup (map fst L) -> NoDup (map fst (add_to_layer l' u L)).
Proof.
  induction L as [|[k us] r IH]; cbn; intro H.
  - constructor; [intros []|constructor].
  - destruct (Nat.eqb k l') eqn:E; cbn; [exact H|].
    inversion H as [|? ? Hn Hr]; subst. constructor; [|apply IH, Hr].
    rewrite keys_add. apply Nat.eqb_neq in E. intuition.
Qed.

Lemma In_layer_key x l L : In x (layer_at l L) -> In l (map fst L).
Proof.
  induction L as [|[k us] r IH]; cbn; [intros []|].
  destruct (Nat.eqb k l) eqn:E; [apply Nat.eqb_eq in E; auto|auto].
Qed.

(* sorted(..., reverse=True) *)
Lemma In_insert_desc x y l : In y (insert_desc x l) <-> y = x \/ In y l.
Proof.
  induction l as [|z r IH]; cbn; [intuition|].
  destruct (Nat.leb z x); cbn; [intuition|]. rewrite IH. intuition.
Qed.

Lemma In_sort_desc y l : In y (sort_desc l) <-> In y l.
Proof.
  induction l as [|x r IH]; cbn; [tauto|]. rewrite In_insert_desc, IH. intuition.
Qed.

Fixpoint desc (lv : list nat) : Prop :=
  match lv with
  | [] => True
  | l :: rest => (forall r, In r rest -> r < l) /\ desc rest
  end.

Lemma desc_insert x l : desc l -> ~ In x l -> desc (insert_desc x l).
Proof.
  induction l as [|z r IH]; cbn; intros D N; [intuition|].
  destruct D as [D1 D2]. destruct (Nat.leb z x) eqn:E; cbn.
  - apply Nat.leb_le in E. split; [|split; assumption].
    intros y [<-|Hy]; [lia|]. specialize (D1 y Hy). lia.
  - apply Nat.leb_gt in E. split.
    + intros y Hy. apply In_insert_desc in Hy. destruct Hy as [->|Hy]; [exact E|auto].
    + apply IH; tauto.
Qed.

Lemma desc_sort l : NoDup l -> desc (sort_desc l).
Proof.
  induction l as [|x r IH]; cbn; intro H; [exact I|].
  inversion H; subst. apply desc_insert; [auto|]. rewrite In_sort_desc. assumption.
Qed.

Lemma desc_nodup lv : desc lv -> NoDup lv.
Proof.
  induction lv as [|l r IH]; cbn; intro D; constructor.
  - intro H. apply (proj1 D) in H. lia.
  - apply IH, D.
Qed.

(* ============================================================================ *)
Section Correct.
Variable d : dag.
Variable nlev : nat.
Hypothesis WF : wf_dag d nlev = true.
Variable a : asg.

Definition val (u : Z) : bool := ref_val (S nlev) d a u.

(* what well-formedness gives for a reference found in the table *)
Lemma wf_info u i :
  find_info d u = Some i -> i_term i = false ->
  i_level i < nlev /\ child_ok d nlev i (i_low i) = true /\ child_ok d nlev i (i_high i) = true.
Proof.
  intros H T. apply find_info_In in H.
  unfold wf_dag in WF. rewrite forallb_forall in WF. specialize (WF _ H). cbn in WF.
  rewrite T in WF. cbn in WF. apply andb_true_iff in WF. destruct WF as [W1 W3].
  apply andb_true_iff in W1. destruct W1 as [W1 W2]. apply Nat.ltb_lt in W1. auto.
Qed.

Lemma child_ok_info i c :
  child_ok d nlev i c = true ->
  exists j, find_info d c = Some j /\
    (i_term j = true \/ (i_term j = false /\ i_level i < i_level j < nlev)).
Proof.
  unfold child_ok. destruct (find_info d c) as [j|]; [|discriminate].
  intro H. exists j. split; [reflexivity|].
  destruct (i_term j); [left; reflexivity|right]. cbn in H.
  apply andb_true_iff in H. destruct H as [H1 H2].
  apply Nat.ltb_lt in H1. apply Nat.ltb_lt in H2. auto.
Qed.

(* --- the meaning of a reference does not depend on the fuel ----------------- *)
Definition need (u : Z) : nat :=
  match find_info d u with
  | Some i => if i_term i then 1 else nlev - i_level i + 1
  | None => 0
  end.

Lemma ref_val_stable : forall f1 f2 u,
  need u <= f1 -> need u <= f2 -> ref_val f1 d a u = ref_val f2 d a u.
Proof.
  induction f1 as [|f1 IH]; intros f2 u N1 N2.
  - unfold need in *. destruct f2; cbn; [reflexivity|].
    destruct (find_info d u) as [i|]; [|reflexivity]. destruct (i_term i); lia.
  - destruct f2 as [|f2].
    + unfold need in *. cbn. destruct (find_info d u) as [i|]; [|reflexivity].
      destruct (i_term i); lia.
    + cbn. unfold need in N1, N2. destruct (find_info d u) as [i|] eqn:F; [|reflexivity].
      destruct (i_term i) eqn:T; [reflexivity|]. f_equal.
      destruct (wf_info u i F T) as (L & C1 & C2).
      assert (C : forall c, child_ok d nlev i c = true -> need c <= f1 /\ need c <= f2).
      { intros c Hc. destruct (child_ok_info i c Hc) as [j [Fj [Tj|[Tj Lj]]]];
          unfold need; rewrite Fj, Tj; lia. }
      unfold node_val. destruct (get a (i_var i)); apply IH; apply C; assumption.
Qed.

Lemma need_le u : need u <= S nlev.
Proof. unfold need. destruct (find_info d u) as [i|]; [destruct (i_term i)|]; lia. Qed.

Lemma val_node u i :
  find_info d u = Some i -> i_term i = false ->
  val u = xorb (i_neg i) (node_val a i val).
Proof.
  intros F T. unfold val at 1. cbn [ref_val]. rewrite F, T. f_equal.
  destruct (wf_info u i F T) as (L & C1 & C2).
  assert (C : forall c, child_ok d nlev i c = true -> ref_val nlev d a c = val c).
  { intros c Hc. apply ref_val_stable; [|apply need_le].
    destruct (child_ok_info i c Hc) as [j [Fj [Tj|[Tj Lj]]]]; unfold need; rewrite Fj, Tj; lia. }
  unfold node_val. destruct (get a (i_var i)); apply C; assumption.
Qed.

Lemma val_term u i :
  find_info d u = Some i -> i_term i = true -> val u = xorb (i_neg i) true.
Proof. intros F T. unfold val. cbn [ref_val]. rewrite F, T. reflexivity. Qed.

(* value held by the latch of a non-terminal reference: the regular node *)
Definition regval (k : Z) : bool :=
  match find_info d k with
  | Some i => node_val a i val
  | None => false
  end.

(* roots handed to the emitter are references of the manager *)
Definition root_ok_p (u : Z) : Prop :=
  exists i, find_info d u = Some i /\ (i_term i = true \/ i_level i < nlev).

(* --- _register_nodes --------------------------------------------------------- *)
(* c is a terminal, or a registered non-terminal *)
Definition child_in (L : layers) (c : Z) : Prop :=
  exists j, find_info d c = Some j /\
    (i_term j = true \/ (i_term j = false /\ In c (layer_at (i_level j) L))).

Definition entry_ok (L : layers) (l : nat) (x : Z) : Prop :=
  exists i, find_info d x = Some i /\ i_term i = false /\ i_level i = l /\
    child_in L (i_low i) /\ child_in L (i_high i).

Definition sub (L L' : layers) : Prop :=
  forall l x, In x (layer_at l L) -> In x (layer_at l L').

Lemma child_in_mono L L' c : sub L L' -> child_in L c -> child_in L' c.
Proof.
  intros S [j [F [T|[T I]]]]; exists j; (split; [exact F|]); [left; exact T|right].
  split; [exact T|apply S, I].
Qed.

Lemma entry_ok_mono L L' l x : sub L L' -> entry_ok L l x -> entry_ok L' l x.
Proof.
  intros S (i & F & T & E & C1 & C2). exists i.
  repeat split; auto; eapply child_in_mono; eauto.
Qed.

Definition layers_ok (L : layers) : Prop :=
  NoDup (map fst L) /\ forall l, NoDup (layer_at l L).

Lemma register_unchanged u L :
  (forall i, find_info d u = Some i -> i_term i = false -> In u (layer_at (i_level i) L)) ->
  sub L L /\
  (forall i, find_info d u = Some i -> i_term i = false -> In u (layer_at (i_level i) L)) /\
  (forall l x, In x (layer_at l L) -> In x (layer_at l L) \/ entry_ok L l x) /\
  (layers_ok L -> layers_ok L).
Proof.
  intro H. split; [intros l x I; exact I|]. split; [exact H|].
  split; [intros l x I; left; exact I|]. intro O; exact O.
Qed.

Lemma register_spec : forall f u L,
  (forall i, find_info d u = Some i -> i_term i = false -> nlev <= i_level i + f) ->
  let L' := register f d u L in
  sub L L' /\
  (forall i, find_info d u = Some i -> i_term i = false -> In u (layer_at (i_level i) L')) /\
  (forall l x, In x (layer_at l L') -> In x (layer_at l L) \/ entry_ok L' l x) /\
  (layers_ok L -> layers_ok L').
Proof.
  induction f as [|f IH]; intros u L Hf; cbn zeta.
  - cbn [register]. apply register_unchanged.
    intros i F T. exfalso. destruct (wf_info u i F T) as [Lt _].
    specialize (Hf i F T). lia.
  - cbn [register]. destruct (find_info d u) as [i|] eqn:F.
    2:{ pose proof (register_unchanged u L) as R. rewrite F in R. apply R.
        intros i Fi. discriminate. }
    destruct (i_term i) eqn:T.
    { pose proof (register_unchanged u L) as R. rewrite F in R. apply R.
      intros i' Fi Ti. injection Fi as <-. congruence. }
    destruct (mem_z u (layer_at (i_level i) L)) eqn:M.
    { pose proof (register_unchanged u L) as R. rewrite F in R. apply R.
      intros i' Fi Ti. injection Fi as <-. apply mem_z_In, M. }
    set (L1 := add_to_layer (i_level i) u L).
    destruct (wf_info u i F T) as (Lt & C1 & C2).
    assert (Hf' : forall c, child_ok d nlev i c = true ->
       forall j, find_info d c = Some j -> i_term j = false -> nlev <= i_level j + f).
    { intros c Hc j Fj Tj. destruct (child_ok_info i c Hc) as [j' [Fj' [Tj'|[Tj' Lj]]]];
        rewrite Fj in Fj'; injection Fj' as <-; [congruence|].
      specialize (Hf i eq_refl T). lia. }
    destruct (IH (i_low i) L1 (Hf' _ C1)) as (S2 & R2 & N2 & O2).
    set (L2 := register f d (i_low i) L1) in *.
    destruct (IH (i_high i) L2 (Hf' _ C2)) as (S3 & R3 & N3 & O3).
    set (L3 := register f d (i_high i) L2) in *.
    assert (S1 : sub L L1).
    { intros l x H. apply In_layer_add. left. exact H. }
    assert (U1 : In u (layer_at (i_level i) L1)).
    { apply In_layer_add. right. auto. }
    split; [|split; [|split]].
    + intros l x H. apply S3, S2, S1, H.
    + intros i' Fi Ti. injection Fi as <-. apply S3, S2, U1.
    + intros l x H. apply N3 in H. destruct H as [H|H]; [|right; exact H].
      apply N2 in H. destruct H as [H|H]; [|right; eapply entry_ok_mono; eauto].
      apply In_layer_add in H. destruct H as [H|[-> ->]]; [left; exact H|right].
      exists i. repeat split; auto.
      * destruct (child_ok_info i _ C1) as [j [Fj [Tj|[Tj Lj]]]]; exists j;
          (split; [exact Fj|]); [left; exact Tj|right; split; [exact Tj|]].
        apply S3, (R2 j Fj Tj).
      * destruct (child_ok_info i _ C2) as [j [Fj [Tj|[Tj Lj]]]]; exists j;
          (split; [exact Fj|]); [left; exact Tj|right; split; [exact Tj|]].
        apply (R3 j Fj Tj).
    + intro O. apply O3, O2. destruct O as [O1 O4]. split.
      * apply keys_add_nodup, O1.
      * intro l. unfold L1. rewrite layer_at_add. destruct (Nat.eqb l (i_level i)) eqn:E; [|apply O4].
        apply Nat.eqb_eq in E. subst l.
        apply nodup_snoc; [apply O4|].
        intro H. apply mem_z_In in H. congruence.
Qed.


Definition closed (L : layers) : Prop :=
  forall l x, In x (layer_at l L) -> entry_ok L l x.

Lemma fuel_nlev u : forall i, find_info d u = Some i -> i_term i = false ->
  nlev <= i_level i + nlev.
Proof. intros. lia. Qed.

Lemma register_closed u L : closed L -> closed (register nlev d u L).
Proof.
  intros C. destruct (register_spec nlev u L (fuel_nlev u)) as (S & R & N & O).
  intros l x H. apply N in H. destruct H as [H|H]; [|exact H].
  eapply entry_ok_mono; eauto.
Qed.

Definition out_lines (roots : list (nat * Z)) : list stmt :=
  map (fun r => SOut (fst r) (latch_ref d (snd r))) roots.

Lemma collect_layers_spec : forall roots L,
  closed L -> layers_ok L ->
  let R := collect_layers nlev d roots L in
  closed (fst R) /\ layers_ok (fst R) /\ sub L (fst R) /\
  snd R = out_lines roots /\
  (forall r i, In r roots -> find_info d (snd r) = Some i -> i_term i = false ->
     In (snd r) (layer_at (i_level i) (fst R))).
Proof.
  induction roots as [|[name u] rest IH]; intros L C O; cbn zeta.
  - cbn [collect_layers fst snd].
    split; [exact C|]. split; [exact O|]. split; [intros l x H; exact H|].
    split; [reflexivity|]. intros r i [].
  - cbn [collect_layers].
    destruct (register_spec nlev u L (fuel_nlev u)) as (S1 & R1 & N1 & O1).
    specialize (IH (register nlev d u L) (register_closed u L C) (O1 O)).
    cbn zeta in IH. destruct (collect_layers nlev d rest (register nlev d u L)) as [L' lines].
    cbn [fst snd] in *. destruct IH as (C' & O' & S' & E' & I').
    split; [exact C'|]. split; [exact O'|]. split; [|split].
    + intros l x H. apply S', S1, H.
    + unfold out_lines. cbn [map fst snd]. f_equal. exact E'.
    + intros r i [<-|Hr] F T; cbn [snd] in *.
      * apply S', (R1 i F T).
      * apply (I' r i Hr F T).
Qed.

(* --- execution ---------------------------------------------------------------- *)
Lemma exec_app : forall p q s,
  exec a s (p ++ q) = match exec a s p with Some s1 => exec a s1 q | None => None end.
Proof.
  induction p as [|c p IH]; intros q s; cbn; [reflexivity|].
  destruct (exec_stmt a s c); [apply IH|reflexivity].
Qed.

Definition latches_ok (s : state) (done : list Z) : Prop :=
  (forall k, In k done -> find_latch (st_latches s) k = Some (regval k)) /\
  (forall k, ~ In k done -> find_latch (st_latches s) k = None).

Definition child_done (done : list Z) (c : Z) : Prop :=
  exists j, find_info d c = Some j /\
    (i_term j = true \/ (i_term j = false /\ In c done)).

Lemma child_done_mono done done' c :
  (forall k, In k done -> In k done') -> child_done done c -> child_done done' c.
Proof.
  intros S [j [F [T|[T I]]]]; exists j; (split; [exact F|]); [left; exact T|right; auto].
Qed.

Lemma eval_child s done c :
  latches_ok s done -> child_done done c -> eval_ref s (latch_ref d c) = Some (val c).
Proof.
  intros [L1 L2] [j [F [T|[T I]]]]; unfold eval_ref, latch_ref, latch_name; rewrite F, T; cbn [r_latch r_neg].
  - rewrite (val_term c j F T). reflexivity.
  - rewrite (L1 c I). rewrite (val_node c j F T). unfold regval. rewrite F. reflexivity.
Qed.

Lemma exec_node s done k i :
  latches_ok s done -> ~ In k done ->
  find_info d k = Some i -> i_term i = false ->
  child_done done (i_low i) -> child_done done (i_high i) ->
  exists s', exec_stmt a s (dumps_node d k) = Some s' /\
    latches_ok s' (k :: done) /\ st_outs s' = st_outs s.
Proof.
  intros LO N F T Cl Ch. unfold dumps_node. rewrite F. cbn [exec_stmt].
  rewrite (proj2 LO k N), (eval_child s done _ LO Ch), (eval_child s done _ LO Cl).
  eexists. split; [reflexivity|]. split; [|reflexivity]. unfold latches_ok. cbn [st_latches]. split.
  - intros k' [<-|H]; cbn [find_latch].
    + rewrite Z.eqb_refl. unfold regval. rewrite F. unfold node_val.
      destruct (get a (i_var i)), (val (i_high i)), (val (i_low i)); reflexivity.
    + destruct (Z.eqb k k') eqn:E; [|apply (proj1 LO), H].
      apply Z.eqb_eq in E. subst. contradiction.
  - intros k' H. cbn [find_latch]. destruct (Z.eqb k k') eqn:E.
    + apply Z.eqb_eq in E. subst. exfalso. apply H. left. reflexivity.
    + apply (proj2 LO). intro I. apply H. right. exact I.
Qed.

Lemma exec_layer : forall ks s done,
  latches_ok s done -> NoDup ks ->
  (forall k, In k ks -> ~ In k done) ->
  (forall k, In k ks -> exists i, find_info d k = Some i /\ i_term i = false /\
       child_done done (i_low i) /\ child_done done (i_high i)) ->
  exists s', exec a s (map (dumps_node d) ks) = Some s' /\
    latches_ok s' (rev ks ++ done) /\ st_outs s' = st_outs s.
Proof.
  induction ks as [|k ks IH]; intros s done LO ND Nin Ch.
  - exists s. cbn. auto.
  - inversion ND as [|? ? Hk ND']; subst.
    destruct (Ch k (or_introl eq_refl)) as (i & F & T & Cl & Chh).
    destruct (exec_node s done k i LO (Nin k (or_introl eq_refl)) F T Cl Chh)
      as (s1 & E1 & LO1 & O1).
    destruct (IH s1 (k :: done) LO1 ND') as (s2 & E2 & LO2 & O2).
    + intros k' H [<-|I]; [contradiction|]. apply (Nin k' (or_intror H) I).
    + intros k' H. destruct (Ch k' (or_intror H)) as (i' & F' & T' & Cl' & Ch').
      exists i'. split; [exact F'|]. split; [exact T'|].
      split; (eapply child_done_mono; [|eassumption]; intros ? ?; right; assumption).
    + exists s2. cbn [map exec]. rewrite E1. split; [exact E2|]. split; [|congruence].
      cbn [rev]. rewrite <- app_assoc. exact LO2.
Qed.

Section Layers.
Variable L : layers.
Hypothesis CL : closed L.
Hypothesis OK : layers_ok L.

Definition layer_code (l : nat) : list stmt :=
  SComment l :: map (dumps_node d) (layer_at l L).

Lemma exec_layers : forall lv s done,
  latches_ok s done -> desc lv ->
  (forall l x, In x (layer_at l L) -> In l lv \/ In x done) ->
  (forall x, In x done -> exists l', In x (layer_at l' L) /\ ~ In l' lv) ->
  exists s' done', exec a s (flat_map layer_code lv) = Some s' /\
    latches_ok s' done' /\ st_outs s' = st_outs s /\
    (forall l x, In x (layer_at l L) -> In x done').
Proof.
  induction lv as [|l rest IH]; intros s done LO D I1 I2.
  - exists s, done. cbn. repeat split; try apply LO.
    intros l x H. destruct (I1 l x H) as [[]|H']. exact H'.
  - cbn [desc] in D. destruct D as [D1 D2].
    cbn [flat_map]. rewrite exec_app. unfold layer_code at 1.
    cbn [exec exec_stmt].
    destruct (exec_layer (layer_at l L) s done LO (proj2 OK l)) as (s1 & E1 & LO1 & O1).
    + intros x Hx Hd. destruct (I2 x Hd) as (l' & Hl' & Nl').
      destruct (CL l x Hx) as (i & F & _ & Ei & _).
      destruct (CL l' x Hl') as (i' & F' & _ & Ei' & _).
      rewrite F in F'. injection F' as <-. apply Nl'. left. congruence.
    + intros x Hx. destruct (CL l x Hx) as (i & F & T & Ei & Cl & Ch).
      exists i. split; [exact F|]. split; [exact T|].
      destruct (wf_info x i F T) as (_ & K1 & K2).
      assert (Q : forall c, child_ok d nlev i c = true -> child_in L c -> child_done done c).
      { intros c Kc [j [Fj [Tj|[Tj Ij]]]]; exists j; (split; [exact Fj|]);
          [left; exact Tj|right; split; [exact Tj|]].
        destruct (child_ok_info i c Kc) as [j' [Fj' [Tj'|[Tj' Lj]]]];
          rewrite Fj in Fj'; injection Fj' as <-; [congruence|].
        destruct (I1 _ _ Ij) as [[Hl|Hl]|Hl]; [lia| |exact Hl].
        specialize (D1 _ Hl). lia. }
      split; apply Q; assumption.
    + rewrite E1.
      destruct (IH s1 (rev (layer_at l L) ++ done) LO1 D2) as (s2 & done2 & E2 & LO2 & O2 & A2).
      * intros l' x Hx. rewrite in_app_iff, <- in_rev.
        destruct (I1 l' x Hx) as [[<-|Hl]|Hd]; auto.
      * intros x Hx. rewrite in_app_iff, <- in_rev in Hx. destruct Hx as [Hx|Hx].
        -- exists l. split; [exact Hx|]. intro Hl. specialize (D1 _ Hl). lia.
        -- destruct (I2 x Hx) as (l' & Hl' & Nl'). exists l'. split; [exact Hl'|].
           intro Hr. apply Nl'. right. exact Hr.
      * exists s2, done2. split; [exact E2|]. split; [exact LO2|].
        split; [congruence|exact A2].
Qed.

End Layers.

Lemma exec_outs : forall roots s done,
  latches_ok s done ->
  (forall r, In r roots -> child_done done (snd r)) ->
  exists s', exec a s (out_lines roots) = Some s' /\
    st_outs s' = st_outs s ++ map (fun r => (fst r, val (snd r))) roots /\
    st_latches s' = st_latches s.
Proof.
  induction roots as [|[name u] rest IH]; intros s done LO H.
  - exists s. cbn. rewrite app_nil_r. auto.
  - cbn [out_lines map exec exec_stmt fst snd].
    rewrite (eval_child s done u LO (H (name, u) (or_introl eq_refl))).
    set (s1 := mk_state (st_latches s) (st_outs s ++ [(name, val u)])).
    destruct (IH s1 done) as (s2 & E2 & O2 & L2).
    + exact LO.
    + intros r Hr. apply H. right. exact Hr.
    + exists s2. split; [exact E2|]. split; [|exact L2].
      rewrite O2. unfold s1. cbn [st_outs]. rewrite <- app_assoc. reflexivity.
Qed.

(* C13: straightline_correct *)
Theorem straightline_correct roots :
  (forall r, In r roots -> root_ok_p (snd r)) ->
  run a (dumps_bdd_as_code nlev d roots)
  = Some (map (fun r => (fst r, val (snd r))) roots).
Proof.
  intro RO. unfold dumps_bdd_as_code.
  assert (C0 : closed []) by (intros l x []).
  assert (O0 : layers_ok []) by (split; [constructor|intro; constructor]).
  destruct (collect_layers_spec roots [] C0 O0) as (C & O & _ & E & I).
  destruct (collect_layers nlev d roots []) as [L lines]. cbn [fst snd] in *. subst lines.
  unfold run. rewrite exec_app.
  destruct (exec_layers L C O (sort_desc (map fst L)) (mk_state [] []) [])
    as (s1 & done1 & E1 & LO1 & O1 & A1).
  - split; [intros k []|reflexivity].
  - apply desc_sort, (proj1 O).
  - intros l x H. left. apply In_sort_desc. eapply In_layer_key, H.
  - intros x [].
  - unfold dumps_layers. fold (layer_code L). rewrite E1.
    destruct (exec_outs roots s1 done1 LO1) as (s2 & E2 & O2 & _).
    + intros r Hr. destruct (RO r Hr) as [i [F T]]. exists i. split; [exact F|].
      destruct (i_term i) eqn:Ti; [left; reflexivity|right]. split; [reflexivity|].
      eapply A1, (I r i Hr F Ti).
    + rewrite E2, O2, O1. reflexivity.
Qed.


(* a successful (strict) run assigns each latch once, and only latches that
   were not assigned before *)
Lemma exec_once : forall p s s',
  exec a s p = Some s' ->
  NoDup (assigned p) /\
  (forall k, In k (assigned p) -> find_latch (st_latches s) k = None).
Proof.
  induction p as [|c p IH]; intros s s' H; cbn in *.
  - split; [constructor|intros k []].
  - destruct (exec_stmt a s c) as [s1|] eqn:E; [|discriminate].
    destruct (IH s1 s' H) as [N1 N2]. destruct c as [l|k bit hi lo|name r]; cbn in E |- *.
    + injection E as <-. auto.
    + destruct (find_latch (st_latches s) k) eqn:Fk; [discriminate|].
      destruct (eval_ref s hi); [|discriminate]. destruct (eval_ref s lo); [|discriminate].
      injection E as <-. cbn [st_latches] in N2. split.
      * constructor; [|exact N1]. intro I. specialize (N2 k I). cbn in N2.
        rewrite Z.eqb_refl in N2. discriminate.
      * intros k' [<-|I]; [exact Fk|]. specialize (N2 k' I). cbn in N2.
        destruct (Z.eqb k k'); [discriminate|exact N2].
    + destruct (eval_ref s r); [|discriminate]. injection E as <-. cbn [st_latches] in N2. auto.
Qed.

Theorem latches_assigned_once roots :
  (forall r, In r roots -> root_ok_p (snd r)) ->
  NoDup (assigned (dumps_bdd_as_code nlev d roots)).
Proof.
  intro RO. assert (H := straightline_correct roots RO). unfold run in H.
  destruct (exec a (mk_state [] []) (dumps_bdd_as_code nlev d roots)) as [s|] eqn:E; [|discriminate].
  apply (exec_once _ _ _ E).
Qed.

End Correct.
