(* Per-step facts for the liveness argument, for the GENERATED solver and the
   transducer model: each allowed step in which the environment keeps its
   action either switches the goal at a goal state, or strictly lowers the
   rank (position of the first trap containing the state), or keeps it
   without raising while a persistence predicate holds. *)
From Coq Require Import List Bool Arith Lia.
Import ListNotations.
From Omega Require Import L4.Arena L4.ArenaFacts L4.Kleene L4.GameSpec.
From OmegaGen Require Import FixpointGen Gr1Gen.
From OmegaGP Require Import FixpointProofs StreettProofs TransducerModel CaSpec StreettTProofs
  StreettNB1 StreettNB2 StreettNB3 StreettNB4 StreettIter1 StreettIter2
  StreettClosure1 StreettLive1 StreettLive2.

Section Live3.
Variables nc nx ny : nat.
Variables E S : bdd.
Variables holds goals : list bdd.
Variables moore plus_one : bool.
Variable fuel : nat.
Hypothesis Hfuel : NV nc nx ny <= fuel.
Hypothesis Sh : Forall spred holds.
Hypothesis Sg : Forall spred goals.
Variable G : nat.
Hypothesis HG : 0 < G.

Local Notation L := (lift nc nx ny G).
Local Notation solve := (Gr1Gen.solve_streett_game nc nx ny E S holds goals moore plus_one).
Local Notation zf := (fst (fst (solve fuel))).
Local Notation yijf := (snd (fst (solve fuel))).
Local Notation xijkf := (snd (solve fuel)).
Local Notation A := (streett_action nc nx ny G (L E) (L S) (map L holds) (map L goals)
                       moore plus_one (L zf) (map (map L) yijf) (map (map (map L)) xijkf)).
Local Notation n := (length goals).
Local Notation inrE := (inr nc nx (ny * G)).
Local Notation flat := (flat holds).
Local Notation lf := (fun p : bdd * bdd => (L (fst p), L (snd p))).

(* the recorded iterates of every goal form an onion *)
Lemma solver_onions j :
  j < n ->
  exists yj xjk gl, nth_error yijf j = Some yj /\ nth_error xijkf j = Some xjk /\
    onion nc nx ny E S moore plus_one holds gl bfalse yj xjk /\
    Forall spred yj /\ Forall (Forall spred) xjk.
Proof.
  intros Hj.
  destruct (solve_is_zbody nc nx ny E S holds goals moore plus_one fuel Hfuel Sh Sg)
    as [q [Sq [Hsol _]]]. rewrite Hsol. cbn [fst snd].
  destruct (nth_error goals j) as [R|] eqn:ER; [|apply nth_error_None in ER; lia].
  assert (HRin : In R goals) by (apply (nth_error_In _ _ ER)).
  set (gl := Arena.band nc nx ny R (FixpointGen.step nc nx ny moore plus_one fuel E S q)).
  pose proof (aua_onion nc nx ny E S holds moore plus_one fuel Hfuel Sh gl
                (goal_spred nc nx ny E S goals moore plus_one fuel Sg R q HRin)) as Hinv.
  unfold zbody. cbn [fst snd]. rewrite !(map_nth_error _ _ _ ER). fold gl.
  destruct (Gr1Gen.attractor_under_assumptions nc nx ny E S holds moore plus_one fuel gl)
    as [[y yj] xjk]. cbn [aua_inv fst snd] in *.
  exists yj, xjk, gl. tauto.
Qed.

Lemma lift_at_v u v : L u v = u (bv G v).
Proof. reflexivity. Qed.

Lemma used_of_inv l : forall (u : bdd) v,
  used_of nc nx ny G u l v = false ->
  u v = false /\ forall p, In p l -> fst p v = false.
Proof.
  induction l as [|p l IH]; intros u v; cbn [StreettNB1.used_of fold_left]; [intros H; split; [exact H|intros q []]|].
  intros H. destruct (IH _ _ H) as [H1 H2]. rewrite bor_spec in H1.
  apply orb_false_iff in H1. destruct H1 as [Hu Hp]. split; [exact Hu|].
  intros q [<-|Hq]; [exact Hp|apply H2, Hq].
Qed.

Lemma basin_of_inv l : forall (b : bdd) v,
  basin_of nc nx ny G b l v = false -> b v = false /\ forall y, In y l -> y v = false.
Proof.
  induction l as [|a l IH]; intros b v; cbn [StreettNB1.basin_of fold_left]; [intros H; split; [exact H|intros q []]|].
  intros H. destruct (IH _ _ H) as [H1 H2]. rewrite bor_spec in H1.
  apply orb_false_iff in H1. destruct H1 as [Hb Ha]. split; [exact Hb|].
  intros q [<-|Hq]; [exact Ha|apply H2, Hq].
Qed.

(* rank of a valuation w.r.t. the traps of goal j *)
Definition rank (xjk : list (list bdd)) (v : V) : nat := first_idx (flat xjk) (bv G v).

Inductive step_fact (v : V) : Prop :=
| sf_switch R :
    nth_error goals (cnt G v) = Some R -> cntp G v = (cnt G v + 1) mod n ->
    R (bv G v) = true -> step_fact v
| sf_descend xjk :
    nth_error xijkf (cnt G v) = Some xjk -> cntp G v = cnt G v ->
    rank xjk (nextpt v) < rank xjk v -> step_fact v
| sf_stay xjk l1 x h l2 :
    nth_error xijkf (cnt G v) = Some xjk -> cntp G v = cnt G v ->
    flat xjk = l1 ++ (x, h) :: l2 -> rank xjk v = length l1 ->
    rank xjk (nextpt v) <= length l1 -> h (bv G v) = true -> step_fact v.

Theorem step_facts v :
  inrE v -> A v = true -> L E v = true -> cnt G v < n -> step_fact v.
Proof.
  intros Hv HA HE Hc.
  destruct (streett_step_kinds nc nx ny G (L E) (L S) (map L holds) (map L goals) moore plus_one
              (L zf) (map (map L) yijf) (map (map (map L)) xijkf) v Hv HA HE)
    as [i goalL Hg C1 C2 Hgv Hz | i yjL l1L yL l2L Hy Htl C1 C2 Hyv Hb Hb'
        | i xjkL l1L xL hL l2L Hx Hfl C1 C2 Hxv Hu Hh Hx'].
  - (* switch *)
    rewrite nth_error_map in Hg. rewrite map_length in C2.
    destruct (nth_error goals i) as [R|] eqn:ER; [|discriminate]. cbn in Hg.
    inversion Hg. subst goalL. subst i.
    apply (sf_switch v R ER C2). exact Hgv.
  - (* descend *)
    subst i. destruct (solver_onions (cnt G v) Hc) as [yj [xjk [gl [Hyj [Hxjk [Hon [Syj Sxjk]]]]]]].
    rewrite (map_nth_error _ _ _ Hyj) in Hy. inversion Hy. subst yjL. clear Hy.
    destruct yj as [|y0 ys]; [cbn in Htl; destruct l1L; discriminate|].
    cbn [map tl hd] in *.
    apply map_eq_app in Htl. destruct Htl as [l1 [rest [Hys [Hl1 Hrest]]]].
    apply map_eq_cons in Hrest. destruct Hrest as [y [l2 [Hrest [Hyy Hl2]]]].
    subst l1L yL l2L rest.
    destruct (basin_of_inv _ _ _ Hb) as [Hb0 Hbl].
    apply (sf_descend v xjk Hxjk C2). unfold rank.
    apply (descend_decreases nc nx ny E S moore plus_one holds gl (y0 :: ys) xjk
             (y0 :: l1) (y :: l2)); [exact Hon|rewrite Hys; reflexivity| |].
    + intros a [<-|Ha]; [exact Hb0|]. apply (Hbl (L a)). apply in_map, Ha.
    + destruct (basin_of_true nc nx ny G _ _ _ Hb') as [H0|[yy [Hin Hyy']]].
      * exists y0. split; [left; reflexivity|exact H0].
      * apply in_map_iff in Hin. destruct Hin as [a [<- Ha]].
        exists a. split; [right; exact Ha|exact Hyy'].
  - (* stay *)
    subst i. destruct (nth_error xijkf (cnt G v)) as [xjk|] eqn:Exjk;
      [|rewrite nth_error_map, Exjk in Hx; discriminate].
    rewrite (map_nth_error _ _ _ Exjk) in Hx. inversion Hx. subst xjkL. clear Hx.
    rewrite (flat3_lift nc nx ny G holds xjk) in Hfl.
    apply map_eq_app in Hfl. destruct Hfl as [l1 [rest [Hfl [Hl1 Hrest]]]].
    apply map_eq_cons in Hrest. destruct Hrest as [[x h] [l2 [Hrest [Hp Hl2]]]].
    cbn [fst snd] in Hp. inversion Hp. subst l1L xL hL l2L rest.
    destruct (used_of_inv _ _ _ Hu) as [_ Hul].
    apply (sf_stay v xjk l1 x h l2 Exjk C2 Hfl).
    + unfold rank. rewrite Hfl. apply fi_split; [exact Hxv|].
      intros p Hp'. apply (Hul (lf p)). apply (in_map lf), Hp'.
    + unfold rank. rewrite Hfl. apply fi_le. exact Hx'.
    + exact Hh.
Qed.

End Live3.
