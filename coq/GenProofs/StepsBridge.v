(* The functions TRANSLATED from omega/steps.py (gen/StepsGen.v,
   tools/py2coq_steps.py, tie T) are the hand-written model
   theories/L4Steps/{Mangle,Assembly,Stepper}.v that the C19 theorems talk
   about.  Re-proved on every run: a change of steps.py that alters the
   meaning of a translated term breaks these lemmas; a rewrite that leaves
   the term convertible (renamed locals, an expression split over two
   assignments) does not.

   The translated code uses the generic dictionary operations of Python
   (`d[k] = v` is [dset]: replace in place or append; comprehensions and
   `update` store the items one by one), the model uses [filter] and list
   append.  The two agree on association lists WITH DISTINCT KEYS, which is
   what every Python dictionary is.  Accordingly:
     - `_omit_prefix`, `add_prefix`, `omit_prefix`, `_assert_disjoint`,
       `Assembly._to_local_state`, `History.update`, `_unprime_state`,
       `_assert_support_assigned`, `_assert_unblocked`,
       `AutomatonStepper.step`: Leibniz equality for ALL arguments;
     - `visible_vars`, `hidden_vars`, `slice_dict`,
       `Assembly._to_global_state`, `Assembly._update_state`: equality for
       every argument dictionary with distinct keys ([NoDup (keys d)]);
     - `Assembly._init`, `Assembly._step`, `Assembly.init`,
       `Assembly.step`, runs: equality whenever the machines return
       dictionaries with distinct keys (implied by [machines_ok], the
       hypothesis the assembly theorems have anyway);
     - `AutomatonStepper.init`: equality whenever `pick` returns
       dictionaries with distinct keys (implied by [pick l = Some a -> In a l]
       for well-formed declarations).

   The proofs do not restate the generated terms: loop bodies are captured
   by pattern matching on the goal and compared with the model's recursive
   functions through [fold_res] below. *)
From Coq Require Import List Bool String Ascii ZArith Lia.
From Omega Require Import L4Steps.Mangle L4Steps.MangleProofs L4Steps.Stepper
  L4Steps.StepperProofs L4Steps.Assembly L4Steps.AssemblyProofs.
From OmegaGen Require StepsGen.
Import ListNotations.
Open Scope string_scope.

(* ------------------------------------------------------------- strings *)
Lemma ascii_dec_eqb : forall (T : Type) (a b : ascii) (x y : T),
  (if ascii_dec a b then x else y) = (if Ascii.eqb a b then x else y).
Proof.
  intros T a b x y. destruct (ascii_dec a b) as [->|N].
  - rewrite Ascii.eqb_refl. reflexivity.
  - apply Ascii.eqb_neq in N. rewrite N. reflexivity.
Qed.

(* `s.startswith(p)`  is  "strip p s succeeds" *)
Lemma prefix_strip : forall p s,
  String.prefix p s = match strip p s with Some _ => true | None => false end.
Proof.
  induction p as [|a p IH]; intros s; [destruct s; reflexivity|].
  destruct s as [|b s]; [reflexivity|]. simpl.
  rewrite ascii_dec_eqb. destruct (Ascii.eqb a b); [apply IH|reflexivity].
Qed.

(* `k.startswith('_')` *)
Lemma prefix_underscore : forall k, String.prefix "_" k = is_hidden k.
Proof.
  intros [|c k]; simpl; [reflexivity|].
  rewrite ascii_dec_eqb, Ascii.eqb_sym.
  destruct (Ascii.eqb c "_"); [destruct k|]; reflexivity.
Qed.

(* `(p + r)[len(p):]` *)
Lemma py_drop_app : forall p r,
  StepsGen.py_drop (String.length p) (p ++ r) = r.
Proof. induction p as [|a p IH]; intros r; simpl; [destruct r|]; auto. Qed.

(* ------------------------------------------------- dictionary primitives *)
Lemma dset_fresh : forall k v d,
  mem k (keys d) = false -> dset k v d = (d ++ [(k, v)])%list.
Proof.
  induction d as [|[k' v'] d IH]; simpl; intros M; [reflexivity|].
  apply orb_false_elim in M. destruct M as [E M].
  rewrite E. rewrite IH by exact M. reflexivity.
Qed.

(* storing, one by one, the items that satisfy [f] into [acc] (a dictionary
   comprehension / the loop of `update`) appends them when no key is
   repeated *)
Lemma store_items : forall (f : string -> bool) d acc,
  NoDup (keys d) -> (forall k, In k (keys d) -> ~ In k (keys acc)) ->
  fold_left (fun a x => if f (fst x) then dset (fst x) (snd x) a else a) d acc
  = (acc ++ filter (fun kv => f (fst kv)) d)%list.
Proof.
  induction d as [|[k v] d IH]; intros acc ND DJ; simpl.
  - rewrite app_nil_r. reflexivity.
  - inversion ND as [|? ? NI ND']; subst.
    destruct (f k).
    + rewrite dset_fresh by (apply mem_false, DJ; left; reflexivity).
      rewrite IH.
      * rewrite <- app_assoc. reflexivity.
      * exact ND'.
      * intros k' Hk' F. rewrite keys_app in F. apply in_app_or in F.
        destruct F as [F|[F|[]]].
        -- apply (DJ k'); [right; exact Hk'|exact F].
        -- simpl in F. subst k'. exact (NI Hk').
    + apply IH; [exact ND'|]. intros k' Hk'. apply DJ. right. exact Hk'.
Qed.

Lemma comprehension_is_filter : forall (f : string -> bool) d,
  NoDup (keys d) ->
  fold_left (fun a x => if f (fst x) then dset (fst x) (snd x) a else a) d []
  = filter (fun kv => f (fst kv)) d.
Proof. intros f d ND. rewrite store_items; auto. Qed.

(* `d.update(e)` *)
Lemma py_update_append : forall d e,
  NoDup (keys e) -> (forall k, In k (keys e) -> ~ In k (keys d)) ->
  StepsGen.py_update d e = (d ++ e)%list.
Proof.
  intros d e ND DJ. unfold StepsGen.py_update.
  transitivity (d ++ filter (fun kv => (fun _ => true) (fst kv)) e)%list.
  - exact (store_items (fun _ => true) e d ND DJ).
  - f_equal. clear. induction e as [|x e IH]; simpl; [reflexivity|].
    rewrite IH. reflexivity.
Qed.

Lemma is_nil_filter : forall (A : Type) (p : A -> bool) l,
  StepsGen.is_nil (filter p l) = negb (existsb p l).
Proof.
  induction l as [|x l IH]; simpl; [reflexivity|].
  destruct (p x); simpl; [reflexivity|exact IH].
Qed.

(* ------------------------------------------------------- loops over res *)
Lemma bind_ok : forall (A : Type) (r : res A), bind r (fun a => Ok a) = r.
Proof. intros A [a|e]; reflexivity. Qed.

(* a translated `for` loop in a function that can raise: [f] is the whole
   generated step function (on [res]); it is compared with a recursive
   function [F] of the model *)
Lemma fold_res : forall (A B : Type) (P : B -> Prop)
    (f : res A -> B -> res A) (F : list B -> A -> res A),
  (forall e b, f (Err e) b = Err e) ->
  (forall acc, F [] acc = Ok acc) ->
  (forall b l acc, P b -> F (b :: l) acc = bind (f (Ok acc) b) (F l)) ->
  forall l acc, Forall P l -> fold_left f l (Ok acc) = F l acc.
Proof.
  intros A B P f F HE H0 HS.
  assert (E : forall l e, fold_left f l (Err e) = Err e).
  { induction l as [|b l IH]; intros e; simpl; [reflexivity|].
    rewrite HE. apply IH. }
  induction l as [|b l IH]; intros acc HP; simpl.
  - symmetry. apply H0.
  - inversion HP as [|? ? Pb Pl]; subst. rewrite (HS b l acc Pb).
    destruct (f (Ok acc) b) as [a|e]; simpl; [apply IH, Pl|apply E].
Qed.

Lemma Forall_True : forall (B : Type) (l : list B), Forall (fun _ => True) l.
Proof. induction l; constructor; auto. Qed.

(* remove the administrative structure of the generated terms: `let`s, and
   the `bind r (fun x => Ok x)` that `x = f(..); return x` produces *)
Ltac norm := cbv zeta; cbn [bind]; rewrite ?bind_ok.

(* rewrite the (only) generated loop of the goal into the model function F *)
Ltac loop_is P F :=
  match goal with
  | |- context [fold_left ?f ?l ?i] =>
      match i with
      | Ok ?a =>
          let H := fresh "LOOP" in
          assert (H : Forall P l -> fold_left f l i = F l a);
          [apply (fold_res _ _ P f F); [reflexivity|reflexivity|]|]
      end
  end.

(* ============================================================ mangling == *)
Theorem omit_prefix1_generated_is_model : forall s p,
  StepsGen._omit_prefix s p = omit1 s p.
Proof.
  intros s p. unfold StepsGen._omit_prefix, omit1. cbv zeta.
  rewrite prefix_strip.
  destruct (strip (p ++ "_") s) as [r|] eqn:E; [|reflexivity].
  apply strip_Some in E. subst s. rewrite append_assoc. apply py_drop_app.
Qed.

Theorem visible_vars_generated_is_model : forall d,
  NoDup (keys d) -> StepsGen.visible_vars d = visible_vars d.
Proof.
  intros d ND.
  transitivity (filter (fun kv => (fun k => negb (String.prefix "_" k)) (fst kv)) d).
  - exact (comprehension_is_filter (fun k => negb (String.prefix "_" k)) d ND).
  - apply filter_ext. intros kv. rewrite prefix_underscore. reflexivity.
Qed.

Theorem hidden_vars_generated_is_model : forall d,
  NoDup (keys d) -> StepsGen.hidden_vars d = hidden_vars d.
Proof.
  intros d ND.
  transitivity (filter (fun kv => (fun k => String.prefix "_" k) (fst kv)) d).
  - exact (comprehension_is_filter (fun k => String.prefix "_" k) d ND).
  - apply filter_ext. intros kv. rewrite prefix_underscore. reflexivity.
Qed.

(* `slice_dict(d, keys)`: the restriction of d to keys *)
Theorem slice_dict_generated_is_filter : forall d ks,
  NoDup (keys d) ->
  StepsGen.slice_dict d ks = filter (fun kv => mem (fst kv) ks) d.
Proof.
  intros d ks ND.
  exact (comprehension_is_filter (fun k => mem k ks) d ND).
Qed.

Theorem add_prefix_generated_is_model : forall d p,
  StepsGen.add_prefix d p = add_prefix d p.
Proof.
  intros d p. unfold StepsGen.add_prefix, add_prefix. cbv zeta.
  rewrite bind_ok.
  loop_is (fun _ : string * Z => True) (fun l acc => add_prefix_acc l p acc).
  - intros [k v] l acc _. cbv beta zeta. cbn [fst snd bind add_prefix_acc].
    rewrite prefix_underscore. destruct (is_hidden k).
    + destruct (mem (p ++ k) (keys acc)) eqn:M; cbn [negb bind].
      * reflexivity.
      * rewrite dset_fresh by exact M. reflexivity.
    + reflexivity.
  - apply LOOP, Forall_True.
Qed.

Theorem omit_prefix_generated_is_model : forall d p,
  StepsGen.omit_prefix d p = omit_prefix d p.
Proof.
  intros d p.
  unfold StepsGen.omit_prefix, omit_prefix, omit_prefix_with. cbv zeta.
  rewrite bind_ok.
  loop_is (fun _ : string * Z => True)
          (fun l acc => omit_prefix_acc omit1 l p acc).
  - intros [k v] l acc _. cbv beta zeta. cbn [fst snd bind omit_prefix_acc].
    rewrite omit_prefix1_generated_is_model.
    destruct (mem (omit1 k p) (keys acc)) eqn:M; cbn [negb bind].
    + reflexivity.
    + rewrite dset_fresh by exact M. reflexivity.
  - apply LOOP, Forall_True.
Qed.

Theorem assert_disjoint_generated_is_model : forall a b,
  StepsGen._assert_disjoint a b
  = if overlap a b then Err Collision else Ok tt.
Proof.
  intros a b. unfold StepsGen._assert_disjoint, overlap. cbv zeta.
  rewrite is_nil_filter. destruct (existsb _ _); reflexivity.
Qed.

(* results of the model's functions are Python dictionaries again *)
Lemma add_prefix_acc_NoDup : forall p d acc r,
  add_prefix_acc d p acc = Ok r -> NoDup (keys acc) -> NoDup (keys r).
Proof.
  induction d as [|[k v] d IH]; intros acc r H ND; simpl in H.
  - injection H as <-. exact ND.
  - destruct (is_hidden k).
    + destruct (mem (p ++ k) (keys acc)) eqn:M; [discriminate|].
      apply (IH _ _ H). rewrite keys_app. simpl.
      apply NoDup_snoc; [exact ND|apply mem_false, M].
    + apply (IH _ _ H). apply dset_NoDup, ND.
Qed.

Lemma omit_prefix_NoDup : forall d p r,
  omit_prefix d p = Ok r -> NoDup (keys r).
Proof.
  intros d p r H. apply omit_prefix_acc_inv in H. destruct H as [_ H].
  apply H. constructor.
Qed.

(* ==================================== local / global state conversion == *)
Theorem to_local_generated_is_model : forall G name m,
  StepsGen.Assembly__to_local_state G name m = to_local G name (m_vars m).
Proof.
  intros G name m.
  unfold StepsGen.Assembly__to_local_state, to_local, to_local_with. norm.
  rewrite omit_prefix_generated_is_model. fold omit_prefix.
  destruct (omit_prefix G name) as [u|e] eqn:E; cbn [bind]; [|reflexivity].
  rewrite ?bind_ok. f_equal.
  exact (comprehension_is_filter (fun k => mem k (m_vars m)) u
           (omit_prefix_NoDup _ _ _ E)).
Qed.

Theorem to_global_generated_is_model : forall local name,
  NoDup (keys local) ->
  StepsGen.Assembly__to_global_state local name = to_global local name.
Proof.
  intros local name ND.
  unfold StepsGen.Assembly__to_global_state, to_global. norm.
  rewrite visible_vars_generated_is_model, hidden_vars_generated_is_model,
    add_prefix_generated_is_model by exact ND.
  destruct (add_prefix (hidden_vars local) name) as [gh|e] eqn:E;
    cbn [bind]; [|reflexivity].
  rewrite ?bind_ok, assert_disjoint_generated_is_model.
  destruct (overlap (visible_vars local) gh) eqn:O; cbn [bind]; [reflexivity|].
  rewrite ?bind_ok, py_update_append; [reflexivity| |].
  - eapply add_prefix_acc_NoDup; [exact E|constructor].
  - intros k Hg Hv. exact (proj1 (overlap_false _ _) O k Hv Hg).
Qed.

Theorem update_state_generated_is_model : forall state partial,
  NoDup (keys partial) ->
  StepsGen.Assembly__update_state state partial = update_state state partial.
Proof.
  intros state partial ND.
  unfold StepsGen.Assembly__update_state, update_state. norm.
  rewrite assert_disjoint_generated_is_model.
  destruct (overlap partial state) eqn:O; cbn [bind]; [reflexivity|].
  rewrite ?bind_ok, py_update_append; [reflexivity|exact ND|].
  exact (proj1 (overlap_false _ _) O).
Qed.

(* `History.update`: the old state goes to the end of `past` *)
Theorem history_update_generated_is_model : forall (s : dict) past n,
  StepsGen.History_update s past n = (n, (past ++ [s])%list).
Proof. reflexivity. Qed.

(* ============================================================ Assembly == *)
(* what the equalities below need of a machine: it returns Python
   dictionaries (first half of [machine_ok]) *)
Definition returns_dicts (m : machine) : Prop :=
  (forall r, m_init m = Ok r -> NoDup (keys r)) /\
  (forall l r, m_step m l = Ok r -> NoDup (keys r)).

Lemma machine_ok_returns_dicts : forall m, machine_ok m -> returns_dicts m.
Proof.
  intros m [I S]. split.
  - intros r H. exact (proj1 (I r H)).
  - intros l r H. exact (proj1 (S l r H)).
Qed.

Lemma machines_ok_Forall : forall ms,
  machines_ok ms -> Forall (fun nm => returns_dicts (snd nm)) ms.
Proof.
  intros ms H. apply Forall_forall. intros nm Hn.
  apply machine_ok_returns_dicts, H, Hn.
Qed.

Theorem init1_generated_is_model : forall m name,
  returns_dicts m ->
  StepsGen.Assembly__init m name
  = bind (m_init m) (fun partial => to_global partial name).
Proof.
  intros m name [RI _]. unfold StepsGen.Assembly__init. cbv zeta.
  rewrite ?bind_ok.
  destruct (m_init m) as [r|e] eqn:E; cbn [bind]; [|reflexivity].
  rewrite ?bind_ok.
  rewrite to_global_generated_is_model by (apply RI, eq_refl). reflexivity.
Qed.

Theorem step1_generated_is_model : forall m state name,
  returns_dicts m ->
  StepsGen.Assembly__step m state name
  = bind (to_local state name (m_vars m)) (fun local =>
    bind (m_step m local) (fun partial => to_global partial name)).
Proof.
  intros m state name [_ RS]. unfold StepsGen.Assembly__step. cbv zeta.
  rewrite ?bind_ok.
  rewrite to_local_generated_is_model.
  destruct (to_local state name (m_vars m)) as [l|e]; cbn [bind];
    [|reflexivity].
  rewrite ?bind_ok.
  destruct (m_step m l) as [r|e] eqn:E; cbn [bind]; [|reflexivity].
  rewrite ?bind_ok.
  rewrite to_global_generated_is_model by (apply (RS l r), E). reflexivity.
Qed.

Lemma to_global_NoDup : forall r name g,
  NoDup (keys r) -> to_global r name = Ok g -> NoDup (keys g).
Proof.
  intros r name g ND H. exact (proj1 (proj2 (to_global_entries r name g ND H))).
Qed.

Theorem assembly_init_generated_is_model : forall ms a,
  Forall (fun nm => returns_dicts (snd nm)) ms ->
  StepsGen.Assembly_init ms a = do_init ms a.
Proof.
  intros ms a OK. unfold StepsGen.Assembly_init, do_init, asm_init. cbv zeta.
  loop_is (fun nm : string * machine => returns_dicts (snd nm))
          (fun l acc => asm_init_acc l acc).
  - intros [name m] l acc R. cbv beta zeta. cbn [fst snd asm_init_acc bind].
    cbn [snd] in R. rewrite init1_generated_is_model by exact R.
    destruct (m_init m) as [r|e] eqn:EI; cbn [bind]; [|reflexivity].
    destruct (to_global r name) as [g|e] eqn:EG; cbn [bind]; [|reflexivity].
    rewrite update_state_generated_is_model
      by (eapply to_global_NoDup; [apply (proj1 R), EI|exact EG]).
    destruct (update_state acc g); reflexivity.
  - rewrite (LOOP OK). reflexivity.
Qed.

Theorem assembly_step_generated_is_model : forall ms a,
  Forall (fun nm => returns_dicts (snd nm)) ms ->
  StepsGen.Assembly_step ms a = do_step omit1 ms a.
Proof.
  intros ms a OK. unfold StepsGen.Assembly_step, do_step, asm_step. cbv zeta.
  destruct (s_state a) as [s|]; [|reflexivity].
  loop_is (fun nm : string * machine => returns_dicts (snd nm))
          (fun l acc => asm_step_acc omit1 l s acc).
  - intros [name m] l acc R. cbv beta zeta. cbn [fst snd asm_step_acc bind].
    cbn [snd] in R. rewrite step1_generated_is_model by exact R.
    fold (to_local s name (m_vars m)).
    destruct (to_local s name (m_vars m)) as [lo|e]; cbn [bind];
      [|reflexivity].
    destruct (m_step m lo) as [r|e] eqn:ES; cbn [bind]; [|reflexivity].
    destruct (to_global r name) as [g|e] eqn:EG; cbn [bind]; [|reflexivity].
    rewrite update_state_generated_is_model
      by (eapply to_global_NoDup; [apply (proj2 R lo r), ES|exact EG]).
    destruct (update_state acc g); reflexivity.
  - rewrite (LOOP OK).
    destruct (asm_step_acc omit1 ms s []) as [n|e]; reflexivity.
Qed.

(* a refused step is not recorded: the translator's analysis of the
   statement order of `Assembly.step` (every change of a field of self comes
   after the last statement that can raise) is pinned here, so that a
   version that records history before the components have stepped no
   longer checks even if its result on success is the same *)
Theorem assembly_step_commits_last :
  StepsGen.Assembly_step_commits_last = true.
Proof. reflexivity. Qed.

(* a behaviour of the translated assembly: `asm = Assembly()` (state None,
   empty past), `asm.init()`, then n times `asm.step()` *)
Fixpoint gen_steps (ms : machines) (n : nat) (a : assembly) : res assembly :=
  match n with
  | O => Ok a
  | S n' => bind (StepsGen.Assembly_step ms a) (gen_steps ms n')
  end.

Definition gen_run (ms : machines) (n : nat) : res assembly :=
  bind (StepsGen.Assembly_init ms asm_new) (gen_steps ms n).

Theorem run_generated_is_model : forall ms n,
  Forall (fun nm => returns_dicts (snd nm)) ms ->
  gen_run ms n = run omit1 ms n.
Proof.
  intros ms n OK. unfold gen_run, run.
  rewrite assembly_init_generated_is_model by exact OK.
  destruct (do_init ms asm_new) as [a|e]; cbn [bind]; [|reflexivity].
  revert a. induction n as [|n IH]; intros a; cbn [gen_steps do_steps];
    [reflexivity|].
  rewrite assembly_step_generated_is_model by exact OK.
  destruct (do_step omit1 ms a) as [a'|e]; cbn [bind]; [apply IH|reflexivity].
Qed.

(* ===================================================== AutomatonStepper == *)
Section Stepper.
Variable A : automaton.
Let ds := a_decls A.

(* the dd-level operations by meaning, as in Stepper.v *)
(* `aut.let(state, u)`: the cofactor; `assert var in table` *)
Definition m_let (state : dict) (u : pred) : res pred :=
  if forallb (fun k => mem k (names ds)) (keys state)
  then Ok (let_ state u) else Err BadKey.

(* `stx.unprime(k)` *)
Definition m_unprime (k : string) : res string :=
  match unprime k with Some s => Ok s | None => Err BadKey end.

(* `aut.varlist` *)
Definition m_varlist (key : string) : list string :=
  if String.eqb key "impl'" then map prime (a_impl A)
  else if String.eqb key "impl" then a_impl A else [].

(* `prm.unprimed_support(action, aut)`, from `support(action)` *)
Definition m_unprimed (supp : list string) (_ : pred) : list string :=
  filter (fun x => negb (is_primed x)) supp.

Theorem unprime_state_generated_is_model : forall p,
  StepsGen._unprime_state m_unprime p = unprime_state p.
Proof.
  intros p. unfold StepsGen._unprime_state, unprime_state.
  loop_is (fun _ : string * Z => True) (fun l acc => unprime_acc l acc).
  - intros [k z] l acc _. cbv beta zeta. cbn [fst snd unprime_acc bind].
    unfold m_unprime. destruct (unprime k); reflexivity.
  - apply LOOP, Forall_True.
Qed.

Theorem assert_support_assigned_generated_is_model : forall supp state,
  StepsGen.AutomatonStepper__assert_support_assigned pred (m_unprimed supp)
    (a_action A) state
  = if forallb (fun x => is_primed x || mem x (keys state)) supp
    then Ok tt else Err Missing.
Proof.
  intros supp state.
  unfold StepsGen.AutomatonStepper__assert_support_assigned, m_unprimed.
  cbv zeta. rewrite is_nil_filter.
  match goal with |- (if negb ?x then _ else _) = (if ?y then _ else _) =>
    replace y with (negb x); [destruct x; reflexivity|] end.
  induction supp as [|x supp IH]; [reflexivity|]. cbn [filter forallb].
  destruct (is_primed x); cbn [negb orb andb existsb filter].
  - exact IH.
  - rewrite <- IH. destruct (mem x (keys state)); reflexivity.
Qed.

Theorem assert_unblocked_generated_is_model : forall (p : option dict),
  StepsGen.AutomatonStepper__assert_unblocked p
  = match p with Some d => Ok d | None => Err Disabled end.
Proof. intros [d|]; reflexivity. Qed.

(* `AutomatonStepper.step` with the dd operations of the model: `pick`
   arbitrary; [supp] is `support(action)`; the support of the cofactor is
   taken over the identifiers that the state leaves free, as in
   [step_core] *)
Theorem stepper_step_generated_is_model :
  forall (pick : list dict -> option dict) supp state,
  StepsGen.AutomatonStepper_step pred m_let
    (fun u => support (free_decls ds state) u)
    (fun u vrs => pick (candidates ds (restrict_decls ds vrs) u))
    m_varlist (m_unprimed supp) m_unprime
    (a_init A) (a_action A) state
  = step_core pick A supp state.
Proof.
  intros pick supp state.
  unfold StepsGen.AutomatonStepper_step, step_core. norm.
  rewrite assert_support_assigned_generated_is_model.
  destruct (forallb (fun x => is_primed x || mem x (keys state)) supp);
    cbn [negb bind]; [|reflexivity].
  rewrite ?bind_ok. unfold m_let. fold ds.
  destruct (forallb (fun k => mem k (names ds)) (keys state));
    cbn [negb bind]; [|reflexivity].
  rewrite ?bind_ok.
  change (m_varlist "impl'") with (map prime (a_impl A)).
  rewrite assert_unblocked_generated_is_model.
  destruct (pick _) as [p|]; cbn [bind]; [|reflexivity].
  rewrite ?bind_ok. apply unprime_state_generated_is_model.
Qed.

(* `AutomatonStepper.init`; [supp] is `support(init)` *)
Theorem stepper_init_generated_is_model :
  forall (pick : list dict -> option dict) supp,
  (forall p, pick (candidates ds (restrict_decls ds supp) (a_init A)) = Some p ->
     NoDup (keys p)) ->
  StepsGen.AutomatonStepper_init pred
    (fun u => pick (candidates ds (restrict_decls ds supp) u))
    m_varlist (a_init A) (a_action A)
  = init_core pick A supp.
Proof.
  intros pick supp PN.
  unfold StepsGen.AutomatonStepper_init, init_core. norm. fold ds.
  destruct (pick _) as [p|] eqn:E; [|reflexivity].
  rewrite ?bind_ok. f_equal. change (m_varlist "impl") with (a_impl A).
  exact (comprehension_is_filter (fun k => mem k (a_impl A)) p (PN p eq_refl)).
Qed.

(* the hypothesis on `pick` follows from the one the theorems make *)
Lemma pick_in_NoDup : forall (pick : list dict -> option dict) supp,
  wf_decls ds ->
  (forall l a, pick l = Some a -> In a l) ->
  forall p, pick (candidates ds (restrict_decls ds supp) (a_init A)) = Some p ->
  NoDup (keys p).
Proof.
  intros pick supp WF PI p H. apply PI in H. unfold candidates in H.
  apply filter_In in H. destruct H as [H _].
  rewrite (dicts_keys _ _ H). apply NoDup_names_filter, WF.
Qed.

(* the translated `step` and `init` run on the model's dd operations
   (supports computed by the model, `pick` arbitrary) *)
Definition gen_step (pick : list dict -> option dict) (state : dict)
    : res dict :=
  StepsGen.AutomatonStepper_step pred m_let
    (fun u => support (free_decls ds state) u)
    (fun u vrs => pick (candidates ds (restrict_decls ds vrs) u))
    m_varlist (m_unprimed (support ds (a_action A))) m_unprime
    (a_init A) (a_action A) state.

Definition gen_init (pick : list dict -> option dict) : res dict :=
  StepsGen.AutomatonStepper_init pred
    (fun u => pick (candidates ds (restrict_decls ds (support ds (a_init A))) u))
    m_varlist (a_init A) (a_action A).

Theorem gen_step_is_model : forall pick state,
  gen_step pick state = step pick A state.
Proof.
  intros pick state. unfold gen_step, step.
  exact (stepper_step_generated_is_model pick (support ds (a_action A)) state).
Qed.

Theorem gen_init_is_model : forall pick,
  wf_decls ds -> (forall l a, pick l = Some a -> In a l) ->
  gen_init pick = init pick A.
Proof.
  intros pick WF PI. unfold gen_init, init.
  exact (stepper_init_generated_is_model pick (support ds (a_init A))
           (pick_in_NoDup pick (support ds (a_init A)) WF PI)).
Qed.

End Stepper.

(* ========================================== all of the above, collected == *)
Theorem model_is_translated_code :
  (* name mangling: Leibniz, all arguments *)
  (forall s p, StepsGen._omit_prefix s p = omit1 s p) /\
  (forall d p, StepsGen.add_prefix d p = add_prefix d p) /\
  (forall d p, StepsGen.omit_prefix d p = omit_prefix d p) /\
  (forall a b, StepsGen._assert_disjoint a b
     = if overlap a b then Err Collision else Ok tt) /\
  (* comprehensions: all dictionaries (distinct keys) *)
  (forall d, NoDup (keys d) -> StepsGen.visible_vars d = visible_vars d) /\
  (forall d, NoDup (keys d) -> StepsGen.hidden_vars d = hidden_vars d) /\
  (forall d ks, NoDup (keys d) ->
     StepsGen.slice_dict d ks = filter (fun kv => mem (fst kv) ks) d) /\
  (* local / global conversion *)
  (forall G name m,
     StepsGen.Assembly__to_local_state G name m = to_local G name (m_vars m)) /\
  (forall local name, NoDup (keys local) ->
     StepsGen.Assembly__to_global_state local name = to_global local name) /\
  (forall state partial, NoDup (keys partial) ->
     StepsGen.Assembly__update_state state partial
     = update_state state partial) /\
  (* History / Assembly *)
  (forall (s : dict) past n,
     StepsGen.History_update s past n = (n, (past ++ [s])%list)) /\
  (forall ms a, Forall (fun nm => returns_dicts (snd nm)) ms ->
     StepsGen.Assembly_init ms a = do_init ms a) /\
  (forall ms a, Forall (fun nm => returns_dicts (snd nm)) ms ->
     StepsGen.Assembly_step ms a = do_step omit1 ms a) /\
  (forall ms n, Forall (fun nm => returns_dicts (snd nm)) ms ->
     gen_run ms n = run omit1 ms n) /\
  (* AutomatonStepper, dd operations by meaning *)
  (forall A pick supp state,
     StepsGen.AutomatonStepper_step pred (m_let A)
       (fun u => support (free_decls (a_decls A) state) u)
       (fun u vrs =>
          pick (candidates (a_decls A) (restrict_decls (a_decls A) vrs) u))
       (m_varlist A) (m_unprimed supp) m_unprime
       (a_init A) (a_action A) state
     = step_core pick A supp state) /\
  (forall A pick supp,
     (forall p, pick (candidates (a_decls A) (restrict_decls (a_decls A) supp)
                        (a_init A)) = Some p -> NoDup (keys p)) ->
     StepsGen.AutomatonStepper_init pred
       (fun u =>
          pick (candidates (a_decls A) (restrict_decls (a_decls A) supp) u))
       (m_varlist A) (a_init A) (a_action A)
     = init_core pick A supp).
Proof.
  repeat split.
  - exact omit_prefix1_generated_is_model.
  - exact add_prefix_generated_is_model.
  - exact omit_prefix_generated_is_model.
  - exact assert_disjoint_generated_is_model.
  - exact visible_vars_generated_is_model.
  - exact hidden_vars_generated_is_model.
  - exact slice_dict_generated_is_filter.
  - exact to_local_generated_is_model.
  - exact to_global_generated_is_model.
  - exact update_state_generated_is_model.
  - exact assembly_init_generated_is_model.
  - exact assembly_step_generated_is_model.
  - exact run_generated_is_model.
  - exact stepper_step_generated_is_model.
  - exact stepper_init_generated_is_model.
Qed.
