#!/bin/bash
# MANIFEST.setup_cmd: build the framework from files on disk only (offline).
set -e
cd "$(dirname "$0")"
mkdir -p coq/gen coq/cases replay evidence
# forbidden vernacular anywhere in the development
if grep -rnE '\b(Admitted|admit|Axiom|Parameter|Conjecture|Admit Obligations)\b|Unset Guard|bypass_check|type-in-type|impredicative-set' \
     --include='*.v' coq/theories coq/Properties | grep -v '^\S*:\s*[0-9]*:\s*(\*' ; then
  echo "forbidden vernacular found" >&2; exit 1
fi
cd coq
exec 9> .lock; flock 9
bash ../tools/coqbuild.sh
echo "setup ok"
