"""Token-level comparison of the emitted circuits (C06, L1d).

Calls the real functions of omega/logic/bitvector.py on symbolic operand
bits and translates the strings they return (result bits, memory cells,
carry) to Gallina terms of type `Deep.bx`; the Coq side checks that the deep
model `Deep.d_*` emits exactly the same formulas (same registers "? i", same
cell order).  `DeepProofs.v` proves what those formulas compute.
"""
import logging

logging.disable(logging.CRITICAL)

import omega.logic.bitvector as bv   # noqa: E402

HEADER = '''From Coq Require Import List Bool.
Import ListNotations.
From Omega Require Import L1Circuits.Circuits L1Circuits.Deep.
'''

VARS = {}


def var_id(name):
    base = {'x': 0, 'y': 100, 'g': 200, 'h': 300}[name[0]]
    return base + (int(name[1:]) if len(name) > 1 else 0)


def parse_expr(toks, i):
    t = toks[i]
    if t == '!':
        a, i = parse_expr(toks, i + 1)
        return f'(XNot {a})', i
    if t in '&|^':
        a, i = parse_expr(toks, i + 1)
        b, i = parse_expr(toks, i)
        return f'({ {"&": "XAnd", "|": "XOr", "^": "XXor"}[t] } {a} {b})', i
    if t == '?':
        return f'(XR {int(toks[i + 1])})', i + 2
    if t == '0':
        return '(XC false)', i + 1
    if t == '1':
        return '(XC true)', i + 1
    return f'(XV {var_id(t)})', i + 1


def bx(s):
    toks = s.split()
    e, i = parse_expr(toks, 0)
    assert i == len(toks), (s, i)
    return e


def bxs(l):
    return '[' + '; '.join(bx(s) for s in l) + ']'


def buffer_cells(s):
    """'$ n c1 ... cn' -> list of Gallina cells."""
    toks = s.split()
    assert toks[0] == '$', s
    n = int(toks[1])
    i, out = 2, []
    for _ in range(n):
        e, i = parse_expr(toks, i)
        out.append(e)
    assert i == len(toks), s
    return '[' + '; '.join(out) + ']'


def sym(name, n):
    return [f'{name}{i}' for i in range(n)]


def coq_syms(name, n):
    return '[' + '; '.join(f'(XV {var_id(name + str(i))})' for i in range(n)) + ']'


def cases(maxw, starts=(0, 5)):
    """Yields (label, Gallina bool term) for every circuit x width pair."""
    b = lambda v: 'true' if v else 'false'
    for nx in range(2, maxw + 1):
        for ny in range(2, maxw + 1):
            x, y = sym('x', nx), sym('y', ny)
            cx, cy = coq_syms('x', nx), coq_syms('y', ny)
            for start in starts:
                for add in (True, False):
                    for ext in (0, 1):
                        res, mem, carry = bv.adder_subtractor(
                            list(x), list(y), add=add, start=start,
                            extend_by=ext)
                        yield (f'adder nx={nx} ny={ny} add={add} ext={ext} '
                               f'start={start}',
                               f"(let '(r, m, c) := d_adder_subtractor {cx} {cy} "
                               f'{b(add)} {start} {ext} in bxs_eqb r {bxs(res)} '
                               f'&& bxs_eqb m {bxs(mem)} && bx_eqb c {bx(carry)})')
                res, mem = bv.multiplier(list(x), list(y), start=start)
                yield (f'multiplier nx={nx} ny={ny} start={start}',
                       f"(let '(r, m) := d_multiplier {cx} {cy} {start} in "
                       f'bxs_eqb r {bxs(res)} && bxs_eqb m {bxs(mem)})')
                quo, rem, mem = bv.restoring_divider(
                    list(x), list(y), start=start)
                yield (f'divider nx={nx} ny={ny} start={start}',
                       f"(let '(q, r, m) := d_restoring_divider {cx} {cy} "
                       f'{start} in bxs_eqb q {bxs(quo)} && bxs_eqb r '
                       f'{bxs(rem)} && bxs_eqb m {bxs(mem)})')
            for op, c in (('<', 'CLt'), ('<=', 'CLe'), ('=<', 'CLe'),
                          ('=', 'CEq'), ('#', 'CNe'), ('!=', 'CNe'),
                          ('/=', 'CNe'), ('>=', 'CGe'), ('>', 'CGt')):
                s = bv.flatten_comparator(op, list(x), list(y), mem=list())
                yield (f'comparator {op} nx={nx} ny={ny}',
                       f'bxs_eqb (d_flatten_comparator {c} {cx} {cy} 0) '
                       f'{buffer_cells(s)}')
        x = sym('x', nx)
        cx = coq_syms('x', nx)
        y = sym('y', nx)
        cy = coq_syms('y', nx)
        for start in starts:
            r, mem = bv.ite_function('g', list(x), list(y), start=start)
            yield (f'ite n={nx} start={start}',
                   f"(let '(r, m) := d_ite_function (XV 200) {cx} {cy} {start} "
                   f'in bxs_eqb r {bxs(r)} && bxs_eqb m {bxs(mem)})')
            r, mem = bv._negate_if('^ g h', list(x), start=start)
            yield (f'negate_if n={nx} start={start}',
                   f"(let '(r, m) := d_negate_if (XXor (XV 200) (XV 300)) {cx} "
                   f'{start} in bxs_eqb r {bxs(r)} && bxs_eqb m {bxs(mem)})')
            r, mem = bv.abs_(list(x), start=start)
            yield (f'abs n={nx} start={start}',
                   f"(let '(r, m) := d_abs {cx} {start} in "
                   f'bxs_eqb r {bxs(r)} && bxs_eqb m {bxs(mem)})')
            dummy = ['0'] * start
            mem = list(dummy)
            f = bv.less_than(list(x), list(y), mem)
            yield (f'less_than n={nx} start={start}',
                   f"(let '(r, m) := d_less_than {cx} {cy} {start} in "
                   f'bx_eqb r {bx(f)} && bxs_eqb m {bxs(mem[start:])})')
