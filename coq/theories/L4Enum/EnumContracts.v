(* L4Enum / EnumContracts: what is assumed of dd's `pick` / `pick_iter`
   (through omega.symbolic.fol.Context) by the theorems about the code-level
   model EnumCode.v, and what these assumptions give at the call sites.

   Contract (for a BDD u that depends on no variable outside care_vars, the
   only way the enumeration code calls them within C12's domain):
     pick u care = Some d      d assigns exactly the variables of care, the
                               values are in range, u holds at d;
     pick_iter u care          a list of such d, that covers every satisfying
                               valuation, without two d that agree on care.
   Nothing is assumed about WHICH member pick returns or about the ORDER of
   pick_iter.  [pick_contract_example] below: the contracts are satisfiable
   (least-member pick, enumeration in index order). *)
From Coq Require Import List Bool Arith Lia String.
Import ListNotations.
From Omega Require Import L4Enum.EnumArena L4Enum.EnumArenaProofs.

Section Contracts.
Variables nx ny : nat.

Definition indep (u : bdd) (w : var) : Prop :=
  forall r i, inr nx ny r -> i < rng nx ny w -> evv u (upd r w i) = evv u r.
Definition keys_are (d : asg) (care : list var) : Prop :=
  NoDup (map fst d) /\ forall w, In w (map fst d) <-> In w care.
Definition asg_in_range (d : asg) : Prop :=
  forall w i, In (w, i) d -> i < rng nx ny w.
Definition sat (u : bdd) (d : asg) : Prop :=
  forall r, inr nx ny r -> evv u (subst_val d r) = true.
Definition agrees (d : asg) (r : val) : Prop :=
  forall w i, In (w, i) d -> get r w = i.

Definition pick_contract (pick : bdd -> list var -> option asg) : Prop :=
  forall u care d, (forall w, ~ In w care -> indep u w) -> pick u care = Some d ->
    keys_are d care /\ asg_in_range d /\ sat u d.

Definition pick_iter_contract (pick_iter : bdd -> list var -> list asg) : Prop :=
  forall u care, (forall w, ~ In w care -> indep u w) ->
    (forall d, In d (pick_iter u care) ->
       keys_are d care /\ asg_in_range d /\ sat u d) /\
    (forall r, inr nx ny r -> evv u r = true ->
       exists d, In d (pick_iter u care) /\ agrees d r) /\
    NoDup (map (fun d => map (fun w => dict_get var_eqb w d) care) (pick_iter u care)).

(* ---- shapes of assignments with one / two keys ----------------------------- *)
Lemma asg1_case d w : keys_are d [w] -> exists i, d = [(w, i)].
Proof.
  intros [Hnd Hk]. destruct d as [|[k i] d].
  - exfalso. apply (Hk w). left. reflexivity.
  - assert (k = w).
    { destruct (proj1 (Hk k) (or_introl eq_refl)) as [H|[]]. auto. }
    subst k. exists i. f_equal. destruct d as [|[k2 i2] d]; [reflexivity|exfalso].
    cbn in Hnd. inversion Hnd as [|? ? Hn _]. subst. apply Hn.
    destruct (proj1 (Hk k2) (or_intror (or_introl eq_refl))) as [H|[]].
    subst. left. reflexivity.
Qed.

Lemma asg2_case d w1 w2 : w1 <> w2 -> keys_are d [w1; w2] ->
  exists i j, d = [(w1, i); (w2, j)] \/ d = [(w2, j); (w1, i)].
Proof.
  intros Hne [Hnd Hk].
  assert (Hin : forall k, In k (map fst d) -> k = w1 \/ k = w2).
  { intros k H. apply Hk in H. destruct H as [H|[H|[]]]; auto. }
  destruct d as [|[k1 i1] d]; [exfalso; apply (Hk w1); left; reflexivity|].
  destruct d as [|[k2 i2] d].
  { exfalso. cbn in Hk.
    destruct (proj2 (Hk w1) (or_introl eq_refl)) as [H|[]].
    destruct (proj2 (Hk w2) (or_intror (or_introl eq_refl))) as [H'|[]]. congruence. }
  destruct d as [|[k3 i3] d].
  - cbn in Hnd. inversion Hnd as [|? ? Hn _]. subst. cbn in Hn.
    destruct (Hin k1 (or_introl eq_refl)), (Hin k2 (or_intror (or_introl eq_refl))); subst.
    + exfalso. apply Hn. left. reflexivity.
    + exists i1, i2. left. reflexivity.
    + exists i2, i1. right. reflexivity.
    + exfalso. apply Hn. left. reflexivity.
  - exfalso. cbn in Hnd. inversion Hnd as [|? ? Hn1 Hnd2]. subst.
    inversion Hnd2 as [|? ? Hn2 Hnd3]. subst. cbn in Hn1, Hn2.
    destruct (Hin k1 (or_introl eq_refl)), (Hin k2 (or_intror (or_introl eq_refl))),
      (Hin k3 (or_intror (or_intror (or_introl eq_refl)))); subst; tauto.
Qed.

(* ---- the contracts are satisfiable: least member / index order ---------------- *)
Definition var_eq_dec (a b : var) : {a = b} + {a <> b}.
Proof. decide equality; decide equality. Defined.
Definition asg_eq_dec (a b : asg) : {a = b} + {a <> b}.
Proof. apply list_eq_dec. decide equality; [apply Nat.eq_dec|apply var_eq_dec]. Defined.

Definition all_vals : list val :=
  flat_map (fun x => flat_map (fun y => flat_map (fun x' =>
    map (mkV x y x') (seq 0 ny)) (seq 0 nx)) (seq 0 ny)) (seq 0 nx).
(* the assignment of the variables of care that r makes *)
Definition proj (care : list var) (r : val) : asg :=
  map (fun w => (w, get r w)) (nodup var_eq_dec care).
Definition pick0 (u : bdd) (care : list var) : option asg :=
  match find (evv u) all_vals with Some r => Some (proj care r) | None => None end.
Definition pick_iter0 (u : bdd) (care : list var) : list asg :=
  nodup asg_eq_dec (map (proj care) (filter (evv u) all_vals)).

Lemma in_all_vals r : In r all_vals <-> inr nx ny r.
Proof.
  unfold all_vals, inr. destruct r as [x y x' y']. cbn [vx vy vxp vyp].
  rewrite in_flat_map. split.
  - intros [x0 [Hx H]]. apply in_flat_map in H. destruct H as [y0 [Hy H]].
    apply in_flat_map in H. destruct H as [x0' [Hx' H]]. apply in_map_iff in H.
    destruct H as [y0' [He Hy']]. inversion He. subst.
    apply in_seq in Hx, Hy, Hx', Hy'. lia.
  - intros [Hx [Hy [Hx' Hy']]]. exists x. split; [apply in_seq; lia|].
    apply in_flat_map. exists y. split; [apply in_seq; lia|].
    apply in_flat_map. exists x'. split; [apply in_seq; lia|].
    apply in_map_iff. exists y'. split; [reflexivity|apply in_seq; lia].
Qed.

Lemma dict_get_proj_list (l : list var) r w :
  dict_get var_eqb w (map (fun w => (w, get r w)) l) =
  if in_dec var_eq_dec w l then Some (get r w) else None.
Proof.
  induction l as [|a l IH]; cbn [map dict_get]; [reflexivity|].
  destruct (var_eqb w a) eqn:Ew.
  - apply var_eqb_eq in Ew. subst a.
    destruct (in_dec var_eq_dec w (w :: l)) as [_|Hn]; [reflexivity|].
    exfalso. apply Hn. left. reflexivity.
  - rewrite IH. assert (a <> w) by (intros ->; rewrite var_eqb_refl in Ew; discriminate).
    destruct (in_dec var_eq_dec w l) as [Hi|Hn], (in_dec var_eq_dec w (a :: l)) as [Hi'|Hn'];
      try reflexivity; exfalso.
    + apply Hn'. right. exact Hi.
    + destruct Hi' as [He|Hi']; [congruence|contradiction].
Qed.

Lemma sub_proj care r r' w :
  sub (proj care r) r' w = if in_dec var_eq_dec w care then get r w else get r' w.
Proof.
  unfold sub, proj. rewrite dict_get_proj_list.
  destruct (in_dec var_eq_dec w (nodup var_eq_dec care)) as [Hi|Hn],
           (in_dec var_eq_dec w care) as [Hi'|Hn']; try reflexivity; exfalso.
  - apply Hn'. apply (proj1 (nodup_In var_eq_dec care w)), Hi.
  - apply Hn. apply (nodup_In var_eq_dec). exact Hi'.
Qed.

Lemma upd_get r w : upd r w (get r w) = r.
Proof. destruct r. destruct w as [[|]|[|]]; reflexivity. Qed.

Lemma evv_subst_proj u care r r' :
  (forall w, ~ In w care -> indep u w) -> inr nx ny r -> inr nx ny r' ->
  evv u (subst_val (proj care r) r') = evv u r.
Proof.
  intros Hind Hr Hr'.
  set (c := fun w => if in_dec var_eq_dec w care then get r w else get r' w).
  assert (Hc : forall w, c w < rng nx ny w).
  { intros w. unfold c. destruct (in_dec var_eq_dec w care); apply inr_get; assumption. }
  assert (Hstep : forall rk w, inr nx ny rk -> get rk w = get r w ->
            evv u (upd rk w (c w)) = evv u rk).
  { intros rk w Hk Hg. unfold c. destruct (in_dec var_eq_dec w care) as [Hi|Hn].
    - rewrite <- Hg, upd_get. reflexivity.
    - apply (Hind w Hn rk _ Hk). apply inr_get. exact Hr'. }
  set (r1 := upd r (U Env) (c (U Env))).
  set (r2 := upd r1 (U Sys) (c (U Sys))).
  set (r3 := upd r2 (P Env) (c (P Env))).
  set (r4 := upd r3 (P Sys) (c (P Sys))).
  assert (H1 : inr nx ny r1) by (apply inr_upd; [exact Hr|apply Hc]).
  assert (H2 : inr nx ny r2) by (apply inr_upd; [exact H1|apply Hc]).
  assert (H3 : inr nx ny r3) by (apply inr_upd; [exact H2|apply Hc]).
  assert (He : subst_val (proj care r) r' = r4).
  { unfold subst_val. rewrite !sub_proj. fold (c (U Env)) (c (U Sys)) (c (P Env)) (c (P Sys)).
    unfold r4, r3, r2, r1. destruct r. reflexivity. }
  rewrite He. unfold r4. rewrite (Hstep r3 (P Sys) H3) by (destruct r; reflexivity).
  unfold r3. rewrite (Hstep r2 (P Env) H2) by (destruct r; reflexivity).
  unfold r2. rewrite (Hstep r1 (U Sys) H1) by (destruct r; reflexivity).
  unfold r1. apply (Hstep r (U Env) Hr). reflexivity.
Qed.

Lemma proj_ok u care r :
  (forall w, ~ In w care -> indep u w) -> inr nx ny r -> evv u r = true ->
  keys_are (proj care r) care /\ asg_in_range (proj care r) /\ sat u (proj care r).
Proof.
  intros Hind Hr Hu. split; [|split].
  - unfold keys_are, proj. rewrite map_map. cbn [fst]. rewrite map_id.
    split; [apply NoDup_nodup|intros w; apply nodup_In].
  - intros w i Hi. unfold proj in Hi. apply in_map_iff in Hi. destruct Hi as [w' [He _]].
    inversion He. subst. apply inr_get, Hr.
  - intros r' Hr'. rewrite (evv_subst_proj u care r r' Hind Hr Hr'). exact Hu.
Qed.

Lemma pick0_ok : pick_contract pick0.
Proof.
  intros u care d Hind. unfold pick0. destruct (find (evv u) all_vals) as [r|] eqn:Ef; [|discriminate].
  intros H. inversion H. subst d. apply find_some in Ef. destruct Ef as [Hin Hu].
  apply proj_ok; [exact Hind|apply in_all_vals, Hin|exact Hu].
Qed.

Lemma NoDup_map_inj_in {A B} (f : A -> B) l :
  (forall a b, In a l -> In b l -> f a = f b -> a = b) -> NoDup l -> NoDup (map f l).
Proof.
  intros Hinj Hnd. induction Hnd as [|a l Ha Hnd IH]; cbn [map]; constructor.
  - intros Hin. apply in_map_iff in Hin. destruct Hin as [b [He Hb]].
    assert (b = a) by (apply Hinj; [right; exact Hb|left; reflexivity|exact He]).
    subst. contradiction.
  - apply IH. intros x y Hx Hy. apply Hinj; right; assumption.
Qed.

Lemma map_eq_in {A B} (f g : A -> B) l x : map f l = map g l -> In x l -> f x = g x.
Proof.
  induction l as [|a l IH]; intros He Hx; [destruct Hx|]. cbn [map] in He.
  inversion He as [[Ha Hl]]. destruct Hx as [->|Hx]; [exact Ha|apply IH; assumption].
Qed.

Lemma pick_iter0_ok : pick_iter_contract pick_iter0.
Proof.
  intros u care Hind. unfold pick_iter0.
  assert (Hmem : forall d, In d (nodup asg_eq_dec (map (proj care) (filter (evv u) all_vals))) <->
                 exists r, d = proj care r /\ inr nx ny r /\ evv u r = true).
  { intros d. rewrite nodup_In, in_map_iff. split.
    - intros [r [<- Hr]]. apply filter_In in Hr. destruct Hr as [Hr Hu].
      exists r. split; [reflexivity|]. split; [apply in_all_vals, Hr|exact Hu].
    - intros [r [-> [Hr Hu]]]. exists r. split; [reflexivity|].
      apply filter_In. split; [apply in_all_vals, Hr|exact Hu]. }
  split; [|split].
  - intros d Hd. apply Hmem in Hd. destruct Hd as [r [-> [Hr Hu]]]. apply proj_ok; assumption.
  - intros r Hr Hu. exists (proj care r). split; [apply Hmem; exists r; auto|].
    intros w i Hi. unfold proj in Hi. apply in_map_iff in Hi. destruct Hi as [w' [He _]].
    inversion He. reflexivity.
  - apply NoDup_map_inj_in; [|apply NoDup_nodup].
    intros d1 d2 H1 H2 He. apply Hmem in H1, H2.
    destruct H1 as [r1 [-> _]], H2 as [r2 [-> _]].
    unfold proj. apply map_ext_in. intros w Hw. f_equal.
    apply (proj1 (nodup_In var_eq_dec care w)) in Hw.
    assert (Hg : dict_get var_eqb w (proj care r1) = dict_get var_eqb w (proj care r2)).
    { apply (map_eq_in _ _ care w He Hw). }
    unfold proj in Hg. rewrite !dict_get_proj_list in Hg.
    destruct (in_dec var_eq_dec w (nodup var_eq_dec care)) as [_|Hn].
    + inversion Hg. reflexivity.
    + exfalso. apply Hn, (nodup_In var_eq_dec), Hw.
Qed.

End Contracts.
