(* C04 — Rabin(1) winning region: exact fixpoint, and dual to the opponent's
   Streett(1) region.  Statements only.  Gr1Gen.* is generated from
   /repo/omega/games/gr1.py on every run.

   Proved for all arenas / actions / liveness lists / four modes:
   (1) the last iterate returned by solve_rabin_game is exactly
         mu Z. \/_k nu Y. /\_j mu X. (cpre X \/ R_j) /\ cpre Y /\ (cpre Z \/ P_k);
   (2) for every Streett(1) game, the region returned by solve_streett_game
       and the region returned by solve_rabin_game on the opponent's game
       (roles swapped = coordinates swapped by swapV, actions exchanged,
       liveness complemented, Moore <-> Mealy, strict <-> non-strict) are
       complementary: every valuation is in exactly one of them.
   (3) GAME SEMANTICS (theories/L4/Plays.v .. Determinacy.v), for non-empty
       liveness lists and every in-range state s: the last iterate holds at s
       iff the component has a strategy all of whose plays from s keep the
       component's action as the mode obliges and, if the environment keeps
       its action forever, have some persistence predicate holding from some
       point on AND every recurrence predicate holding infinitely often
       (C04_region_is_winning_region); outside the region the environment has
       a strategy against which no play satisfies that objective
       (C04_outside_environment_wins).  The converse duality (complement of the
       Rabin(1) region = opponent's Streett(1) region) is C04_duality_converse.
       (3) depends on Classical_Prop.classic; (1), (2) are axiom-free. *)
From Coq Require Import List Bool Arith Lia.
From Omega Require Import L4.Arena L4.Kleene L4.GameSpec L4.Mu L4.GR1Spec L4.Duality
  L4.Duality2 L4.Plays L4.Determinacy.
From OmegaGen Require Import FixpointGen Gr1Gen.
From OmegaGP Require Import FixpointProofs StreettProofs RabinProofs DualityProofs GameSemantics.

Section C04.
Variables nc nx ny : nat.
Variables E S : bdd.
Variables holds goals : list bdd.
Variables moore plus_one : bool.

Theorem C04_rabin_fixpoint_exact : forall fuel, NV nc nx ny <= fuel ->
  eqv nc nx ny
    (last (fst (fst (Gr1Gen.solve_rabin_game nc nx ny E S holds goals moore plus_one fuel))) bfalse)
    (rabin_spec nc nx ny moore plus_one E S holds goals).
Proof. exact (rabin_fixpoint nc nx ny E S holds goals moore plus_one). Qed.

Theorem C04_spec_outer_is_least_fixpoint :
  is_lfp nc nx ny (rZ_op nc nx ny moore plus_one E S holds goals)
         (rabin_spec nc nx ny moore plus_one E S holds goals).
Proof. exact (rabin_spec_is_lfp nc nx ny moore plus_one E S holds goals). Qed.

(* spec-level duality *)
Theorem C04_duality_spec : forall v, inr nc nx ny v ->
  streett_spec nc nx ny moore plus_one E S holds goals v =
  negb (rabin_spec nc ny nx (negb moore) (negb plus_one) (dual S) (dual E)
          (map Phi goals) (map Phi holds) (swapV v)).
Proof. exact (streett_rabin_partition nc nx ny moore plus_one E S holds goals). Qed.

(* the same for what the two generated solvers return *)
Theorem C04_duality_solvers : forall fuel,
  NV nc nx ny <= fuel -> NV nc ny nx <= fuel -> forall v, inr nc nx ny v ->
  streett_region nc nx ny E S holds goals moore plus_one fuel v =
  negb (opponent_rabin_region nc nx ny E S holds goals moore plus_one fuel (swapV v)).
Proof. exact (solvers_partition nc nx ny E S holds goals moore plus_one). Qed.

Theorem C04_duality_converse : forall v, inr nc nx ny v ->
  rabin_spec nc nx ny moore plus_one E S holds goals v =
  negb (streett_spec nc ny nx (negb moore) (negb plus_one) (dual S) (dual E)
          (map Phi goals) (map Phi holds) (swapV v)).
Proof. exact (rabin_streett_partition nc nx ny moore plus_one E S holds goals). Qed.

(* ---- game semantics ---- *)
Theorem C04_region_is_winning_region : forall c fuel s,
  c < nc -> 0 < length goals -> 0 < length holds -> NV nc nx ny <= fuel ->
  fst s < nx -> snd s < ny ->
  (last (fst (fst (Gr1Gen.solve_rabin_game nc nx ny E S holds goals moore plus_one fuel)))
        bfalse (stv c s) = true
   <-> comp_wins nx ny moore (win_rabin c E S holds goals plus_one) s).
Proof.
  intros c fuel s Hc HR HP Hf.
  exact (rabin_solved_exact nc nx ny E S holds goals moore plus_one c Hc HR HP fuel Hf s).
Qed.

Theorem C04_outside_environment_wins : forall c fuel s,
  c < nc -> 0 < length goals -> 0 < length holds -> NV nc nx ny <= fuel ->
  fst s < nx -> snd s < ny ->
  last (fst (fst (Gr1Gen.solve_rabin_game nc nx ny E S holds goals moore plus_one fuel)))
       bfalse (stv c s) = false ->
  env_prevents nx ny moore (win_rabin c E S holds goals plus_one) s.
Proof.
  intros c fuel s Hc HR HP Hf.
  exact (rabin_solved_complete nc nx ny E S holds goals moore plus_one c Hc HR HP fuel Hf s).
Qed.

End C04.

Local Open Scope bool_scope.
Import ListNotations.
(* non-vacuity of the duality statement on a concrete 2x2 arena *)
Example C04_duality_example :
  let E : bdd := fun v => Nat.eqb (vxp v) (vx v) || Nat.eqb (vy v) 1 in
  let S : bdd := fun v => negb (Nat.eqb (vyp v) (vx v)) || Nat.eqb (vx v) 0 in
  let P : bdd := fun v => Nat.eqb (vy v) 0 in
  let R : bdd := fun v => Nat.eqb (vx v) (vy v) in
  map (fun v => streett_region 1 2 2 E S [P] [R] false true 20 v)
      [mkV 0 0 0 0 0; mkV 0 0 1 0 0; mkV 0 1 0 0 0; mkV 0 1 1 0 0] =
  map (fun v => negb (opponent_rabin_region 1 2 2 E S [P] [R] false true 20 (swapV v)))
      [mkV 0 0 0 0 0; mkV 0 0 1 0 0; mkV 0 1 0 0 0; mkV 0 1 1 0 0]
  /\ NV 1 2 2 <= 20.
Proof. vm_compute. split; [reflexivity|repeat constructor]. Qed.

(* non-vacuity of the game-semantic statement: winning and losing states *)
Example C04_region_example :
  let E : bdd := fun v => true in
  let S : bdd := fun v => Nat.eqb (vyp v) (vy v) in
  let P : bdd := fun v => true in
  let R : bdd := fun v => Nat.eqb (vy v) 1 in
  map (fun s => last (fst (fst (Gr1Gen.solve_rabin_game 1 2 2 E S [P] [R] false true 20)))
                     bfalse (stv 0 s)) [(0, 0); (0, 1); (1, 0); (1, 1)]
  = [false; true; false; true] /\ NV 1 2 2 <= 20.
Proof. vm_compute. split; [reflexivity|repeat constructor]. Qed.

Print Assumptions C04_region_is_winning_region.
Print Assumptions C04_outside_environment_wins.
Print Assumptions C04_duality_converse.
Print Assumptions C04_rabin_fixpoint_exact.
Print Assumptions C04_spec_outer_is_least_fixpoint.
Print Assumptions C04_duality_spec.
Print Assumptions C04_duality_solvers.
