(* C16 — parsing follows the documented precedence; print then re-parse is
   the identity; alternative spellings; GR(1) splitting.
   Statements only; proofs in theories/L6Syntax/*Proofs.v.
   C16_Tables.* is generated on every run from /repo/omega/logic/lexyacc.py
   (precedence tuple, token rules in PLY order, reserved words,
   productions), /repo/omega/logic/bitvector.py (opmap) and /repo/doc/doc.md
   (precedence list, BNF tokens).  C16_Inst.PT is the operator table
   `mk_ptable code_prec productions`. *)
From Coq Require Import List String NArith Bool.
Import ListNotations.
From Omega Require Import L6Syntax.Tokens L6Syntax.Lexer L6Syntax.Parser
  L6Syntax.Flatten L6Syntax.Gr1Split L6Syntax.Frontend L6Syntax.TableChecks
  L6Syntax.PrecSpec L6Syntax.Gr1Spec
  L6Syntax.TableChecksProofs L6Syntax.ParserProofs L6Syntax.Gr1SplitProofs.
From OmegaGen Require Import C16_Tables C16_Inst.
Local Open Scope string_scope.

Local Notation dtt := (doc_tok_type lex_rules lex_reserved lex_values lex_ignore).
Local Notation centry :=
  (code_entry lex_rules lex_reserved lex_values lex_ignore code_prec).

(* all tokens the documentation mentions: BNF and precedence list *)
Definition doc_tokens : list string :=
  (doc_bnf_tokens ++ map snd (flat_levels doc_prec 1))%list.

(* ------------------------------------------------------------------ *)
(* Tie G: the documentation's tables against the code's tables.  Finite
   statements over the generated tables (hence _bounded), by vm_compute. *)

(* prec_table_matches_doc: every token of the documentation's BNF and
   precedence list is delivered by the lexer as an operator or keyword
   (F8: `R` was not); every two tokens of the documented precedence list
   have a precedence in the parser's tuple and compare there as documented;
   the documented associativity is the tuple's. *)
Theorem C16_prec_table_matches_doc_bounded :
  (forall d, In d doc_tokens -> exists ty, dtt d = Some ty) /\
  (forall i a1 d1 j a2 d2,
     In (i, a1, d1) (doc_flat doc_prec) -> In (j, a2, d2) (doc_flat doc_prec) ->
     exists b1 c1 b2 c2,
       centry d1 = Some (b1, c1) /\ centry d2 = Some (b2, c2) /\
       c1 <> 0%N /\ c2 <> 0%N /\
       ((i < j)%N <-> (c1 < c2)%N) /\ (i = j <-> c1 = c2)) /\
  (forall i a d, In (i, a, d) (doc_flat doc_prec) -> exists c, centry d = Some (a, c)).
Proof.
  split; [|split].
  - apply check_spelling_sound. vm_compute. reflexivity.
  - apply check_order_sound. vm_compute. reflexivity.
  - apply check_assoc_sound. vm_compute. reflexivity.
Qed.

(* every infix / prefix / postfix operator of the documented BNF is an
   operator of that kind in the parser's grammar *)
Theorem C16_doc_operators_in_grammar_bounded :
  check_shapes lex_rules lex_reserved lex_values lex_ignore code_prec productions
    doc_binary doc_prefix doc_postfix = true.
Proof. vm_compute. reflexivity. Qed.

(* every spelling of a token lexes, on its own, to exactly one token of its
   type, carrying the rule's normalised value when the rule normalises
   (& && /\ -> /\ ; | || \/ -> \/ ; ~ ! -> ~ ; => -> ; <=> <->): alternative
   spellings of those operators give IDENTICAL token sequences, hence
   identical trees *)
Theorem C16_spellings_normalised_bounded :
  check_alts_lex lex_rules lex_reserved lex_values lex_ignore = true.
Proof. vm_compute. reflexivity. Qed.

(* the spellings the lexer does not normalise (# /= != ; <= =<) are sent to
   one operator by bitvector.Nodes.opmap *)
Theorem C16_synonyms_same_opmap_bounded :
  check_synonyms lex_rules bv_opmap = true.
Proof. vm_compute. reflexivity. Qed.

(* side conditions of the parser theorems hold for the generated table *)
Theorem C16_table_ok_bounded : table_ok PT = true.
Proof. vm_compute. reflexivity. Qed.

Theorem C16_prefix_levels_disjoint_bounded :
  check_level_disjoint code_prec productions = true.
Proof. vm_compute. reflexivity. Qed.

(* ------------------------------------------------------------------ *)
(* prec_determines_tree (binary / prefix / postfix core with parentheses,
   terminals, ranges and ite(,,)): for EVERY surface tree s whose operators
   are operators of the table (wf) and which groups them as the table
   demands (respects), the parser applied to the token sequence of s
   returns exactly the tree s denotes.  Unbounded: by induction on s. *)
Theorem C16_prec_determines_tree : forall s : stree,
  wf PT s -> respects PT s -> parse PT (yield s) = Some (erase PT s).
Proof. exact (prec_determines_tree PT C16_table_ok_bounded). Qed.

(* the table determines the tree: two groupings of the same token sequence
   that both respect the table denote the same tree *)
Theorem C16_respecting_tree_unique : forall s1 s2 : stree,
  wf PT s1 -> respects PT s1 -> wf PT s2 -> respects PT s2 ->
  yield s1 = yield s2 -> erase PT s1 = erase PT s2.
Proof. exact (respecting_tree_unique PT C16_table_ok_bounded). Qed.

(* what `respects` demands of an operator followed by an infix operator, in
   terms of the levels of the table *)
Theorem C16_stops_reads_levels : forall t c a lv a' lv',
  pt_bin PT (tty t) = Some (c, a, lv) ->
  tok_stops PT (bind_of (a', lv')) t = true <->
  (match a' with RightA => (lv < lv')%N | _ => (lv <= lv')%N end).
Proof. exact (stops_infix_level PT). Qed.

(* non-vacuity: `[] a U b /\ c` groups as ([] (a U b)) /\ c *)
Definition ex_s : stree :=
  SBin (Tok "AND" "/\")
    (SPre (Tok "ALWAYS" "[]")
       (SBin (Tok "UNTIL" "U") (SAtom (AVar "a")) (SAtom (AVar "b"))))
    (SAtom (AVar "c")).
Example C16_prec_determines_tree_ex :
  wf PT ex_s /\ respects PT ex_s /\
  yield ex_s = [Tok "ALWAYS" "[]"; Tok "NAME" "a"; Tok "UNTIL" "U"; Tok "NAME" "b";
                Tok "AND" "/\"; Tok "NAME" "c"] /\
  parse PT (yield ex_s)
  = Some (Bin CBinary "/\" (Un "[]" (Bin CBinary "U" (Term KVar "a") (Term KVar "b")))
            (Term KVar "c")).
Proof.
  assert (W : wf PT ex_s) by (vm_compute; repeat split; discriminate).
  assert (R : respects PT ex_s) by (vm_compute; repeat split).
  split; [exact W | split; [exact R | split; [reflexivity|]]].
  rewrite (C16_prec_determines_tree ex_s W R). reflexivity.
Qed.
(* the other grouping does not respect the table *)
Example C16_wrong_grouping_rejected :
  ~ respects PT (SPre (Tok "ALWAYS" "[]")
      (SBin (Tok "AND" "/\")
         (SBin (Tok "UNTIL" "U") (SAtom (AVar "a")) (SAtom (AVar "b")))
         (SAtom (AVar "c")))).
Proof. vm_compute. intros [_ [H _]]. discriminate. Qed.

(* ------------------------------------------------------------------ *)
(* roundtrip: for EVERY tree of the flatten-able fragment (terminals, unary,
   binary / comparator / arithmetic, ite), flatten prints a token sequence
   that parses back to the same tree.  OPTOK is the lexer model applied to
   one lexeme.  Unbounded: by structural induction on t. *)
Definition OPTOK : string -> token :=
  lex1 lex_rules lex_reserved lex_values lex_ignore.

Theorem C16_roundtrip : forall t : tree,
  flat_ok PT OPTOK t -> parse PT (flatten OPTOK t) = Some t.
Proof. exact (roundtrip PT C16_table_ok_bounded OPTOK). Qed.

Definition ex_t : tree :=
  Bin CBinary "=>"
    (Un "~" (Bin CComparator "<=" (Term KVar "x") (Term KNum "-3")))
    (Opr "ite" [Term KBool "TRUE"; Un "X" (Term KVar "y");
                Bin CArithmetic "+" (Term KVar "z") (Term KStr """s""")]).
Example C16_roundtrip_ex :
  flat_ok PT OPTOK ex_t /\ parse PT (flatten OPTOK ex_t) = Some ex_t.
Proof.
  assert (F : flat_ok PT OPTOK ex_t)
    by (vm_compute; repeat split; (discriminate || (left; reflexivity) || idtac)).
  split; [exact F | exact (C16_roundtrip ex_t F)].
Qed.

(* ------------------------------------------------------------------ *)
(* spellings (operator core): token sequences that are yields of surface
   trees of the same shape whose tokens agree in type and in spelling class
   `cls` parse to trees equal up to the class of every operator name.
   (For the spellings the lexer normalises the token sequences are already
   identical: C16_spellings_normalised_bounded.) *)
Theorem C16_spellings_partial : forall (cls : string -> string) (s1 s2 : stree),
  ssim cls s1 s2 -> wf PT s1 -> respects PT s1 ->
  parse PT (yield s1) = Some (erase PT s1) /\
  parse PT (yield s2) = Some (erase PT s2) /\
  strip cls (erase PT s1) = strip cls (erase PT s2).
Proof. exact (fun cls => spellings_core PT cls C16_table_ok_bounded). Qed.

(* the full statement: for ALL token sequences (including the special forms
   IF/THEN/ELSE, LET, quantifiers), not only yields of the operator core.
   Not proved; tie H compares spellings on the real parser. *)
Definition tok_sim (cls : string -> string) (a b : token) : Prop :=
  tty a = tty b /\
  (if mem_str (tty a) ["NAME"; "NUMBER"] then tval a = tval b
   else cls (tval a) = cls (tval b)).
Definition C16_spellings_full : Prop :=
  forall (cls : string -> string) (ts1 ts2 : list token),
    Forall2 (tok_sim cls) ts1 ts2 ->
    option_map (strip cls) (parse PT ts1) = option_map (strip cls) (parse PT ts2).

(* ------------------------------------------------------------------ *)
(* split_gr1_spec: on a conjunction, in any nesting of /\, of initial
   predicates, [] safety formulas and generalized Streett pairs, the model of
   omega.gr1.split_gr1 returns exactly what one reads off the conjuncts. *)
Theorem C16_split_gr1_spec : forall n : nest conjunct,
  Forall conjunct_ok (leaves n) ->
  Forall (fun c => is_op (conjunct_tree c) "/\" = false) (leaves n) ->
  temporal_to_canonical (build "/\" (nmap conjunct_tree n))
  = expected (leaves n) empty_parts.
Proof. exact split_gr1_spec. Qed.

Theorem C16_split_gr1_lists : forall n : nest conjunct,
  Forall conjunct_ok (leaves n) ->
  Forall (fun c => is_op (conjunct_tree c) "/\" = false) (leaves n) ->
  order_ok (leaves n) ->
  temporal_to_canonical (build "/\" (nmap conjunct_tree n))
  = Some (mkParts (inits (leaves n)) (actions (leaves n))
                  (recurrences (leaves n)) (persistences (leaves n))).
Proof. exact split_gr1_lists. Qed.

(* outside the fragment the splitter returns None (the code raises) *)
Theorem C16_split_gr1_rejects_outside : forall t r,
  temporal_to_canonical t = Some r -> Forall in_fragment (flatten_op "/\" t).
Proof. exact split_gr1_rejects_outside. Qed.

Definition ex_gr1 : nest conjunct :=
  Node (Node (Leaf (CInit (Term KVar "a")))
             (Leaf (CSafe (Bin CBinary "=>" (Term KVar "b") (Un "X" (Term KVar "c"))))))
       (Node (Leaf (CLive (Leaf (DRec (Leaf (Term KVar "d"))))))
             (Leaf (CLive (Node (Leaf (DPers (Term KVar "e")))
                                (Leaf (DRec (Node (Leaf (Term KVar "f"))
                                                  (Leaf (Term KVar "g"))))))))).
Example C16_split_gr1_ex :
  Forall conjunct_ok (leaves ex_gr1) /\
  Forall (fun c => is_op (conjunct_tree c) "/\" = false) (leaves ex_gr1) /\
  order_ok (leaves ex_gr1) /\
  temporal_to_canonical (build "/\" (nmap conjunct_tree ex_gr1))
  = Some (mkParts [Term KVar "a"]
            [Bin CBinary "=>" (Term KVar "b") (Un "X" (Term KVar "c"))]
            [Term KVar "d"; Term KVar "f"; Term KVar "g"] [Term KVar "e"]).
Proof.
  repeat split; try (vm_compute; repeat constructor).
Qed.
(* a second generalized Streett pair after persistence was collected, and a
   bare <> are rejected *)
Example C16_split_gr1_reject_ex :
  SPLIT "<>[] a /\ []<> b" = None /\ SPLIT "a /\ <> b" = None
  /\ SPLIT "[] [] a" = None /\ SPLIT "a' /\ [] b" = None.
Proof. vm_compute. repeat split. Qed.

Print Assumptions C16_prec_table_matches_doc_bounded.
Print Assumptions C16_doc_operators_in_grammar_bounded.
Print Assumptions C16_spellings_normalised_bounded.
Print Assumptions C16_synonyms_same_opmap_bounded.
Print Assumptions C16_prec_determines_tree.
Print Assumptions C16_respecting_tree_unique.
Print Assumptions C16_roundtrip.
Print Assumptions C16_spellings_partial.
Print Assumptions C16_split_gr1_spec.
Print Assumptions C16_split_gr1_lists.
Print Assumptions C16_split_gr1_rejects_outside.
