(* Structure of the iterates recorded by the GENERATED Rabin(1) solver
   (solve_rabin_game / _cycle_inside / _attractor_inside), by invariants of
   the translated loops (fuel >= number of valuations):

     zk      increasing chain of state predicates;
     yki[k]  one set per persistence predicate, inside zk[k];
     xkijr[k][i][j]  an increasing chain inside yki[k][i]  (at the exit of the
             Y loop every attractor equals the fixpoint Y), all inside
             cpre(zk[k-1]) \/ holds[i].

   This is what the transducer construction relies on ([rounds_ok]). *)
From Coq Require Import List Bool Arith Lia.
Import ListNotations.
From Omega Require Import L4.Arena L4.ArenaFacts L4.Kleene L4.AlgOrder L4.GameSpec L4.Mu L4.GR1Spec.
From OmegaGen Require Import FixpointGen Gr1Gen.
From OmegaGP Require Import FixpointProofs StreettProofs RabinProofs StreettNB2
  StreettIter1 StreettIter2 RabinClosure1.

Section Incr.
Variables nc nx ny : nat.
Local Notation le := (le nc nx ny).

(* every element is below every later one *)
Fixpoint incr (l : list bdd) : Prop :=
  match l with
  | [] => True
  | a :: r => (forall b, In b r -> le a b) /\ incr r
  end.

Lemma incr_snoc l x : incr l -> (forall b, In b l -> le b x) -> incr (l ++ [x]).
Proof.
  induction l as [|a l IH]; intros Hi Hx; cbn [app incr].
  - split; [intros b []|exact I].
  - destruct Hi as [Ha Hl]. split.
    + intros b Hb. apply in_app_or in Hb. destruct Hb as [Hb|[<-|[]]];
        [apply Ha, Hb|apply Hx; left; reflexivity].
    + apply IH; [exact Hl|]. intros b Hb. apply Hx. right. exact Hb.
Qed.

Lemma incr_app_l l1 l2 : incr (l1 ++ l2) -> incr l1.
Proof.
  induction l1 as [|a l1 IH]; cbn [app incr]; [auto|].
  intros [Ha Hl]. split; [|apply IH, Hl].
  intros b Hb. apply Ha. apply in_or_app. left. exact Hb.
Qed.

Lemma incr_le_last l1 : incr l1 -> forall b, In b l1 -> forall d, le b (last l1 d).
Proof.
  induction l1 as [|a l1 IH]; intros Hi b Hb d; [destruct Hb|].
  destruct Hi as [Ha Hl]. rewrite last_cons_def.
  destruct l1 as [|c l1']; [destruct Hb as [<-|[]]; apply le_refl|].
  destruct Hb as [<-|Hb].
  - apply Ha. destruct (exists_last (l := c :: l1')) as [l' [e He]]; [discriminate|].
    rewrite He, last_last. apply in_or_app. right. left. reflexivity.
  - apply (IH Hl b Hb).
Qed.

(* position of the first element that contains s *)
Fixpoint fidx (l : list bdd) (s : V) : nat :=
  match l with
  | [] => 0
  | a :: r => if a s then 0 else Datatypes.S (fidx r s)
  end.

Lemma fidx_le l1 a l2 s : a s = true -> fidx (l1 ++ a :: l2) s <= length l1.
Proof.
  intros Ha. induction l1 as [|b l1 IH]; cbn [app fidx length].
  - unfold bdd in *. rewrite Ha. lia.
  - unfold bdd in *. destruct (b s); lia.
Qed.

Lemma fidx_ge l1 l2 s : (forall b, In b l1 -> b s = false) -> length l1 <= fidx (l1 ++ l2) s.
Proof.
  induction l1 as [|b l1 IH]; intros Hf; cbn [app fidx length]; [lia|].
  pose proof (Hf b (or_introl eq_refl)) as Hb. unfold bdd in *. rewrite Hb.
  assert (length l1 <= fidx (l1 ++ l2) s) by (apply IH; intros c Hc; apply Hf; right; exact Hc).
  lia.
Qed.

Lemma fidx_lt_length l s : (exists a, In a l /\ a s = true) -> fidx l s < length l.
Proof.
  intros [a [Ha Hs]]. apply in_split in Ha. destruct Ha as [l1 [l2 ->]].
  pose proof (fidx_le l1 a l2 s Hs). rewrite app_length. cbn [length]. lia.
Qed.

(* the element before position |l1|+1 of x0 :: l1 ++ ... *)
Lemma prefix_last (x0 : bdd) l1 :
  exists pre, x0 :: l1 = pre ++ [last l1 x0] /\ length pre = length l1.
Proof.
  destruct (exists_last (l := x0 :: l1)) as [pre [e He]]; [discriminate|].
  exists pre. assert (e = last l1 x0).
  { rewrite <- (last_cons_def x0 l1 x0), He, last_last. reflexivity. }
  subst e. split; [exact He|].
  apply (f_equal (@length bdd)) in He. rewrite app_length in He. cbn [length] in He. lia.
Qed.

(* descending along an increasing chain: from outside the element at position
   |l1| to inside it *)
Lemma fidx_descend x0 l1 x l2 s s' :
  incr (x0 :: l1 ++ x :: l2) -> inr nc nx ny s ->
  last l1 x0 s = false -> last l1 x0 s' = true ->
  fidx (x0 :: l1 ++ x :: l2) s' <= length l1 /\
  length l1 < fidx (x0 :: l1 ++ x :: l2) s.
Proof.
  intros Hi Hs Hf Ht.
  destruct (prefix_last x0 l1) as [pre [Hp Hlen]].
  assert (Hi1 : incr (x0 :: l1)).
  { apply (incr_app_l (x0 :: l1) (x :: l2)). exact Hi. }
  split.
  - change (x0 :: l1 ++ x :: l2) with ((x0 :: l1) ++ x :: l2).
    rewrite Hp, <- app_assoc. cbn [app]. rewrite <- Hlen. apply fidx_le, Ht.
  - change (x0 :: l1 ++ x :: l2) with ((x0 :: l1) ++ x :: l2).
    apply Nat.lt_le_trans with (length (x0 :: l1)); [cbn [length]; lia|].
    apply fidx_ge. intros b Hb.
    destruct (b s) eqn:Eb; [|reflexivity].
    pose proof (incr_le_last (x0 :: l1) Hi1 b Hb x0 s Hs Eb) as Hl.
    rewrite last_cons_def in Hl. congruence.
Qed.
End Incr.

Lemma do_while_body {C X} nc nx ny (body : C -> C * X) key fuel c :
  exists c', do_while nc nx ny fuel body key c = body c'.
Proof.
  revert c. induction fuel as [|k IH]; intros c; cbn [do_while].
  - exists c. destruct (Arena.beq _ _ _ _ _); reflexivity.
  - destruct (Arena.beq _ _ _ _ _); [exists c; reflexivity|apply IH].
Qed.

Lemma existsb_ext_in' {A} (f g : A -> bool) l :
  (forall a, In a l -> f a = g a) -> existsb f l = existsb g l.
Proof.
  induction l as [|a l IH]; intros H; cbn [existsb]; [reflexivity|].
  rewrite (H a (or_introl eq_refl)), IH; [reflexivity|].
  intros b Hb. apply H. right. exact Hb.
Qed.

Lemma pos_length_in {A} (l : list A) : 0 < length l -> exists a, In a l.
Proof. destruct l as [|a l]; [cbn; lia|]. intros _. exists a. left. reflexivity. Qed.

Section Iter.
Variables nc nx ny : nat.
Variables E S : bdd.
Variables holds goals : list bdd.
Variables moore plus_one : bool.
Variable fuel : nat.
Hypothesis Hfuel : NV nc nx ny <= fuel.
Hypothesis Sh : Forall spred holds.
Hypothesis Sg : Forall spred goals.

Local Notation le := (le nc nx ny).
Local Notation eqv := (eqv nc nx ny).
Local Notation mono := (mono nc nx ny).
Local Notation inr := (inr nc nx ny).
Local Notation band := (Arena.band nc nx ny).
Local Notation bor := (Arena.bor nc nx ny).
Local Notation step := (FixpointGen.step nc nx ny moore plus_one).
Local Notation cp := (cpre_spec nx ny moore plus_one E S).
Local Notation cpre := (GR1Spec.cpre nx ny moore plus_one E S).
Local Notation rX := (rX nc nx ny moore plus_one E S).
Local Notation rX_op := (rX_op nc nx ny moore plus_one E S).
Local Notation rY_op := (rY_op nc nx ny moore plus_one E S goals).
Local Notation ai := (Gr1Gen.attractor_inside nc nx ny E S moore plus_one).
Local Notation ci := (Gr1Gen.cycle_inside nc nx ny E S goals moore plus_one).
Local Notation solve := (Gr1Gen.solve_rabin_game nc nx ny E S holds goals moore plus_one).
Local Notation ai_op := (ai_op nc nx ny E S moore plus_one fuel).
Local Notation ci_op := (ci_op nc nx ny E S goals moore plus_one fuel).
Local Notation Kc' := (Kc' nc nx ny E S goals moore plus_one fuel).
Local Notation incr := (incr nc nx ny).
Local Notation stepsp := (step_spred nc nx ny E S moore plus_one fuel).

Lemma spred_band a b : spred a -> spred b -> spred (band a b).
Proof. intros Ha Hb v. rewrite !band_spec, (Ha v), (Hb v). reflexivity. Qed.
Lemma spred_bor a b : spred a -> spred b -> spred (bor a b).
Proof. intros Ha Hb v. rewrite !bor_spec, (Ha v), (Hb v). reflexivity. Qed.
Lemma spred_bfalse : spred bfalse.
Proof. intros v. reflexivity. Qed.

(* ---- _attractor_inside --------------------------------------------------- *)
Definition xr_ok (inside x : bdd) (xr : list bdd) : Prop :=
  x = last xr bfalse /\ incr xr /\
  forall b, In b xr -> le b inside /\ spred b /\ le b x.

Lemma ai_struct inside goal :
  spred inside -> spred goal ->
  xr_ok inside (fst (ai fuel inside goal)) (snd (ai fuel inside goal)) /\
  snd (ai fuel inside goal) <> [].
Proof.
  intros Si Sgo. unfold Gr1Gen.attractor_inside. cbv zeta. rewrite fst2. split.
  - apply (do_while_inv (fun c : bdd * list bdd =>
             xr_ok inside (fst c) (snd c) /\ spred (fst c) /\ le (fst c) inside)).
    + cbn [fst snd]. split; [|split; [apply spred_bfalse|apply bfalse_le]].
      split; [reflexivity|]. split; [exact I|intros b []].
    + intros [x xr] [[Hx [Hi Hall]] [Sx Hxi]]. cbn [fst snd] in *.
      set (x' := bor (band (bor (step fuel E S x) goal) inside) x).
      assert (Sx' : spred x').
      { unfold x'. apply spred_bor; [|exact Sx]. apply spred_band; [|exact Si].
        apply spred_bor; [apply stepsp|exact Sgo]. }
      assert (Hx'i : le x' inside).
      { unfold x'. apply bor_lub; [apply band_le_r|exact Hxi]. }
      assert (Hxx' : le x x') by (unfold x'; apply bor_le_r).
      split; [|split; [exact Sx'|exact Hx'i]].
      split; [rewrite last_last; reflexivity|]. split.
      * apply incr_snoc; [exact Hi|]. intros b Hb.
        apply le_trans with x; [apply (Hall b Hb)|exact Hxx'].
      * intros b Hb. apply in_app_or in Hb. destruct Hb as [Hb|[<-|[]]].
        -- destruct (Hall b Hb) as [H1 [H2 H3]]. split; [exact H1|]. split; [exact H2|].
           apply le_trans with x; [exact H3|exact Hxx'].
        -- split; [exact Hx'i|]. split; [exact Sx'|apply le_refl].
    - match goal with |- context [do_while ?a ?b ?c ?f ?body ?key ?c0] =>
        destruct (do_while_body a b c body key f c0) as [[x0 xr0] Hc] end.
      rewrite Hc. cbn [fst snd]. intros Hn. apply app_eq_nil in Hn. destruct Hn; discriminate.
Qed.

Lemma ai_x_facts inside goal :
  spred inside -> spred goal ->
  spred (fst (ai fuel inside goal)) /\ le (fst (ai fuel inside goal)) inside /\
  In (fst (ai fuel inside goal)) (snd (ai fuel inside goal)).
Proof.
  intros Si Sgo. destruct (ai_struct inside goal Si Sgo) as [[Hx [_ Hall]] Hne].
  assert (Hin : In (fst (ai fuel inside goal)) (snd (ai fuel inside goal))).
  { destruct (exists_last Hne) as [l' [e He]]. rewrite Hx, He, last_last.
    apply in_or_app. right. left. reflexivity. }
  destruct (Hall _ Hin) as [H1 [H2 _]]. auto.
Qed.

(* ---- _cycle_inside ------------------------------------------------------- *)
Definition cbody (g y : bdd) : bdd * list (list bdd) :=
  (ci_op g y, map (fun goal => snd (ai fuel (band (step fuel E S y) g) goal)) goals).

Lemma ci_fold inside : forall l (y : bdd) (xs : list (list bdd)),
  fold_left (fun '(xjr, y) goal =>
      let '(x, xr) := ai fuel inside goal in (xjr ++ [xr], band y x)) l (xs, y) =
  (xs ++ map (fun goal => snd (ai fuel inside goal)) l,
   fold_left (fun acc goal => band acc (fst (ai fuel inside goal))) l y).
Proof.
  induction l as [|R l IH]; intros y xs; cbn [fold_left map].
  - rewrite app_nil_r. reflexivity.
  - destruct (ai fuel inside R) as [x xr] eqn:Ea. rewrite IH. cbn [fst snd].
    rewrite <- app_assoc. reflexivity.
Qed.

Lemma ci_op_spred g q : spred g -> spred q -> spred (ci_op g q).
Proof.
  intros Hg Hq v. unfold RabinProofs.ci_op.
  rewrite !(StreettIter2.fold_band_forall nc nx ny), (Hq v). f_equal.
  apply forallb_ext_in'. intros R HR.
  assert (SR : spred R) by (rewrite Forall_forall in Sg; apply Sg, HR).
  assert (Sin : spred (band (step fuel E S q) g)) by (apply spred_band; [apply stepsp|exact Hg]).
  apply (ai_x_facts _ R Sin SR).
Qed.

Lemma ci_is_cbody z hold :
  spred hold ->
  exists c, spred c /\
    ci fuel z hold = cbody (bor (step fuel E S z) hold) c /\
    eqv (ci_op (bor (step fuel E S z) hold) c) c.
Proof.
  intros Sho. unfold Gr1Gen.cycle_inside. cbv zeta.
  set (g := bor (step fuel E S z) hold).
  assert (Sgg : spred g) by (apply spred_bor; [apply stepsp|exact Sho]).
  match goal with |- context [do_while ?a ?b ?c ?f ?body ?key ?q] =>
    set (B := body) end.
  assert (HB : forall y, B y = cbody g y).
  { intros y. unfold B, cbody, RabinProofs.ci_op.
    rewrite (ci_fold (band (step fuel E S y) g) goals y []). reflexivity. }
  destruct (do_while_dec_exit nc nx ny B spred) with (fuel := fuel) (q := btrue)
    as [c [Pc [Hc He]]].
  - intros a b Hab. rewrite !HB. unfold cbody. cbn [fst].
    pose proof (ci_op_eqv nc nx ny E S goals moore plus_one fuel Hfuel g) as Hz.
    apply (mono_ext nc nx ny _ _ Hz); [|exact Hab].
    apply dec_mono, rY_op_mono.
  - intros q Hq. rewrite HB. unfold cbody. cbn [fst]. apply ci_op_spred; assumption.
  - intros v. reflexivity.
  - apply le_btrue.
  - pose proof (count_bound nc nx ny btrue). lia.
  - exists c. split; [exact Pc|]. rewrite <- HB. split; [|rewrite HB in He; exact He].
    rewrite <- Hc. destruct (do_while _ _ _ _ _ _ _) as [y xjr]. reflexivity.
Qed.

Definition ci_ok (g y : bdd) (xjr : list (list bdd)) : Prop :=
  spred y /\ (0 < length goals -> le y g) /\ length xjr = length goals /\
  forall xr, In xr xjr -> incr xr /\ forall x, In x xr -> le x y /\ spred x /\ le x g.

Lemma Kc'_mono g : mono (Kc' g).
Proof.
  apply (mono_ext nc nx ny _ _ (Kc'_rY_op nc nx ny E S goals moore plus_one fuel Hfuel g)).
  apply rY_op_mono.
Qed.

Lemma ci_struct z hold :
  spred hold ->
  ci_ok (bor (step fuel E S z) hold) (fst (ci fuel z hold)) (snd (ci fuel z hold)).
Proof.
  intros Sho. destruct (ci_is_cbody z hold Sho) as [c [Sc [Hci He]]].
  pose proof (ci_y nc nx ny E S goals moore plus_one fuel z hold) as Hy.
  rewrite Hci in *. cbn [cbody fst snd] in *.
  set (g := bor (step fuel E S z) hold) in *.
  assert (Sgg : spred g) by (apply spred_bor; [apply stepsp|exact Sho]).
  set (y := ci_op g c) in *.
  set (ins := band (step fuel E S c) g).
  assert (Sins : spred ins) by (apply spred_band; [apply stepsp|exact Sgg]).
  (* y is the greatest fixpoint of Kc' g *)
  assert (Hgfp : is_gfp nc nx ny (Kc' g) y).
  { apply gfp_accumulate; [apply Kc'_mono|].
    apply (is_gfp_ext nc nx ny (ci_op g)).
    - intros q v _. rewrite band_spec. apply ci_op_spec.
    - rewrite Hy. apply loop_is_gfp; [|exact Hfuel].
      apply (mono_ext nc nx ny _ _ (ci_op_eqv nc nx ny E S goals moore plus_one fuel Hfuel g)).
      apply dec_mono, rY_op_mono. }
  assert (HcK : le c (Kc' g c)).
  { intros s Hs Hcs. rewrite <- (He s Hs) in Hcs. unfold y in Hcs.
    rewrite ci_op_spec in Hcs. apply andb_true_iff in Hcs. apply Hcs. }
  assert (HKy : le (Kc' g c) y).
  { destruct Hgfp as [_ Hg]. apply Hg. apply Kc'_mono, HcK. }
  (* every attractor of the last pass contains [ins] *)
  assert (HinsX : forall R, In R goals -> le ins (fst (ai fuel ins R))).
  { intros R HR s Hs Hi.
    pose proof (ai_is_rX nc nx ny E S moore plus_one fuel Hfuel ins R) as HX.
    rewrite (HX s Hs).
    destruct (rX_is_lfp nc nx ny moore plus_one E S R ins) as [Hfix _].
    rewrite <- (Hfix s Hs). unfold GR1Spec.rX_op. rewrite band_spec, bor_spec, Hi, andb_true_r.
    apply orb_true_iff. left.
    assert (Hcx : le c (rX R ins)).
    { intros t Ht Hct. rewrite <- (HX t Ht).
      pose proof (HcK t Ht Hct) as Hk. unfold RabinProofs.Kc', big_and in Hk.
      rewrite forallb_forall in Hk. apply (Hk (fst (ai fuel ins R))).
      apply in_map_iff. exists R. auto. }
    apply (cpre_mono nc nx ny moore plus_one E S _ _ Hcx s Hs).
    unfold ins in Hi. rewrite band_spec, step_spec in Hi. apply andb_true_iff in Hi. apply Hi. }
  assert (HinsK : le ins (Kc' g c)).
  { intros s Hs Hi. unfold RabinProofs.Kc', big_and. apply forallb_forall.
    intros X HX. apply in_map_iff in HX. destruct HX as [R [<- HR]].
    apply (HinsX R HR s Hs Hi). }
  assert (Sy : spred y) by (apply ci_op_spred; assumption).
  split; [exact Sy|]. split; [|split; [apply map_length|]].
  - intros Hn. destruct (pos_length_in goals Hn) as [R HR].
    assert (SR : spred R) by (rewrite Forall_forall in Sg; apply Sg, HR).
    intros s Hs Hys.
    assert (Hk : Kc' g c s = true).
    { unfold y in Hys. rewrite ci_op_spec in Hys. apply andb_true_iff in Hys. apply Hys. }
    unfold RabinProofs.Kc', big_and in Hk. rewrite forallb_forall in Hk.
    specialize (Hk (fst (ai fuel ins R))).
    assert (Hx : fst (ai fuel ins R) s = true).
    { apply Hk. apply in_map_iff. exists R. auto. }
    destruct (ai_x_facts ins R Sins SR) as [_ [Hle _]].
    pose proof (Hle s Hs Hx) as Hi. unfold ins in Hi. rewrite band_spec in Hi.
    apply andb_true_iff in Hi. apply Hi.
  - intros xr Hxr. apply in_map_iff in Hxr. destruct Hxr as [R [<- HR]].
    assert (SR : spred R) by (rewrite Forall_forall in Sg; apply Sg, HR).
    destruct (ai_struct ins R Sins SR) as [[Hx [Hi Hall]] _].
    split; [exact Hi|]. intros x Hxin. destruct (Hall x Hxin) as [H1 [H2 H3]].
    split; [|split; [exact H2|]].
    + apply le_trans with ins; [exact H1|]. apply le_trans with (Kc' g c); assumption.
    + apply le_trans with ins; [exact H1|]. unfold ins. apply band_le_r.
Qed.

(* ---- solve_rabin_game ---------------------------------------------------- *)
(* what the transducer needs to know about one persistence set of one round *)
Definition hold_ok (zp z P y : bdd) (xjr : list (list bdd)) : Prop :=
  le y z /\ spred y /\
  (0 < length goals -> forall s, inr s -> y s = true -> cp zp s || P s = true) /\
  length xjr = length goals /\
  forall xr, In xr xjr -> incr xr /\
    forall x, In x xr -> le x y /\ spred x /\
      (forall s, inr s -> x s = true -> cp zp s || P s = true).

Definition round_ok (zp z : bdd) (yi : list bdd) (xijr : list (list (list bdd))) : Prop :=
  le zp z /\ spred z /\ length yi = length holds /\ length xijr = length holds /\
  forall i y xjr P, nth_error yi i = Some y -> nth_error xijr i = Some xjr ->
    nth_error holds i = Some P -> hold_ok zp z P y xjr.

Inductive rounds_ok : bdd -> list bdd -> list (list bdd) ->
    list (list (list (list bdd))) -> Prop :=
| ro_nil zp : rounds_ok zp [] [] []
| ro_cons zp z zs yi yis xijr xs :
    round_ok zp z yi xijr -> rounds_ok z zs yis xs ->
    rounds_ok zp (z :: zs) (yi :: yis) (xijr :: xs).

Lemma rounds_ok_snoc zp zk yki xkijr z yi xijr :
  rounds_ok zp zk yki xkijr -> round_ok (last zk zp) z yi xijr ->
  rounds_ok zp (zk ++ [z]) (yki ++ [yi]) (xkijr ++ [xijr]).
Proof.
  intros Ho. induction Ho as [zp|zp z0 zs yi0 yis xijr0 xs Hr Ho IH]; intros Hn.
  - cbn [app last] in *. apply ro_cons; [exact Hn|apply ro_nil].
  - cbn [app]. apply ro_cons; [exact Hr|]. apply IH.
    rewrite last_cons_def in Hn. exact Hn.
Qed.

Lemma fold_bor_ex {A} (T : A -> bdd) l : forall (z : bdd) v,
  fold_left (fun acc a => bor acc (T a)) l z v = z v || existsb (fun a => T a v) l.
Proof.
  induction l as [|a l IH]; intros z v; cbn [fold_left existsb].
  - rewrite orb_false_r. reflexivity.
  - rewrite IH, bor_spec, orb_assoc. reflexivity.
Qed.

Lemma rz_fold zold : forall l (z : bdd) (xs : list (list (list bdd))) (ys : list bdd),
  fold_left (fun '(z, xijr, yi) hold =>
      let '(y, xjr) := ci fuel zold hold in (bor z y, xijr ++ [xjr], yi ++ [y]))
    l (z, xs, ys) =
  (fold_left (fun acc hold => bor acc (fst (ci fuel zold hold))) l z,
   xs ++ map (fun hold => snd (ci fuel zold hold)) l,
   ys ++ map (fun hold => fst (ci fuel zold hold)) l).
Proof.
  induction l as [|P l IH]; intros z xs ys; cbn [fold_left map].
  - rewrite !app_nil_r. reflexivity.
  - destruct (ci fuel zold P) as [y xjr] eqn:Ec. rewrite IH. cbn [fst snd].
    rewrite <- !app_assoc. reflexivity.
Qed.

Lemma round_of_solver zold :
  spred zold ->
  round_ok zold (fold_left (fun acc hold => bor acc (fst (ci fuel zold hold))) holds zold)
    (map (fun hold => fst (ci fuel zold hold)) holds)
    (map (fun hold => snd (ci fuel zold hold)) holds) /\
  spred (fold_left (fun acc hold => bor acc (fst (ci fuel zold hold))) holds zold).
Proof.
  intros Sz.
  set (z' := fold_left (fun acc hold => bor acc (fst (ci fuel zold hold))) holds zold).
  assert (Hz' : forall v, z' v = zold v || existsb (fun P => fst (ci fuel zold P) v) holds).
  { intros v. unfold z'. apply (fold_bor_ex (fun P => fst (ci fuel zold P))). }
  assert (Sz' : spred z').
  { intros v. rewrite !Hz', (Sz v). f_equal. apply existsb_ext_in'.
    intros P HP. assert (SP : spred P) by (rewrite Forall_forall in Sh; apply Sh, HP).
    destruct (ci_struct zold P SP) as [Sy _]. apply Sy. }
  split; [|exact Sz'].
  split; [intros v _ Hv; rewrite Hz', Hv; reflexivity|].
  split; [exact Sz'|]. split; [apply map_length|]. split; [apply map_length|].
  intros i y xjr P Hy Hx HP.
  rewrite (map_nth_error _ _ _ HP) in Hy. rewrite (map_nth_error _ _ _ HP) in Hx.
  injection Hy as <-. injection Hx as <-.
  assert (HPin : In P holds) by (apply (nth_error_In _ _ HP)).
  assert (SP : spred P) by (rewrite Forall_forall in Sh; apply Sh, HPin).
  destruct (ci_struct zold P SP) as [Sy [Hyg [Hlen Hxs]]].
  assert (Hg : forall s, bor (step fuel E S zold) P s = cp zold s || P s).
  { intros s. rewrite bor_spec, step_spec. reflexivity. }
  split.
  { intros v _ Hv. rewrite Hz'. apply orb_true_iff. right. apply existsb_exists.
    exists P. auto. }
  split; [exact Sy|]. split.
  { intros Hn s Hs Hys. rewrite <- Hg. apply (Hyg Hn s Hs Hys). }
  split; [exact Hlen|].
  intros xr Hxr. destruct (Hxs xr Hxr) as [Hi Hall]. split; [exact Hi|].
  intros x Hxin. destruct (Hall x Hxin) as [H1 [H2 H3]]. split; [exact H1|].
  split; [exact H2|]. intros s Hs Hxs'. rewrite <- Hg. apply (H3 s Hs Hxs').
Qed.

Definition st4' := (bdd * list bdd * list (list bdd) * list (list (list (list bdd))))%type.

Theorem solve_rounds_ok :
  rounds_ok bfalse (fst (fst (solve fuel))) (snd (fst (solve fuel))) (snd (solve fuel)).
Proof.
  unfold Gr1Gen.solve_rabin_game. cbv zeta.
  match goal with |- context [do_while ?a ?b ?c ?f ?body ?key ?c0] =>
    set (D := do_while a b c f body key c0) end.
  assert (HD : let c := fst D in
               fst (fst (fst c)) = last (snd (fst (fst c))) bfalse /\
               spred (fst (fst (fst c))) /\
               rounds_ok bfalse (snd (fst (fst c))) (snd (fst c)) (snd c)).
  { unfold D. apply (do_while_inv (fun c : st4' =>
      fst (fst (fst c)) = last (snd (fst (fst c))) bfalse /\
      spred (fst (fst (fst c))) /\
      rounds_ok bfalse (snd (fst (fst c))) (snd (fst c)) (snd c))).
    - cbn [fst snd last]. split; [reflexivity|]. split; [apply spred_bfalse|apply ro_nil].
    - intros [[[z zk] yki] xkijr] [Hz [Sz Ho]]. cbn [fst snd] in *.
      rewrite (rz_fold z holds z [] []). cbn [app fst snd].
      destruct (round_of_solver z Sz) as [Hr Sz'].
      split; [rewrite last_last; reflexivity|]. split; [exact Sz'|].
      apply rounds_ok_snoc; [exact Ho|]. rewrite <- Hz. exact Hr. }
  destruct D as [[[[z zk] yki] xkijr] []]. cbn [fst snd] in *. apply HD.
Qed.

End Iter.

(* ---- consequences of rounds_ok, for arbitrary lists ----------------------- *)
Section Rounds.
Variables nc nx ny : nat.
Variables E S : bdd.
Variables holds goals : list bdd.
Variables moore plus_one : bool.
Local Notation le := (le nc nx ny).
Local Notation incr := (incr nc nx ny).
Local Notation rounds_ok := (rounds_ok nc nx ny E S holds goals moore plus_one).
Local Notation round_ok := (round_ok nc nx ny E S holds goals moore plus_one).

Lemma rounds_len zp zk yki xkijr :
  rounds_ok zp zk yki xkijr -> length yki = length zk /\ length xkijr = length zk.
Proof.
  intros Ho. induction Ho as [zp|zp z zs yi yis xijr xs Hr Ho [IH1 IH2]]; cbn [length]; auto.
Qed.

Lemma rounds_incr zp zk yki xkijr : rounds_ok zp zk yki xkijr -> incr (zp :: zk).
Proof.
  intros Ho. induction Ho as [zp|zp z zs yi yis xijr xs Hr Ho IH].
  - cbn. split; [intros b []|exact I].
  - destruct Hr as [Hle _]. cbn [RabinIter1.incr] in *. destruct IH as [IHa IHl].
    split; [|split; [exact IHa|exact IHl]].
    intros b [<-|Hb]; [exact Hle|]. apply le_trans with z; [exact Hle|apply IHa, Hb].
Qed.

Lemma rounds_tz zp zk yki xkijr : rounds_ok zp zk yki xkijr ->
  map tz (combine (combine zk yki) xkijr) = zk.
Proof.
  intros Ho. induction Ho as [zp|zp z zs yi yis xijr xs Hr Ho IH]; [reflexivity|].
  cbn [combine map tz fst]. rewrite IH. reflexivity.
Qed.

Lemma rounds_split zp zk yki xkijr : rounds_ok zp zk yki xkijr ->
  forall T1 z yi xijr T2,
  combine (combine zk yki) xkijr = T1 ++ (z, yi, xijr) :: T2 ->
  round_ok (last (map tz T1) zp) z yi xijr /\
  zk = map tz T1 ++ z :: map tz T2.
Proof.
  intros Ho T1 z yi xijr T2 Hc. split.
  - revert T1 Hc. induction Ho as [zp|zp z0 zs yi0 yis xijr0 xs Hr Ho IH]; intros T1 Hc.
    + destruct T1; discriminate.
    + cbn [combine] in Hc. destruct T1 as [|t T1]; cbn [app] in Hc.
      * injection Hc as <- <- <- _. exact Hr.
      * injection Hc as <- Hc. cbn [map tz fst]. rewrite last_cons_def. apply IH, Hc.
  - rewrite <- (rounds_tz _ _ _ _ Ho), Hc, map_app. reflexivity.
Qed.
End Rounds.
