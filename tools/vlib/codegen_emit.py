"""C13 helpers (1): drive the REAL codegen.dumps_bdd_as_code on raw BDDs.

Tables follow coq/theories/L7Codegen/Pred.v: bit idx(a) = sum a_i << i of an
int is the value at the assignment a; position i is the bit named `b<i>`.
"""
import logging
import re

from vlib import codegen_synth as cs

logging.disable(logging.CRITICAL)


def make_manager(rng, backend, n):
    """Manager with bits b0..b(n-1) declared in a random order (so that the
    level of a bit differs from its index)."""
    bdd = cs.new_bdd(backend)
    order = list(range(n))
    rng.shuffle(order)
    for i in order:
        bdd.declare(cs.bitname(i))
    return bdd


def bdd_of_table(bdd, n, t):
    """OR of cubes / Shannon expansion; the manager's variable order is its
    own, so build by `ite` on variables in index order (canonical anyway)."""
    return cs.bdd_from_table(bdd, n, t)


def extract_dag(bdd, roots, pos=None):
    """Node table reachable from the roots, through the accessors that
    codegen itself uses: int(u), u.var, u.negated, bdd.succ(u).

    Returns {key: dict(term, neg, level, var, low, high)} with var = index of
    the bit (b<i> -> i)."""
    dag = {}
    keep = []   # keep references alive while traversing
    stack = list(roots)
    while stack:
        u = stack.pop()
        k = int(u)
        if k in dag:
            continue
        keep.append(u)
        if u.var is None:
            dag[k] = dict(term=True, neg=bool(u.negated), level=0, var=0,
                          low=0, high=0)
            continue
        level, low, high = bdd.succ(u)
        dag[k] = dict(term=False, neg=bool(u.negated), level=int(level),
                      var=(int(u.var[1:]) if pos is None else pos[u.var]),
                      low=int(low), high=int(high))
        stack.append(low)
        stack.append(high)
    del keep
    return dag


LATCH_RE = re.compile(r'^(latch_\w+) = ', re.M)


def run_python_code(code, n, names):
    """exec the generated python on all 2^n inputs; {name: table}."""
    tabs = {name: 0 for name in names}
    comp = compile(code, '<generated>', 'exec')
    for k in range(1 << n):
        st = {cs.bitname(i): bool((k >> i) & 1) for i in range(n)}
        st['out_bits'] = {}
        exec(comp, st)
        out = st['out_bits']
        if set(out) != set(names):
            raise AssertionError(f'out_bits has keys {sorted(out)}')
        for name in names:
            v = out[name]
            if v is not True and v is not False:
                raise AssertionError(f'non-Boolean value {v!r}')
            if v:
                tabs[name] |= 1 << k
    return tabs


def c_to_python(c_code, languages):
    """Token-wise translation of the C-syntax output to the Python syntax
    table (structural check of the C target)."""
    c, p = languages['c'], languages['python']
    out = []
    for line in c_code.split('\n'):
        if line.startswith(c['COMMENT']):
            out.append(p['COMMENT'] + line[len(c['COMMENT']):])
            continue
        # statement separator: every code statement ends with SEP
        # (a latch assignment spans three lines; only the last carries it)
        if line.endswith(c['SEP']):
            line = line[:len(line) - len(c['SEP'])] + p['SEP']
        line = line.replace(c['AND'], p['AND']).replace(c['OR'], p['OR'])
        line = re.sub(r'\(! ', '(' + p['NOT'] + ' ', line)
        line = re.sub(r'\btrue\b', p['TRUE'], line)
        line = re.sub(r'\bfalse\b', p['FALSE'], line)
        out.append(line)
    return '\n'.join(out)


def c_statements_terminated(c_code, languages):
    """Every C statement (maximal run of non-comment lines ending at a line
    that closes its parentheses) ends with `;`."""
    sep = languages['c']['SEP']
    com = languages['c']['COMMENT']
    depth = 0
    for line in c_code.split('\n'):
        if line.startswith(com):
            if depth:
                return False
            continue
        depth += line.count('(') - line.count(')')
        if depth == 0 and not line.endswith(sep):
            return False
        if depth != 0 and line.endswith(sep):
            return False
    return depth == 0


def rand_roots(rng, bdd, n):
    """1-4 named roots: random tables / formulas, constants, complements and
    shared sub-functions."""
    k = rng.randint(1, 4)
    tabs = []
    for j in range(k):
        c = rng.random()
        if c < 0.08:
            t = rng.choice([0, cs.full(n)])
        elif c < 0.2 and tabs:
            t = ~tabs[-1] & cs.full(n)       # complement of another root
        elif c < 0.28 and tabs:
            t = tabs[-1]                     # the same function twice
        elif c < 0.6:
            t = cs.rand_table(rng, n, rng.choice([0.2, 0.5, 0.8]))
        else:
            t = cs.rand_formula_table(rng, n, rng.randint(1, 4))
        tabs.append(t)
    return tabs


def info_lit(k, d):
    b = lambda x: 'true' if x else 'false'
    z = lambda x: f'({x})' if x < 0 else str(x)
    return (f'({z(k)}, mk_info {b(d["term"])} {b(d["neg"])} {d["level"]}%nat '
            f'{d["var"]}%nat {z(d["low"])} {z(d["high"])})')


def dag_lit(dag):
    return '[' + '; '.join(info_lit(k, dag[k]) for k in sorted(dag)) + ']'
