(* L1 / CircuitsLengths: widths of the circuits' outputs, for all operand
   values (used to show that acceptance by the translator is static). *)
From Coq Require Import ZArith List Bool Lia.
From Omega Require Import L1Circuits.Circuits.
Import ListNotations.

Lemma ripple_length : forall p q c, length (fst (ripple p q c)) = Nat.min (length p) (length q).
Proof.
  induction p as [|a p IH]; intros [|b q] c; cbn [ripple fst length Nat.min]; try reflexivity.
  specialize (IH q ((a && b) || (xorb a b && c))%bool).
  destruct (ripple p q _) as [r cf]. cbn [fst length] in *. now rewrite IH.
Qed.

Lemma sign_extension_len : forall x n, (length x <= n)%nat -> length (sign_extension x n) = n.
Proof. intros. unfold sign_extension. rewrite app_length, repeat_length. lia. Qed.

Lemma adder_length : forall x y add e,
  length (fst (adder_subtractor x y add e)) = (Nat.max (length x) (length y) + e)%nat.
Proof.
  intros. unfold adder_subtractor, equalize_width.
  destruct add; rewrite ripple_length, ?map_length, !sign_extension_len; lia.
Qed.

Lemma ite_function_length : forall a b c,
  length (ite_function a b c) = Nat.min (length b) (length c).
Proof.
  intros a. induction b as [|p b IH]; intros [|q c]; cbn [ite_function length Nat.min]; try reflexivity.
  now rewrite IH.
Qed.

Lemma pad_length : forall x n, (length x <= n)%nat -> length (pad x n) = n.
Proof. intros. unfold pad. rewrite app_length, repeat_length. lia. Qed.

Lemma fixed_shift_left_length : forall x c, (c <= length x)%nat ->
  length (fixed_shift_left x c) = length x.
Proof. intros. unfold fixed_shift_left. rewrite app_length, repeat_length, firstn_length. lia. Qed.

Lemma negate_if_length : forall g x, (1 <= length x)%nat ->
  length (negate_if g x) = S (length x).
Proof.
  intros g x H. unfold negate_if.
  pose proof (adder_length (pad [false] (length x)) x false 1) as A.
  destruct (adder_subtractor (pad [false] (length x)) x false 1) as [neg c]. cbn [fst] in A.
  rewrite pad_length in A by (cbn [length]; lia).
  rewrite ite_function_length, A, sign_extension_len by lia.
  rewrite Nat.max_id, Nat.min_id. lia.
Qed.

Lemma mult_stages_length : forall x y k, (k <= length x)%nat ->
  length (mult_stages x y k) = length x.
Proof.
  intros x y. induction k as [|k IH]; intros Hk; cbn [mult_stages].
  - apply repeat_length.
  - rewrite adder_length, IH, map_length by lia.
    unfold fixed_shift_left. rewrite app_length, repeat_length, firstn_length. lia.
Qed.

Lemma multiplier_length : forall x y,
  length (multiplier x y) = (length x + length y)%nat.
Proof.
  intros. unfold multiplier, equalize_width.
  rewrite mult_stages_length; rewrite !sign_extension_len; lia.
Qed.

Lemma div_stages_length : forall x y2 n k, length x = n -> length y2 = (2 * n)%nat ->
  (1 <= n)%nat ->
  length (fst (div_stages x y2 n k)) = k /\ length (snd (div_stages x y2 n k)) = (2 * n)%nat.
Proof.
  intros x y2 n k Hx Hy Hn. induction k as [|k [IH1 IH2]]; cbn [div_stages].
  - cbn [fst snd length]. split; [reflexivity|]. apply pad_length. lia.
  - destruct (div_stages x y2 n k) as [quo p]. cbn [fst snd] in *.
    pose proof (adder_length (fixed_shift_left p 1) y2 false 0) as A.
    destruct (adder_subtractor (fixed_shift_left p 1) y2 false 0) as [r c]. cbn [fst snd length] in *.
    rewrite fixed_shift_left_length in A by lia.
    rewrite ite_function_length, A, fixed_shift_left_length by lia. lia.
Qed.

Lemma restoring_divider_length : forall x y, (1 <= length x)%nat -> (1 <= length y)%nat ->
  let n := S (S (Nat.max (length x) (length y))) in
  length (fst (restoring_divider x y)) = n /\ length (snd (restoring_divider x y)) = n.
Proof.
  intros x y Hx Hy n. unfold restoring_divider, abs_, equalize_width.
  set (a := sign_extension (negate_if (sign x) x) _).
  set (b := sign_extension (negate_if (sign y) y) _).
  assert (La : length a = S (Nat.max (length x) (length y))).
  { unfold a. rewrite sign_extension_len; rewrite !negate_if_length by lia; lia. }
  assert (Lb : length b = S (Nat.max (length x) (length y))).
  { unfold b. rewrite sign_extension_len; rewrite !negate_if_length by lia; lia. }
  unfold restoring_divider_pos.
  assert (Ly2 : length (fixed_shift_left (pad b (2 * length a)) (length a)) = (2 * length a)%nat).
  { rewrite fixed_shift_left_length; rewrite pad_length; lia. }
  destruct (div_stages_length a _ (length a) (length a) eq_refl Ly2 ltac:(lia)) as [L1 L2].
  destruct (div_stages a _ (length a) (length a)) as [quo p]. cbn [fst snd] in *.
  rewrite !negate_if_length; rewrite ?skipn_length; subst n; lia.
Qed.
