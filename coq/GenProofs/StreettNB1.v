(* Membership lemmas for the folds of the Streett transducer model: which
   steps rho_1, rho_2, rho_3 certainly contain (arbitrary lists). *)
From Coq Require Import List Bool Arith Lia.
Import ListNotations.
From Omega Require Import L4.Arena L4.ArenaFacts L4.Kleene L4.GameSpec.
From OmegaGen Require Import FixpointGen Gr1Gen.
From OmegaGP Require Import TransducerModel CaSpec.

Section NB1.
Variables nc nx ny G : nat.
Variables E S : bdd.                 (* extended arena (lifted) *)
Variables holds goals : list bdd.    (* extended arena (lifted) *)
Variables moore plus_one : bool.

Local Notation nyE := (ny * G).
Local Notation band := (Arena.band nc nx nyE).
Local Notation bor := (Arena.bor nc nx nyE).
Local Notation bnot := (Arena.bnot nc nx nyE).
Local Notation ca := (Gr1Gen.controllable_action nc nx nyE E S moore plus_one 0).

(* ---- rho_2: inner fold over the onion of one goal --------------------- *)
Definition F2 : bdd * bdd -> bdd -> bdd * bdd :=
  fun '(r, basin) y =>
    (bor r (band (band y (bnot basin)) (ca basin None)), bor basin y).

Lemma F2_keeps l : forall r b v, r v = true -> fst (fold_left F2 l (r, b)) v = true.
Proof.
  induction l as [|y l IH]; intros r b v Hr; cbn [fold_left]; [exact Hr|].
  unfold F2 at 2. apply IH. rewrite bor_spec, Hr. reflexivity.
Qed.

Definition basin_of (b0 : bdd) (l : list bdd) : bdd := fold_left (fun b y => bor b y) l b0.

Lemma F2_basin l : forall r b, snd (fold_left F2 l (r, b)) = basin_of b l.
Proof.
  induction l as [|y l IH]; intros r b; cbn [fold_left basin_of]; [reflexivity|].
  unfold F2 at 2. rewrite IH. reflexivity.
Qed.

Lemma basin_of_false l : forall b v,
  b v = false -> (forall y, In y l -> y v = false) -> basin_of b l v = false.
Proof.
  induction l as [|y l IH]; intros b v Hb Hl; cbn [basin_of fold_left]; [exact Hb|].
  apply IH.
  - rewrite bor_spec, Hb, (Hl y (or_introl eq_refl)). reflexivity.
  - intros y' Hy'. apply Hl. right. exact Hy'.
Qed.

Lemma F2_member l1 y l2 r0 b0 v :
  y v = true -> basin_of b0 l1 v = false ->
  ca (basin_of b0 l1) None v = true ->
  fst (fold_left F2 (l1 ++ y :: l2) (r0, b0)) v = true.
Proof.
  intros Hy Hb Hc. rewrite fold_left_app. cbn [fold_left].
  destruct (fold_left F2 l1 (r0, b0)) as [r1 b1] eqn:E1.
  assert (Hb1 : b1 = basin_of b0 l1).
  { change b1 with (snd (r1, b1)). rewrite <- E1. apply F2_basin. }
  unfold F2 at 2. apply F2_keeps.
  rewrite bor_spec, !band_spec, bnot_spec, Hb1, Hy, Hb, Hc. apply orb_true_r.
Qed.

(* ---- rho_3: the nested fold is a fold over the flattened list --------- *)
Definition F3 : bdd * bdd -> bdd * bdd -> bdd * bdd :=
  fun '(r, used) '(x, hold) =>
    (bor r (band (band (band x (bnot used)) (ca x None)) hold), bor used x).

Lemma F3_keeps l : forall r u v, r v = true -> fst (fold_left F3 l (r, u)) v = true.
Proof.
  induction l as [|[x h] l IH]; intros r u v Hr; cbn [fold_left]; [exact Hr|].
  unfold F3 at 2. apply IH. rewrite bor_spec, Hr. reflexivity.
Qed.

Definition used_of (u0 : bdd) (l : list (bdd * bdd)) : bdd :=
  fold_left (fun u p => bor u (fst p)) l u0.

Lemma F3_used l : forall r u, snd (fold_left F3 l (r, u)) = used_of u l.
Proof.
  induction l as [|[x h] l IH]; intros r u; cbn [fold_left used_of]; [reflexivity|].
  unfold F3 at 2. rewrite IH. reflexivity.
Qed.

Lemma used_of_false l : forall u v,
  u v = false -> (forall p, In p l -> fst p v = false) -> used_of u l v = false.
Proof.
  induction l as [|p l IH]; intros u v Hu Hl; cbn [used_of fold_left]; [exact Hu|].
  apply IH.
  - pose proof (Hl p (or_introl eq_refl)) as Hp. rewrite bor_spec, Hu. cbn [orb]. exact Hp.
  - intros p' Hp'. apply Hl. right. exact Hp'.
Qed.

Lemma F3_member l1 x h l2 r0 u0 v :
  x v = true -> used_of u0 l1 v = false -> ca x None v = true -> h v = true ->
  fst (fold_left F3 (l1 ++ (x, h) :: l2) (r0, u0)) v = true.
Proof.
  intros Hx Hu Hc Hh. rewrite fold_left_app. cbn [fold_left].
  destruct (fold_left F3 l1 (r0, u0)) as [r1 u1] eqn:E1.
  assert (Hu1 : u1 = used_of u0 l1).
  { change u1 with (snd (r1, u1)). rewrite <- E1. apply F3_used. }
  unfold F3 at 2. apply F3_keeps.
  rewrite bor_spec, !band_spec, bnot_spec, Hu1, Hx, Hu, Hc, Hh. apply orb_true_r.
Qed.

Definition flat3 (xjk : list (list bdd)) : list (bdd * bdd) :=
  concat (map (fun xk => combine xk holds) xjk).

Lemma nested_F3 xjk : forall a,
  fold_left (fun acc xk => fold_left F3 (combine xk holds) acc) xjk a =
  fold_left F3 (flat3 xjk) a.
Proof.
  unfold flat3. induction xjk as [|xk r IH]; intros a; cbn [fold_left map concat];
    [reflexivity|].
  rewrite fold_left_app. apply IH.
Qed.

(* ---- outer folds over the goals ---------------------------------------- *)
Lemma outer_keeps {A} (term : nat -> A -> bdd) l : forall k acc v,
  acc v = true ->
  fold_left (fun acc '(i, a) => bor acc (term i a)) (enumerate k l) acc v = true.
Proof.
  induction l as [|a l IH]; intros k acc v Ha; cbn [enumerate fold_left]; [exact Ha|].
  apply IH. rewrite bor_spec, Ha. reflexivity.
Qed.

Lemma outer_member {A} (term : nat -> A -> bdd) l : forall k acc j a v,
  nth_error l j = Some a -> term (k + j) a v = true ->
  fold_left (fun acc '(i, a) => bor acc (term i a)) (enumerate k l) acc v = true.
Proof.
  induction l as [|a0 l IH]; intros k acc j a v Hj Ht; [destruct j; discriminate|].
  cbn [enumerate fold_left]. destruct j as [|j]; cbn [nth_error] in Hj.
  - inversion Hj. subst. apply outer_keeps. rewrite bor_spec, Nat.add_0_r in *.
    rewrite Ht. apply orb_true_r.
  - apply (IH (Nat.succ k) _ j a v Hj).
    rewrite Nat.add_succ_r in Ht. exact Ht.
Qed.

Lemma fold_left_ext {A B} (f g : A -> B -> A) l : forall a,
  (forall a b, f a b = g a b) -> fold_left f l a = fold_left g l a.
Proof.
  induction l as [|b l IH]; intros a H; cbn [fold_left]; [reflexivity|].
  rewrite H. apply IH, H.
Qed.

Lemma rho_2_alt yij :
  rho_2 nc nx ny G E S moore plus_one yij =
  fold_left (fun acc '(i, yj) =>
      bor acc (band (fst (fold_left F2 (tl yj) (bfalse, hd bfalse yj)))
                    (count_eq nc nx ny G i i)))
    (enumerate 0 yij) bfalse.
Proof.
  unfold rho_2. apply fold_left_ext. intros acc [i yj]. unfold F2.
  destruct (fold_left _ (tl yj) _) as [a b]. reflexivity.
Qed.

(* the code accumulates (used, rho_3j); F3 keeps them in the other order *)
Definition F3s : bdd * bdd -> bdd * bdd -> bdd * bdd :=
  fun '(used, r) '(x, hold) =>
    (bor used x, bor r (band (band (band x (bnot used)) (ca x None)) hold)).
Definition swp (p : bdd * bdd) : bdd * bdd := (snd p, fst p).

Lemma F3s_swap l : forall p, fold_left F3s l (swp p) = swp (fold_left F3 l p).
Proof.
  induction l as [|[x h] l IH]; intros [r u]; cbn [fold_left]; [reflexivity|].
  rewrite <- IH. reflexivity.
Qed.

Lemma nested_F3s xjk : forall p,
  fold_left (fun '(u0, r0) xk => fold_left F3s (combine xk holds) (u0, r0)) xjk (swp p) =
  swp (fold_left F3 (flat3 xjk) p).
Proof.
  intros p. rewrite <- nested_F3. revert p.
  induction xjk as [|xk r IH]; intros [r0 u0]; cbn [fold_left]; [reflexivity|].
  unfold swp at 1. cbn [fst snd].
  change (u0, r0) with (swp (r0, u0)). rewrite F3s_swap. apply IH.
Qed.

Lemma rho_3_alt xijk :
  rho_3 nc nx ny G E S holds moore plus_one xijk =
  fold_left (fun acc '(i, xjk) =>
      bor acc (band (fst (fold_left F3 (flat3 xjk) (bfalse, bfalse)))
                    (count_eq nc nx ny G i i)))
    (enumerate 0 xijk) bfalse.
Proof.
  unfold rho_3. apply fold_left_ext. intros acc [i xjk].
  match goal with |- context [fold_left ?f xjk ?a] =>
    change (fold_left f xjk a) with
      (fold_left (fun '(u0, r0) xk => fold_left F3s (combine xk holds) (u0, r0)) xjk
         (swp (bfalse, bfalse))) end.
  rewrite nested_F3s. unfold swp. cbn [fst snd]. reflexivity.
Qed.

(* rho_2 contains the rim step of goal j *)
Lemma rho_2_member yij j yj l1 y l2 v :
  nth_error yij j = Some yj -> tl yj = l1 ++ y :: l2 ->
  y v = true -> basin_of (hd bfalse yj) l1 v = false ->
  ca (basin_of (hd bfalse yj) l1) None v = true ->
  count_eq nc nx ny G j j v = true ->
  rho_2 nc nx ny G E S moore plus_one yij v = true.
Proof.
  intros Hj Htl Hy Hb Hc Hcnt. rewrite rho_2_alt.
  apply (outer_member
    (fun i yj => band (fst (fold_left F2 (tl yj) (bfalse, hd bfalse yj)))
                      (count_eq nc nx ny G i i)) yij 0 bfalse j yj v Hj).
  cbv beta. cbn [Nat.add]. rewrite band_spec, Hcnt, andb_true_r.
  unfold bdd in *. rewrite Htl. apply F2_member; assumption.
Qed.

(* rho_3 contains the stay step of goal j *)
Lemma rho_3_member xijk j xjk l1 x h l2 v :
  nth_error xijk j = Some xjk -> flat3 xjk = l1 ++ (x, h) :: l2 ->
  x v = true -> used_of bfalse l1 v = false -> ca x None v = true -> h v = true ->
  count_eq nc nx ny G j j v = true ->
  rho_3 nc nx ny G E S holds moore plus_one xijk v = true.
Proof.
  intros Hj Hfl Hx Hu Hc Hh Hcnt. rewrite rho_3_alt.
  apply (outer_member
    (fun i xjk => band (fst (fold_left F3 (flat3 xjk) (bfalse, bfalse)))
                       (count_eq nc nx ny G i i)) xijk 0 bfalse j xjk v Hj).
  cbv beta. cbn [Nat.add]. rewrite band_spec, Hcnt, andb_true_r.
  unfold bdd in *. rewrite Hfl. apply F3_member; assumption.
Qed.

End NB1.
