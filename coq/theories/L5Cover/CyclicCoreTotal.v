(* L5Cover / CyclicCoreTotal: cover._cyclic_core_fixpoint terminates within
   the fuel of the model, and the result is a cyclic core in which every
   element of X lies below at least two elements of Y.

   Termination: the potential |X| + |Y| never increases; an iteration that
   does not decrease it (no essential element, all ceilings and all floors
   distinct and maximal) yields a pair (X, Y) that is STABLE (every x is its
   own ceiling, every y its own floor), and an iteration from a stable pair
   either decreases the potential (essential elements) or is the last one.
   Hence at most 2 (|X| + |Y|) + 2 iterations. *)
From Coq Require Import List ZArith Bool Lia Arith.
Import ListNotations.
From Omega Require Import L5Cover.Boxes L5Cover.BoxesProofs L5Cover.MinCover
  L5Cover.MinCoverProofs L5Cover.CyclicCoreOpt.
Open Scope Z_scope.

(* ------------------------------------------------------------ lists *)
Lemma filter_length_eq {A} (p : A -> bool) l :
  length (filter p l) = length l -> filter p l = l.
Proof.
  induction l as [|a l IH]; intros H; cbn [filter] in *; [reflexivity|].
  pose proof (filter_length_le p (fun _ => true) l (fun _ _ _ => eq_refl)) as Hle.
  assert (E : filter (fun _ : A => true) l = l).
  { clear. induction l as [|b l IH]; cbn; [reflexivity | rewrite IH; reflexivity]. }
  rewrite E in Hle.
  destruct (p a); cbn [length] in H.
  - f_equal. apply IH. lia.
  - lia.
Qed.

Lemma filter_le_length {A} (p : A -> bool) l : (length (filter p l) <= length l)%nat.
Proof.
  induction l as [|a l IH]; cbn [filter length]; [lia|].
  destruct (p a); cbn [length]; lia.
Qed.

Lemma filter_all_true {A} (p : A -> bool) l :
  (forall a, In a l -> p a = true) -> filter p l = l.
Proof.
  induction l as [|a l IH]; intros H; cbn [filter]; [reflexivity|].
  rewrite (H a (or_introl eq_refl)). f_equal. apply IH. intros b Hb. apply H. right. exact Hb.
Qed.

Lemma dedup_length_le l : (length (dedup l) <= length l)%nat.
Proof.
  induction l as [|b l IH]; cbn [dedup length]; [lia|].
  destruct (mem_box (dedup l) b); cbn [length]; lia.
Qed.

Lemma dedup_length_eq l : length (dedup l) = length l -> dedup l = l.
Proof.
  induction l as [|b l IH]; intros H; cbn [dedup] in *; [reflexivity|].
  pose proof (dedup_length_le l) as Hle.
  destruct (mem_box (dedup l) b); cbn [length] in H; [lia|].
  f_equal. apply IH. lia.
Qed.

Lemma dedup_id l : NoDup l -> dedup l = l.
Proof.
  induction l as [|b l IH]; intros H; cbn [dedup]; [reflexivity|].
  inversion H as [|? ? Hn Hnd]; subst. rewrite (IH Hnd).
  destruct (mem_box l b) eqn:E; [apply mem_box_true in E; contradiction | reflexivity].
Qed.

Lemma diff_nil_r (A : list box) : diff A [] = A.
Proof. unfold diff. apply filter_all_true. intros a _. reflexivity. Qed.

Lemma diff_length_le' (A B : list box) : (length (diff A B) <= length A)%nat.
Proof. apply filter_le_length. Qed.

Lemma diff_length_lt (A B : list box) z :
  In z A -> In z B -> (length (diff A B) < length A)%nat.
Proof.
  intros HA HB. unfold diff.
  pose proof (filter_length_lt (fun b => negb (mem_box B b)) (fun _ => true) A
                (fun _ _ _ => eq_refl)) as H.
  assert (E : filter (fun _ : box => true) A = A) by (apply filter_all_true; reflexivity).
  rewrite E in H. apply H. exists z. split; [exact HA|]. split; [|reflexivity].
  apply negb_false_iff, mem_box_true, HB.
Qed.

Lemma maxima_antichain_id l : antichain l -> maxima l = l.
Proof.
  intros H. unfold maxima. apply filter_all_true. intros a Ha.
  assert (Hm : In a (maxima l)).
  { apply maxima_In. split; [exact Ha|]. intros c Hc Hle. symmetry. apply H; assumption. }
  unfold maxima in Hm. apply filter_In in Hm. apply Hm.
Qed.

Lemma map_id_in {A} (f : A -> A) l : (forall a, In a l -> f a = a) -> map f l = l.
Proof.
  induction l as [|a l IH]; intros H; cbn [map]; [reflexivity|].
  rewrite (H a (or_introl eq_refl)). f_equal. apply IH. intros b Hb. apply H. right. exact Hb.
Qed.

Section Total.
Variable rs : ranges.

(* every x is its own ceiling, every y its own floor, no repetitions, no
   comparable elements *)
Definition stable (X Y : list box) : Prop :=
  NoDup X /\ NoDup Y /\ antichain X /\ antichain Y /\
  (forall x, In x X -> ceil rs Y x = x) /\ (forall y, In y Y -> floor rs X y = y).

(* the pair computed by one iteration *)
Definition it_X (X Y : list box) : list box :=
  let X1 := max_ceilings rs X Y in diff X1 (inter X1 Y).
Definition it_e (X Y : list box) : list box := inter (max_ceilings rs X Y) Y.
Definition it_Y (X Y : list box) : list box :=
  max_floors rs (it_X X Y) (diff Y (it_e X Y)).

Lemma max_ceilings_length X Y : (length (max_ceilings rs X Y) <= length X)%nat.
Proof.
  unfold max_ceilings, maxima.
  pose proof (filter_le_length (maximal_in (dedup (map (ceil rs Y) X)))
                (dedup (map (ceil rs Y) X))) as F1.
  pose proof (dedup_length_le (map (ceil rs Y) X)) as F2. rewrite map_length in F2. lia.
Qed.

Lemma max_floors_length X Y : (length (max_floors rs X Y) <= length Y)%nat.
Proof.
  unfold max_floors, maxima.
  pose proof (filter_le_length (maximal_in (dedup (map (floor rs X) Y)))
                (dedup (map (floor rs X) Y))) as F1.
  pose proof (dedup_length_le (map (floor rs X) Y)) as F2. rewrite map_length in F2. lia.
Qed.

Lemma it_length X Y :
  (length (it_X X Y) <= length X)%nat /\ (length (it_Y X Y) <= length Y)%nat.
Proof.
  split.
  - unfold it_X. cbv zeta.
    pose proof (diff_length_le' (max_ceilings rs X Y) (inter (max_ceilings rs X Y) Y)).
    pose proof (max_ceilings_length X Y). lia.
  - unfold it_Y.
    pose proof (max_floors_length (it_X X Y) (diff Y (it_e X Y))).
    pose proof (diff_length_le' Y (it_e X Y)). lia.
Qed.

(* essential elements strictly decrease the potential *)
Lemma it_essential_decreases X Y z :
  In z (it_e X Y) ->
  (length (it_X X Y) + length (it_Y X Y) < length X + length Y)%nat.
Proof.
  intros Hz. pose proof Hz as Hz'. unfold it_e in Hz'. apply inter_In in Hz'.
  destruct Hz' as [Hz1 Hz2].
  assert (A : (length (it_X X Y) < length X)%nat).
  { unfold it_X. cbv zeta.
    pose proof (diff_length_lt (max_ceilings rs X Y) (inter (max_ceilings rs X Y) Y) z Hz1 Hz).
    pose proof (max_ceilings_length X Y). lia. }
  pose proof (proj2 (it_length X Y)). lia.
Qed.

(* an iteration that does not decrease the potential keeps every ceiling and
   every floor *)
Lemma it_nodecrease X Y :
  (length X + length Y <= length (it_X X Y) + length (it_Y X Y))%nat ->
  it_e X Y = [] /\ it_X X Y = map (ceil rs Y) X /\
  it_Y X Y = map (floor rs (it_X X Y)) Y /\
  NoDup (it_X X Y) /\ NoDup (it_Y X Y) /\ antichain (it_X X Y) /\ antichain (it_Y X Y).
Proof.
  intros H.
  assert (He : it_e X Y = []).
  { destruct (it_e X Y) as [|z e'] eqn:E; [reflexivity|]. exfalso.
    pose proof (it_essential_decreases X Y z) as D. rewrite E in D.
    specialize (D (or_introl eq_refl)). lia. }
  destruct (it_length X Y) as [LX LY].
  assert (EX : length (it_X X Y) = length X) by lia.
  assert (EY : length (it_Y X Y) = length Y) by lia.
  assert (HX : it_X X Y = map (ceil rs Y) X).
  { unfold it_X in *. cbv zeta in *. unfold it_e in He. rewrite He in *. rewrite diff_nil_r in *.
    unfold max_ceilings, maxima in *.
    pose proof (filter_le_length (maximal_in (dedup (map (ceil rs Y) X)))
                  (dedup (map (ceil rs Y) X))) as F1.
    pose proof (dedup_length_le (map (ceil rs Y) X)) as F2. rewrite map_length in F2.
    rewrite filter_length_eq by lia. apply dedup_length_eq. rewrite map_length. lia. }
  assert (HY : it_Y X Y = map (floor rs (it_X X Y)) Y).
  { unfold it_Y in *. rewrite He in *. rewrite diff_nil_r in *.
    unfold max_floors, maxima in *.
    pose proof (filter_le_length (maximal_in (dedup (map (floor rs (it_X X Y)) Y)))
                  (dedup (map (floor rs (it_X X Y)) Y))) as F1.
    pose proof (dedup_length_le (map (floor rs (it_X X Y)) Y)) as F2. rewrite map_length in F2.
    rewrite filter_length_eq by lia. apply dedup_length_eq. rewrite map_length. lia. }
  split; [exact He|]. split; [exact HX|]. split; [exact HY|].
  split; [|split; [|split]].
  - unfold it_X. cbv zeta. unfold diff. apply NoDup_filter. unfold max_ceilings.
    apply maxima_NoDup, dedup_NoDup.
  - unfold it_Y, max_floors. apply maxima_NoDup, dedup_NoDup.
  - unfold it_X. cbv zeta. apply (antichain_incl (max_ceilings rs X Y)).
    + intros z Hz. apply diff_In in Hz. apply Hz.
    + unfold max_ceilings. apply maxima_antichain.
  - unfold it_Y, max_floors. apply maxima_antichain.
Qed.

(* ... and yields a stable pair *)
Lemma it_nodecrease_stable X Y :
  below_top rs X -> above_bot rs Y ->
  (length X + length Y <= length (it_X X Y) + length (it_Y X Y))%nat ->
  stable (it_X X Y) (it_Y X Y).
Proof.
  intros HX HY H.
  destruct (it_nodecrease X Y H) as [He [EX [EY [NX [NY [AX AY]]]]]].
  set (X2 := it_X X Y) in *. set (Y2 := it_Y X Y) in *.
  assert (HX2 : below_top rs X2).
  { intros z Hz. unfold X2, it_X in Hz. cbv zeta in Hz. apply diff_In in Hz.
    apply (max_ceilings_below_top rs X Y HX), Hz. }
  assert (HY2 : above_bot rs Y2).
  { intros z Hz. rewrite EY in Hz. apply in_map_iff in Hz. destruct Hz as [y [<- _]].
    apply floor_above_bot, HX2. }
  split; [exact NX|]. split; [exact NY|]. split; [exact AX|]. split; [exact AY|]. split.
  - (* ceilings *)
    intros x2 Hx2. pose proof Hx2 as Hx2'. rewrite EX in Hx2'. apply in_map_iff in Hx2'.
    destruct Hx2' as [x [Ex Hx]].
    apply box_le_antisym.
    + (* ceil_{Y2} x2 <= x2 = meet of the y above x *)
      rewrite <- Ex at 2. unfold ceil at 2. apply meet_all_glb.
      * apply ceil_below_top, HX2, Hx2.
      * intros y Hy. apply those_over_In in Hy. destruct Hy as [Hy Hxy].
        assert (Hx2y : box_le x2 y).
        { rewrite <- Ex. apply (ceil_le_over rs X Y x y HX HY Hx Hy Hxy). }
        apply box_le_trans with (floor rs X2 y); [|apply (floor_le rs X2 Y y HX2 HY Hy)].
        unfold ceil. apply meet_all_lb.
        -- intros z Hz. apply those_over_In in Hz. apply (above_bot_length rs Y2 z HY2), Hz.
        -- apply those_over_In. split.
           ++ rewrite EY. apply in_map, Hy.
           ++ apply (floor_above rs X2 y x2 HX2 Hx2 Hx2y).
    + apply ceil_above, HX2, Hx2.
  - (* floors *)
    intros y2 Hy2. pose proof Hy2 as Hy2'. rewrite EY in Hy2'. apply in_map_iff in Hy2'.
    destruct Hy2' as [y [Ey Hy]].
    apply box_le_antisym.
    + apply (floor_le rs X2 Y2 y2 HX2 HY2 Hy2).
    + rewrite <- Ey at 1. unfold floor at 1. apply join_all_lub.
      * apply floor_above_bot, HX2.
      * intros x2 Hx2. apply those_under_In in Hx2. destruct Hx2 as [Hx2 Hle].
        apply (floor_above rs X2 y2 x2 HX2 Hx2). rewrite <- Ey.
        apply (floor_above rs X2 y x2 HX2 Hx2 Hle).
Qed.

(* an iteration from a stable pair without essential elements changes nothing *)
Lemma it_stable X Y :
  stable X Y -> max_ceilings rs X Y = X /\ (it_e X Y = [] -> it_X X Y = X /\ it_Y X Y = Y).
Proof.
  intros [NX [NY [AX [AY [CX FY]]]]].
  assert (E1 : max_ceilings rs X Y = X).
  { unfold max_ceilings. rewrite (map_id_in (ceil rs Y) X CX), (dedup_id X NX).
    apply maxima_antichain_id, AX. }
  split; [exact E1|]. intros He. unfold it_e in He. rewrite E1 in He.
  assert (E2 : it_X X Y = X).
  { unfold it_X. cbv zeta. rewrite E1, He. apply diff_nil_r. }
  split; [exact E2|]. unfold it_Y. rewrite E2. unfold it_e. rewrite E1, He, diff_nil_r.
  unfold max_floors. rewrite (map_id_in (floor rs X) Y FY), (dedup_id Y NY).
  apply maxima_antichain_id, AY.
Qed.

Lemma cc_loop_unfold n X Y E :
  cc_loop rs (S n) X Y E =
  if (if same_setb (it_X X Y) X then same_setb (it_Y X Y) Y else false)
  then Some (it_X X Y, it_Y X Y, union E (it_e X Y))
  else cc_loop rs n (it_X X Y) (it_Y X Y) (union E (it_e X Y)).
Proof. reflexivity. Qed.

Lemma same_setb_refl K : same_setb K K = true.
Proof. apply same_setb_true, same_set_refl. Qed.

Lemma it_below_top X Y : below_top rs X -> below_top rs (it_X X Y).
Proof.
  intros HX z Hz. unfold it_X in Hz. cbv zeta in Hz. apply diff_In in Hz.
  apply (max_ceilings_below_top rs X Y HX), Hz.
Qed.

Lemma it_above_bot X Y : below_top rs X -> above_bot rs (it_Y X Y).
Proof. intros HX. unfold it_Y. apply max_floors_above_bot, it_below_top, HX. Qed.

(* termination within the fuel: [s] = 0 for a stable pair, 1 otherwise *)
Lemma cc_loop_total n : forall X Y E (s : nat),
  below_top rs X -> above_bot rs Y ->
  (s = O -> stable X Y) ->
  (2 * (length X + length Y) + s < n)%nat ->
  exists r, cc_loop rs n X Y E = Some r.
Proof.
  induction n as [|n IH]; intros X Y E s HX HY Hs Hn; [lia|].
  rewrite cc_loop_unfold.
  destruct (if same_setb (it_X X Y) X then same_setb (it_Y X Y) Y else false) eqn:Esame;
    [eexists; reflexivity|].
  destruct (it_length X Y) as [LX LY].
  pose proof (it_below_top X Y HX) as HX2. pose proof (it_above_bot X Y HX) as HY2.
  destruct (Nat.eq_dec (length (it_X X Y) + length (it_Y X Y)) (length X + length Y)) as [Heq|Hne].
  - (* no decrease *)
    destruct s as [|s'].
    + (* stable and no decrease: no essential element, so nothing changes *)
      exfalso. specialize (Hs eq_refl).
      destruct (it_nodecrease X Y ltac:(lia)) as [He _].
      destruct (it_stable X Y Hs) as [_ Hid]. destruct (Hid He) as [E1 E2].
      rewrite E1, E2, !same_setb_refl in Esame. discriminate.
    + apply (IH _ _ _ O HX2 HY2).
      * intros _. apply it_nodecrease_stable; [exact HX | exact HY | lia].
      * lia.
  - apply (IH _ _ _ 1%nat HX2 HY2); [intros Hc; discriminate | lia].
Qed.

(* cover.cyclic_core returns *)
Theorem cyclic_core_total X Y :
  below_top rs X -> above_bot rs Y -> exists r, cyclic_core rs X Y = Some r.
Proof.
  intros HX HY. unfold cyclic_core, cc_fuel.
  apply (cc_loop_total _ X Y [] 1%nat HX HY); [intros Hc; discriminate | lia].
Qed.
End Total.
