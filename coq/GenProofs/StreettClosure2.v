(* Closure for the GENERATED solver + transducer model: whenever the
   environment keeps its action, every step the synthesized Streett action
   allows leads to a winning valuation. *)
From Coq Require Import List Bool Arith Lia.
Import ListNotations.
From Omega Require Import L4.Arena L4.ArenaFacts L4.Kleene L4.AlgOrder L4.GameSpec L4.Mu
  L4.GR1Spec L4.GR1Closure.
From OmegaGen Require Import FixpointGen Gr1Gen.
From OmegaGP Require Import FixpointProofs StreettProofs TransducerModel
  StreettNB2 StreettNB3 StreettIter1 StreettIter2 StreettClosure1.

Section Closure2.
Variables nc nx ny : nat.
Variables E S : bdd.
Variables holds goals : list bdd.
Variables moore plus_one : bool.
Variable fuel : nat.
Hypothesis Hfuel : NV nc nx ny <= fuel.
Hypothesis Sh : Forall spred holds.
Hypothesis Sg : Forall spred goals.

Local Notation step := (FixpointGen.step nc nx ny moore plus_one).
Local Notation cp := (cpre_spec nx ny moore plus_one E S).
Local Notation band := (Arena.band nc nx ny).
Local Notation inr := (inr nc nx ny).
Local Notation eqv := (eqv nc nx ny).
Local Notation aua := (Gr1Gen.attractor_under_assumptions nc nx ny E S holds moore plus_one).
Local Notation solve := (Gr1Gen.solve_streett_game nc nx ny E S holds goals moore plus_one).
Local Notation sY := (GR1Spec.sY nc nx ny moore plus_one E S holds).
Local Notation Zs := (streett_spec nc nx ny moore plus_one E S holds goals).

(* every layer and every trap of an onion lies inside its last layer *)
Lemma onion_chain gl Yp yj xjk :
  onion nc nx ny E S moore plus_one holds gl Yp yj xjk ->
  (forall s, Yp s = true -> last yj Yp s = true) /\
  (forall y, In y yj -> forall s, y s = true -> last yj Yp s = true) /\
  (forall xk x, In xk xjk -> In x xk -> forall s, x s = true -> last yj Yp s = true).
Proof.
  intros Ho. induction Ho as [Yp|Yp y yr xk xr Hl Hy Hx Ho [IH1 [IH2 IH3]]].
  - cbn [last]. split; [auto|]. split; [intros y []|intros xk x []].
  - rewrite last_cons_default.
    assert (HYy : forall s, Yp s = true -> y s = true).
    { intros s H. rewrite Hy, H. reflexivity. }
    assert (Hxy : forall x, In x xk -> forall s, x s = true -> y s = true).
    { intros x Hin s H. rewrite Hy. apply orb_true_iff. right.
      apply existsb_exists. exists x. auto. }
    split; [intros s H; apply IH1, HYy, H|]. split.
    + intros y1 [<-|Hy1] s H; [apply IH1, H|apply (IH2 y1 Hy1 s H)].
    + intros xk1 x [<-|Hxk1] Hx1 s H; [apply IH1, (Hxy x Hx1 s H)|apply (IH3 xk1 x Hxk1 Hx1 s H)].
Qed.

Local Notation zf := (fst (fst (solve fuel))).

Lemma sY_eqv' g g' : eqv g g' -> eqv (sY g) (sY g').
Proof.
  intros H. apply le_antisym; apply sY_mono; [apply eqv_le|apply eqv_le']; exact H.
Qed.

(* the attractor computed for goal R in the last pass is the region *)
Lemma last_pass_attractor q R :
  eqv (fst (zbody nc nx ny E S holds goals moore plus_one fuel q)) q ->
  eqv q Zs -> In R goals ->
  eqv (fst (fst (aua fuel (band R (step fuel E S q))))) Zs.
Proof.
  intros Hq HqZ HR.
  apply eqv_trans with (sY (band R (step fuel E S q)));
    [apply (aua_is_sY nc nx ny E S holds moore plus_one fuel Hfuel)|].
  apply eqv_trans with (sY (band R (GR1Spec.cpre nx ny moore plus_one E S Zs))).
  - apply sY_eqv'. intros v Hv. rewrite !band_spec, step_spec. f_equal.
    unfold GR1Spec.cpre.
    destruct (cp q v) eqn:E1, (cp Zs v) eqn:E2; try reflexivity; exfalso.
    + rewrite (cpre_spec_mono nc nx ny moore plus_one E S q Zs (eqv_le _ _ _ _ _ HqZ) v Hv E1) in E2.
      discriminate.
    + rewrite (cpre_spec_mono nc nx ny moore plus_one E S Zs q (eqv_le' _ _ _ _ _ HqZ) v Hv E2) in E1.
      discriminate.
  - apply (sY_goal_eq_Z nc nx ny moore plus_one E S holds goals R HR).
Qed.

(* all recorded iterates lie in the returned region *)
Theorem iterates_in_region :
  (forall yj y, In yj (snd (fst (solve fuel))) -> In y yj ->
     forall s, inr s -> y s = true -> zf s = true) /\
  (forall xjk xk x, In xjk (snd (solve fuel)) -> In xk xjk -> In x xk ->
     forall s, inr s -> x s = true -> zf s = true).
Proof.
  pose proof (streett_fixpoint nc nx ny E S holds goals moore plus_one fuel Hfuel) as HZ.
  destruct (solve_is_zbody nc nx ny E S holds goals moore plus_one fuel Hfuel Sh Sg)
    as [q [Sq [Hsol Heq]]].
  rewrite Hsol in *. cbn [fst snd] in *.
  assert (HqZ : eqv q Zs) by (apply eqv_trans with (fst (zbody nc nx ny E S holds goals moore plus_one fuel q));
                               [apply eqv_sym, Heq|exact HZ]).
  assert (Hcore : forall R, In R goals ->
            let a := aua fuel (band R (step fuel E S q)) in
            (forall y, In y (snd (fst a)) -> forall s, inr s -> y s = true ->
               fst (zbody nc nx ny E S holds goals moore plus_one fuel q) s = true) /\
            (forall xk x, In xk (snd a) -> In x xk -> forall s, inr s -> x s = true ->
               fst (zbody nc nx ny E S holds goals moore plus_one fuel q) s = true)).
  { intros R HR a.
    pose proof (aua_onion nc nx ny E S holds moore plus_one fuel Hfuel Sh
                  (band R (step fuel E S q))
                  (goal_spred nc nx ny E S goals moore plus_one fuel Sg R q HR)) as Hinv.
    pose proof (last_pass_attractor q R Heq HqZ HR) as Hlast. fold a in Hinv, Hlast.
    destruct a as [[y0 yj] xjk]. cbn [aua_inv fst snd] in *.
    destruct Hinv as [Hy0 [Hon _]]. destruct (onion_chain _ _ _ _ Hon) as [_ [C2 C3]].
    assert (Hin : forall s, inr s -> last yj bfalse s = true ->
              fst (zbody nc nx ny E S holds goals moore plus_one fuel q) s = true).
    { intros s Hs H. rewrite <- Hy0 in H. rewrite (HZ s Hs), <- (Hlast s Hs). exact H. }
    split.
    - intros y Hy s Hs H. apply Hin; [exact Hs|apply (C2 y Hy s H)].
    - intros xk x Hxk Hx s Hs H. apply Hin; [exact Hs|apply (C3 xk x Hxk Hx s H)]. }
  unfold zbody at 1 3. cbn [fst snd]. split.
  - intros yj y Hyj Hy. apply in_map_iff in Hyj. destruct Hyj as [R [<- HR]].
    apply (proj1 (Hcore R HR) y Hy).
  - intros xjk xk x Hxjk Hxk Hx. apply in_map_iff in Hxjk. destruct Hxjk as [R [<- HR]].
    apply (proj2 (Hcore R HR) xk x Hxk Hx).
Qed.

Section FinalC.
Variable G : nat.
Hypothesis HG : 0 < G.
Local Notation L := (lift nc nx ny G).

Lemma bv_inr v : Kleene.inr nc nx (ny * G) v -> inr (bv G (nextpt v)).
Proof.
  unfold Kleene.inr, in_range, bv, nextpt. cbn [vc vx vy vxp vyp].
  repeat rewrite andb_true_iff. repeat rewrite Nat.ltb_lt. intros [[[[Hc Hx] Hy] Hxp] Hyp].
  assert (vyp v / G < ny) by (apply Nat.div_lt_upper_bound; lia). lia.
Qed.

(* (d) the winning region is closed under the steps of the synthesized action
   in which the environment keeps its action *)
Theorem streett_impl_closed v :
  Kleene.inr nc nx (ny * G) v ->
  streett_action nc nx ny G (L E) (L S) (map L holds) (map L goals) moore plus_one
    (L zf) (map (map L) (snd (fst (solve fuel)))) (map (map (map L)) (snd (solve fuel))) v = true ->
  L E v = true ->
  zf (bv G (nextpt v)) = true.
Proof.
  intros Hv HA HE.
  destruct iterates_in_region as [HY HX].
  pose proof (streett_action_hits nc nx ny G (L E) (L S) (map L holds) (map L goals)
                moore plus_one (L zf) (map (map L) (snd (fst (solve fuel))))
                (map (map (map L)) (snd (solve fuel))) v Hv HA HE) as HQ.
  unfold Q in HQ. destruct HQ as [H|[H|H]].
  - exact H.
  - destruct H as [yjL [yL [Hyj [Hy H]]]].
    apply in_map_iff in Hyj. destruct Hyj as [yj [<- Hyj]].
    apply in_map_iff in Hy. destruct Hy as [y [<- Hy]].
    apply (HY yj y Hyj Hy _ (bv_inr v Hv) H).
  - destruct H as [xjkL [xkL [xL [Hxjk [Hxk [Hx H]]]]]].
    apply in_map_iff in Hxjk. destruct Hxjk as [xjk [<- Hxjk]].
    apply in_map_iff in Hxk. destruct Hxk as [xk [<- Hxk]].
    apply in_map_iff in Hx. destruct Hx as [x [<- Hx]].
    apply (HX xjk xk x Hxjk Hxk Hx _ (bv_inr v Hv) H).
Qed.

(* closed-loop safety by induction over the behaviour: from a winning state,
   along any sequence of allowed steps in which the environment keeps its
   action, every state reached is winning *)
Definition st_of (c x ye : nat) : V := mkV c x (ye / G) x (ye / G).

Inductive reach (c : nat) : nat -> nat -> nat -> nat -> Prop :=
| reach_refl x ye : reach c x ye x ye
| reach_step x ye x1 ye1 x2 ye2 :
    reach c x ye x1 ye1 ->
    x2 < nx -> ye2 < ny * G ->
    streett_action nc nx ny G (L E) (L S) (map L holds) (map L goals) moore plus_one
      (L zf) (map (map L) (snd (fst (solve fuel)))) (map (map (map L)) (snd (solve fuel)))
      (mkV c x1 ye1 x2 ye2) = true ->
    L E (mkV c x1 ye1 x2 ye2) = true ->
    reach c x ye x2 ye2.

Theorem streett_impl_reachable_winning c x ye x' ye' :
  c < nc -> x < nx -> ye < ny * G ->
  reach c x ye x' ye' ->
  zf (st_of c x ye) = true ->
  x' < nx /\ ye' < ny * G /\ zf (st_of c x' ye') = true.
Proof.
  intros Hc Hx Hye Hr Hz. induction Hr as [x ye|x ye x1 ye1 x2 ye2 Hr IH Hx2 Hye2 HA HE].
  - auto.
  - destruct (IH Hx Hye Hz) as [Hx1 [Hye1 Hz1]]. split; [exact Hx2|]. split; [exact Hye2|].
    assert (Hv : Kleene.inr nc nx (ny * G) (mkV c x1 ye1 x2 ye2)).
    { unfold Kleene.inr, in_range. cbn [vc vx vy vxp vyp].
      repeat rewrite andb_true_iff. repeat rewrite Nat.ltb_lt. lia. }
    apply (streett_impl_closed _ Hv HA HE).
Qed.
End FinalC.

End Closure2.
