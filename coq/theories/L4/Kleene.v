(* L4 / Kleene: order on BDDs-by-meaning, cardinality measure, and the
   behaviour of the translated `while q != qold` loops ([do_while]):
   on a monotone operator they reach the least (greatest) fixpoint above
   (below) the start within |all_V| rounds, so fuel >= |all_V| is never
   exhausted. *)
From Coq Require Import List Bool Arith Lia.
Import ListNotations.
From Omega Require Import L4.Arena L4.ArenaFacts.

Section Kleene.
Variables nc nx ny : nat.

Definition inr (v : V) : Prop := in_range nc nx ny v = true.
Definition le (a b : bdd) : Prop := forall v, inr v -> a v = true -> b v = true.
Definition eqv (a b : bdd) : Prop := forall v, inr v -> a v = b v.
Definition count (a : bdd) : nat := length (filter a (all_V nc nx ny)).
Definition NV : nat := length (all_V nc nx ny).

Local Notation beq := (beq nc nx ny).

Lemma beq_eqv a b : beq a b = true <-> eqv a b.
Proof. apply beq_true_iff. Qed.

Lemma eqv_refl a : eqv a a.
Proof. intros v _. reflexivity. Qed.
Lemma eqv_sym a b : eqv a b -> eqv b a.
Proof. intros H v Hv. symmetry. apply H, Hv. Qed.
Lemma eqv_trans a b c : eqv a b -> eqv b c -> eqv a c.
Proof. intros H1 H2 v Hv. rewrite (H1 v Hv). apply H2, Hv. Qed.
Lemma le_refl a : le a a.
Proof. intros v _ H. exact H. Qed.
Lemma le_trans a b c : le a b -> le b c -> le a c.
Proof. intros H1 H2 v Hv H. apply H2, H1; assumption. Qed.
Lemma eqv_le a b : eqv a b -> le a b.
Proof. intros H v Hv Ha. rewrite <- (H v Hv). exact Ha. Qed.
Lemma eqv_le' a b : eqv a b -> le b a.
Proof. intros H. apply eqv_le, eqv_sym, H. Qed.
Lemma le_antisym a b : le a b -> le b a -> eqv a b.
Proof.
  intros H1 H2 v Hv. destruct (a v) eqn:Ea, (b v) eqn:Eb; try reflexivity.
  - rewrite (H1 v Hv Ea) in Eb. discriminate.
  - rewrite (H2 v Hv Eb) in Ea. discriminate.
Qed.

Lemma filter_length_le {A} (p q : A -> bool) l :
  (forall x, In x l -> p x = true -> q x = true) ->
  length (filter p l) <= length (filter q l).
Proof.
  induction l as [|x l IH]; intros H; cbn [filter]; [lia|].
  assert (IH' : length (filter p l) <= length (filter q l)).
  { apply IH. intros y Hy. apply H. right. exact Hy. }
  destruct (p x) eqn:Ep.
  - rewrite (H x (or_introl eq_refl) Ep). cbn [length]. lia.
  - destruct (q x); cbn [length]; lia.
Qed.

Lemma filter_length_lt {A} (p q : A -> bool) l :
  (forall x, In x l -> p x = true -> q x = true) ->
  (exists x, In x l /\ p x = false /\ q x = true) ->
  length (filter p l) < length (filter q l).
Proof.
  induction l as [|x l IH]; intros H [y [Hy [Hp Hq]]]; [destruct Hy|].
  cbn [filter].
  assert (Hle : length (filter p l) <= length (filter q l)).
  { apply filter_length_le. intros z Hz. apply H. right. exact Hz. }
  destruct Hy as [->|Hy].
  - rewrite Hp, Hq. cbn [length]. lia.
  - assert (IH' : length (filter p l) < length (filter q l)).
    { apply IH. intros z Hz. apply H. right. exact Hz. exists y. auto. }
    destruct (p x) eqn:Ep.
    + rewrite (H x (or_introl eq_refl) Ep). cbn [length]. lia.
    + destruct (q x); cbn [length]; lia.
Qed.

Lemma count_le a b : le a b -> count a <= count b.
Proof.
  intros H. apply filter_length_le. intros v Hv. apply H. apply in_all_V, Hv.
Qed.

Lemma count_bound a : count a <= NV.
Proof.
  unfold count, NV. generalize (all_V nc nx ny). intros l.
  induction l as [|x l IH]; cbn [filter length]; [lia|].
  destruct (a x); cbn [length]; lia.
Qed.

Lemma beq_false_witness a b :
  beq a b = false -> exists v, In v (all_V nc nx ny) /\ a v <> b v.
Proof.
  unfold Arena.beq. generalize (all_V nc nx ny). intros l.
  induction l as [|x l IH]; cbn [forallb]; [discriminate|].
  destruct (eqb (a x) (b x)) eqn:E; cbn [andb].
  - intros H. destruct (IH H) as [v [Hv Hn]]. exists v. split; [right|]; assumption.
  - intros _. exists x. split; [left; reflexivity|]. apply eqb_false_iff. exact E.
Qed.

Lemma count_lt a b : le a b -> beq b a = false -> count a < count b.
Proof.
  intros H E. apply filter_length_lt.
  - intros v Hv. apply H. apply in_all_V, Hv.
  - destruct (beq_false_witness _ _ E) as [v [Hv Hn]]. exists v.
    split; [exact Hv|].
    destruct (a v) eqn:Ea.
    + rewrite (H v (proj1 (in_all_V nc nx ny v) Hv) Ea) in Hn. congruence.
    + destruct (b v); [auto|congruence].
Qed.

(* --- single-BDD loops ---------------------------------------------------- *)
Definition mono (f : bdd -> bdd) : Prop := forall a b, le a b -> le (f a) (f b).

Lemma mono_eqv f a b : mono f -> eqv a b -> eqv (f a) (f b).
Proof.
  intros M H. apply le_antisym; apply M; [apply eqv_le|apply eqv_le']; exact H.
Qed.

Fixpoint loop (fuel : nat) (f : bdd -> bdd) (q : bdd) : bdd :=
  let r := f q in
  if beq r q then r
  else match fuel with 0 => r | S k => loop k f r end.

Lemma do_while_loop fuel f q :
  fst (do_while nc nx ny fuel (fun q => (f q, tt)) (fun q => q) q) = loop fuel f q.
Proof.
  revert q. induction fuel as [|k IH]; intros q; cbn [do_while loop fst].
  - destruct (beq (f q) q); reflexivity.
  - destruct (beq (f q) q); [reflexivity|]. apply IH.
Qed.

Lemma loop_ext fuel f g z : (forall q, f q = g q) -> loop fuel f z = loop fuel g z.
Proof.
  intros H. revert z. induction fuel as [|k IH]; intros z; cbn [loop];
    rewrite H; [reflexivity|].
  destruct (beq (g z) z); [reflexivity|apply IH].
Qed.

(* increasing chains: least fixpoint above the start *)
Lemma loop_inc f q fuel :
  mono f -> le q (f q) -> NV - count q <= fuel ->
  let r := loop fuel f q in
  eqv (f r) r /\ le q r /\ (forall p, le q p -> le (f p) p -> le r p).
Proof.
  intros M. revert q. induction fuel as [|k IH]; intros q Hq Hf; cbn [loop].
  - destruct (beq (f q) q) eqn:E.
    + apply beq_eqv in E. repeat split.
      * apply (mono_eqv f _ _ M E).
      * exact Hq.
      * intros p Hp Hfp. apply le_trans with (f p); [apply M, Hp|exact Hfp].
    + pose proof (count_lt _ _ Hq E). pose proof (count_bound (f q)). lia.
  - destruct (beq (f q) q) eqn:E.
    + apply beq_eqv in E. repeat split.
      * apply (mono_eqv f _ _ M E).
      * exact Hq.
      * intros p Hp Hfp. apply le_trans with (f p); [apply M, Hp|exact Hfp].
    + pose proof (count_lt _ _ Hq E) as Hlt.
      destruct (IH (f q)) as [H1 [H2 H3]].
      * apply M, Hq.
      * lia.
      * repeat split.
        -- exact H1.
        -- apply le_trans with (f q); assumption.
        -- intros p Hp Hfp. apply H3; [|exact Hfp].
           apply le_trans with (f p); [apply M, Hp|exact Hfp].
Qed.

(* decreasing chains: greatest fixpoint below the start *)
Lemma loop_dec f q fuel :
  mono f -> le (f q) q -> count q <= fuel ->
  let r := loop fuel f q in
  eqv (f r) r /\ le r q /\ (forall p, le p q -> le p (f p) -> le p r).
Proof.
  intros M. revert q. induction fuel as [|k IH]; intros q Hq Hf; cbn [loop].
  - destruct (beq (f q) q) eqn:E.
    + apply beq_eqv in E. repeat split.
      * apply (mono_eqv f _ _ M E).
      * exact Hq.
      * intros p Hp Hfp. apply le_trans with (f p); [exact Hfp|apply M, Hp].
    + assert (E' : beq q (f q) = false).
      { destruct (beq q (f q)) eqn:E2; [|reflexivity].
        apply beq_eqv in E2. apply eqv_sym in E2. apply beq_eqv in E2. congruence. }
      pose proof (count_lt _ _ Hq E'). lia.
  - destruct (beq (f q) q) eqn:E.
    + apply beq_eqv in E. repeat split.
      * apply (mono_eqv f _ _ M E).
      * exact Hq.
      * intros p Hp Hfp. apply le_trans with (f p); [exact Hfp|apply M, Hp].
    + assert (E' : beq q (f q) = false).
      { destruct (beq q (f q)) eqn:E2; [|reflexivity].
        apply beq_eqv in E2. apply eqv_sym in E2. apply beq_eqv in E2. congruence. }
      pose proof (count_lt _ _ Hq E') as Hlt.
      destruct (IH (f q)) as [H1 [H2 H3]].
      * apply M, Hq.
      * lia.
      * repeat split.
        -- exact H1.
        -- apply le_trans with (f q); assumption.
        -- intros p Hp Hfp. apply H3; [|exact Hfp].
           apply le_trans with (f p); [exact Hfp|apply M, Hp].
Qed.

(* a loop whose chain becomes increasing after the first round *)
Lemma loop_inc_after_first f q fuel :
  mono f -> le (f q) (f (f q)) -> NV < fuel ->
  let r := loop fuel f q in
  eqv (f r) r /\ le (f q) r /\ (forall p, le (f q) p -> le (f p) p -> le r p).
Proof.
  intros M H Hf. destruct fuel as [|k]; [lia|]. cbn [loop].
  destruct (beq (f q) q) eqn:E.
  - apply beq_eqv in E. repeat split.
    + apply (mono_eqv f _ _ M E).
    + apply le_refl.
    + intros p Hp _. exact Hp.
  - apply loop_inc; [exact M|exact H|].
    pose proof (count_bound (f q)). lia.
Qed.

(* --- projecting a loop over a tuple onto its key component -------------- *)
Lemma do_while_proj {C E C' E'} (pi : C -> C') (body : C -> C * E)
    (body' : C' -> C' * E') (key : C -> bdd) (key' : C' -> bdd) :
  (forall c, key c = key' (pi c)) ->
  (forall c, pi (fst (body c)) = fst (body' (pi c))) ->
  forall fuel c,
    pi (fst (do_while nc nx ny fuel body key c)) =
    fst (do_while nc nx ny fuel body' key' (pi c)).
Proof.
  intros Hk Hb fuel. induction fuel as [|k IH]; intros c; cbn [do_while].
  - rewrite !Hk, Hb. destruct (beq _ _); apply Hb.
  - rewrite !Hk, Hb. destruct (beq _ _); [apply Hb|].
    rewrite IH, Hb. reflexivity.
Qed.

End Kleene.
