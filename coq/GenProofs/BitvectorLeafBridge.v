(* Bridge for C06 (tie T), third part: the LEAVES of flatten.  The code
   translated on every run from omega/logic/bitvector.py --
   int_to_twos_complement, twos_complement_to_int, var_to_twos_complement,
   _append_sign_bit, _is_bool_var, _assert_var_in_table and the methods
   Nodes.Num / Bool / Var .flatten inside [g_flatten] -- computes the leaf
   model of theories/L2Compile/Leaf.v.  Only the branch of Var.flatten that
   expands a definition (name in defs) stays external: the Section variable
   [def_flatten], never reached when the name has no definition. *)
From Coq Require Import String Ascii ZArith List Bool Lia.
From Omega Require Import L1Circuits.Circuits L1Circuits.Deep L1Circuits.PyBits
  L1Circuits.PyBitsProofs L1Circuits.PyStr L2Compile.Expr L2Compile.Emit
  L2Compile.Thread L2Compile.Leaf L2Compile.LeafProofs.
From OmegaGen Require Import BitvectorGen.
From OmegaGP Require Import BitvectorBridge.
Import ListNotations.
Open Scope Z_scope.

Lemma append_nil_r : forall s : string, (s ++ "")%string = s.
Proof. induction s; cbn; congruence. Qed.

(* ---------------------------------------------------------- numerals *)
Lemma g_int_to_twos_complement_ok : forall s r,
  g_int_to_twos_complement s = Some r ->
  exists z, py_int s = Some z /\ r = num_names z.
Proof.
  intros s r H. unfold g_int_to_twos_complement in H. cbv zeta in H.
  destruct (py_int s) as [x|] eqn:E; [|discriminate]. exists x. split; [reflexivity|].
  minv H. injection H as <-.
  rewrite <- (numeral_names x). cbv zeta.
  match goal with E : (if x >=? 0 then _ else _) = Some _ |- _ =>
    destruct (x >=? 0) eqn:S; minv E; injection E as <- <- end.
  - apply Z.geb_le in S. replace (x <? 0) with false by (symmetry; apply Z.ltb_ge; lia).
    reflexivity.
  - rewrite Z.geb_leb in S. apply Z.leb_gt in S.
    replace (x <? 0) with true by (symmetry; apply Z.ltb_lt; lia).
    match goal with E : py_pow 2 _ = Some _ |- _ =>
      unfold py_pow in E; minv E; injection E as <- end.
    reflexivity.
Qed.

(* --------------------------------------------------------- variables *)
Lemma g__is_bool_var_eq : forall name t, g__is_bool_var name (Some t) = is_bool_var t name.
Proof.
  intros name t. unfold g__is_bool_var, is_bool_var, dict_mem. cbv zeta.
  destruct (dict_get t name) as [h|]; [reflexivity|].
  destruct (dict_get t (py_rsplit1 "_" name)) as [h'|]; [|reflexivity].
  destruct (h_bitnames h'); reflexivity.
Qed.

Lemma g_var_to_twos_complement_eq : forall name t,
  g_var_to_twos_complement name (Some t) =
  match dict_get t name with Some h => var_names h | None => None end.
Proof.
  intros name t. unfold g_var_to_twos_complement, g__assert_var_in_table, dict_mem.
  destruct (dict_get t name) as [h|]; [|reflexivity]. cbv beta iota zeta.
  unfold var_names, g__append_sign_bit, check_width.
  destruct (String.eqb (h_type h) "bool"); [reflexivity|].
  destruct (h_bitnames h) as [bits|]; [|reflexivity]. cbv beta iota zeta.
  destruct (h_signed h) as [[|]|]; [| |reflexivity].
  - unfold py_len.
    match goal with |- context [(2 <=? ?n)%nat] => destruct (Nat.leb_spec 2 n) end;
    repeat match goal with |- context [?a <? ?b] => destruct (Z.ltb_spec a b) end;
    cbv beta iota;
    repeat match goal with |- context [?a >? ?b] => destruct (Z.gtb_spec a b) end;
    try reflexivity; exfalso; lia.
  - destruct (h_dom h) as [[lo hi]|]; [|reflexivity]. cbv beta iota zeta.
    destruct (lo * hi >=? 0); [|reflexivity].
    destruct (lo >=? 0); [|destruct (hi <? 0); [|reflexivity]]; cbv beta iota zeta;
      unfold py_len; rewrite app_length; cbn [length];
      match goal with |- context [(2 <=? ?n)%nat] => destruct (Nat.leb_spec 2 n) end;
      repeat match goal with |- context [?a >? ?b] => destruct (Z.gtb_spec a b) end;
      try reflexivity; exfalso; rewrite ?app_length in *; cbn [length] in *; lia.
Qed.

Section LeafBridge.
Variable defs : Type.
Variable defs_mem : defs -> string -> bool.
Variable var_id : string -> nat.
Variable ext_flatten def_flatten : pnode -> option (list bx) -> kwargs defs
                                   -> option (fres * option (list bx)).

Notation flat := (g_flatten defs defs_mem var_id ext_flatten def_flatten).

(* Num.flatten *)
Theorem num_flatten_is_model : forall fuel v mem kw r st,
  flat (S fuel) (PNode "Num" v []) mem kw = Some (r, st) ->
  exists z, py_int v = Some z /\ r = RBits (num_bits z) /\ st = mem.
Proof.
  intros fuel v mem kw r st H. cbn [g_flatten] in H.
  repeat match type of H with context [String.eqb ?a ?b] =>
    let x := eval vm_compute in (String.eqb a b) in
    match x with true => change (String.eqb a b) with true in H
               | false => change (String.eqb a b) with false in H end end.
  cbv beta iota in H. minv H. injection H as <- <-.
  match goal with E : g_int_to_twos_complement _ = Some _ |- _ =>
    apply g_int_to_twos_complement_ok in E; destruct E as (z & Ez & ->) end.
  exists z. split; [exact Ez|]. split; [|reflexivity].
  match goal with E : py_mapM _ _ = Some _ |- _ =>
    unfold num_names in E; rewrite token_bstr in E; injection E as <- end.
  reflexivity.
Qed.

(* Bool.flatten *)
Theorem bool_flatten_is_model : forall fuel v mem kw,
  (py_lower v = "true"%string ->
     flat (S fuel) (PNode "Bool" v []) mem kw = Some (RStr (XC true), mem)) /\
  (py_lower v = "false"%string ->
     flat (S fuel) (PNode "Bool" v []) mem kw = Some (RStr (XC false), mem)).
Proof.
  intros fuel v mem kw. split; intros E; cbn [g_flatten];
    repeat match goal with |- context [String.eqb ?a ?b] =>
      let x := eval vm_compute in (String.eqb a b) in
      match x with true => change (String.eqb a b) with true
                 | false => change (String.eqb a b) with false end end;
    cbv beta iota; rewrite E; reflexivity.
Qed.

(* Var.flatten for a name without a definition *)
Definition nodef (kw : kwargs defs) (name : string) : bool :=
  match k_defs kw with None => true | Some d => negb (defs_mem d name) end.

Lemma mapM_ext : forall A B (f g : A -> option B) l,
  (forall x, f x = g x) -> py_mapM f l = py_mapM g l.
Proof.
  intros A B f g l H. induction l as [|a l IH]; [reflexivity|]. cbn [py_mapM].
  now rewrite H, IH.
Qed.

Theorem var_flatten_is_model : forall fuel name mem kw t,
  k_t kw = Some t -> nodef kw name = true ->
  flat (S fuel) (PNode "Var" name []) mem kw =
  match d_var_flatten var_id t name (py_truth (k_prime kw)) with
  | Some r => Some (r, mem)
  | None => None
  end.
Proof.
  intros fuel name mem kw t Ht Hd. cbn [g_flatten].
  repeat match goal with |- context [String.eqb ?a ?b] =>
    let x := eval vm_compute in (String.eqb a b) in
    match x with true => change (String.eqb a b) with true
               | false => change (String.eqb a b) with false end end.
  cbv beta iota zeta. rewrite Ht.
  assert (D : (if negb (match k_defs kw with None => true | Some _ => false end)
               then match k_defs kw with Some d => Some (defs_mem d name) | None => None end
               else Some false) = Some false).
  { unfold nodef in Hd. destruct (k_defs kw) as [d|]; cbn [negb]; [|reflexivity].
    apply negb_true_iff in Hd. now rewrite Hd. }
  rewrite D. cbv beta iota. rewrite g__is_bool_var_eq. unfold d_var_flatten.
  destruct (is_bool_var t name) as [[|]|]; [| |reflexivity]; cbv beta iota.
  - replace (if py_truth (k_prime kw) then g_PRIME else ""%string)
      with (if py_truth (k_prime kw) then "'"%string else ""%string) by reflexivity.
    destruct (py_token var_id (name ++ (if py_truth (k_prime kw) then "'" else ""))%string);
      reflexivity.
  - unfold dict_mem. rewrite g_var_to_twos_complement_eq.
    destruct (dict_get t name) as [h|]; [|reflexivity]. cbv beta iota.
    destruct (var_names h) as [ns|]; [|reflexivity]. cbv beta iota zeta.
    erewrite (mapM_ext _ _ _ (prime_name (py_truth (k_prime kw)))).
    + destruct (py_mapM (prime_name (py_truth (k_prime kw))) ns) as [ps|]; [|reflexivity].
      cbv beta iota zeta. destruct (py_mapM (py_token var_id) ps); reflexivity.
    + intros b. unfold prime_name. destruct (py_truth (k_prime kw)); cbv beta iota zeta.
      * destruct (py_first_isdigit b) as [[|]|]; cbn [negb]; cbv beta iota zeta; try reflexivity.
        now rewrite append_nil_r.
      * now rewrite append_nil_r.
Qed.
End LeafBridge.
