(* L5Cover / BoxesProofs: the executable reference and checkers of Boxes.v are
   sound and complete for the property-level statements, for EVERY finite
   instance (ranges, f, care). *)
From Coq Require Import List ZArith Bool Lia Arith.
Import ListNotations.
From Omega Require Import L5Cover.Boxes.
Open Scope Z_scope.

(* ------------------------------------------------------------ short-circuit forms *)
Lemma anyb_existsb {A} (f : A -> bool) l : anyb f l = existsb f l.
Proof. induction l as [|a l IH]; cbn; [reflexivity|]. rewrite IH. destruct (f a); reflexivity. Qed.
Lemma allb_forallb {A} (f : A -> bool) l : allb f l = forallb f l.
Proof. induction l as [|a l IH]; cbn; [reflexivity|]. rewrite IH. destruct (f a); reflexivity. Qed.
Lemma if_andb (a b : bool) : (if a then b else false) = a && b.
Proof. destruct a; reflexivity. Qed.
Lemma if_orb (a b : bool) : (if a then true else b) = a || b.
Proof. destruct a; reflexivity. Qed.
Lemma if_imp (a b : bool) : (if a then b else true) = negb a || b.
Proof. destruct a; reflexivity. Qed.
Lemma if_negb_andb (a b : bool) : (if a then false else b) = negb a && b.
Proof. destruct a; reflexivity. Qed.

(* ------------------------------------------------------------ enumerations *)
Lemma zrange_from_In x lo n :
  In x (zrange_from lo n) <-> lo <= x < lo + Z.of_nat n.
Proof.
  revert lo. induction n as [|n IH]; intros lo; cbn [zrange_from In].
  - lia.
  - rewrite IH. lia.
Qed.

Lemma zrange_In x lo hi : In x (zrange lo hi) <-> lo <= x <= hi.
Proof.
  unfold zrange. rewrite zrange_from_In.
  destruct (Z_le_gt_dec lo hi).
  - rewrite Z2Nat.id by lia. lia.
  - replace (Z.to_nat (hi - lo + 1)) with O by lia. cbn. lia.
Qed.

Lemma zrange_from_NoDup lo n : NoDup (zrange_from lo n).
Proof.
  revert lo. induction n as [|n IH]; intros lo; cbn; constructor.
  - rewrite zrange_from_In. lia.
  - apply IH.
Qed.

Lemma grid_In rs p : In p (grid rs) <-> in_ranges rs p.
Proof.
  unfold in_ranges. revert p. induction rs as [|r rs IH]; intros p; cbn [grid].
  - split.
    + intros [<-|[]]. constructor.
    + intros H. inversion H. left. reflexivity.
  - rewrite in_flat_map. split.
    + intros [x [Hx Hp]]. apply in_map_iff in Hp. destruct Hp as [q [<- Hq]].
      constructor.
      * apply zrange_In in Hx. exact Hx.
      * apply IH, Hq.
    + intros H. inversion H as [|r' x rs' q Hx Hq]; subst.
      exists x. split.
      * apply zrange_In. exact Hx.
      * apply in_map, IH, Hq.
Qed.

Lemma ivals_In r i : In i (ivals r) <-> ival_in r i.
Proof.
  unfold ivals, ival_in. rewrite in_flat_map. split.
  - intros [a [Ha Hi]]. apply in_map_iff in Hi. destruct Hi as [b [<- Hb]].
    apply zrange_In in Ha. apply zrange_In in Hb. cbn. lia.
  - intros H. exists (fst i). split.
    + apply zrange_In. lia.
    + destruct i as [a b]. cbn in *. apply in_map. apply zrange_In. lia.
Qed.

Lemma boxes_In rs b : In b (boxes rs) <-> box_in rs b.
Proof.
  unfold box_in. revert b. induction rs as [|r rs IH]; intros b; cbn [boxes].
  - split.
    + intros [<-|[]]. constructor.
    + intros H. inversion H. left. reflexivity.
  - rewrite in_flat_map. split.
    + intros [i [Hi Hb]]. apply in_map_iff in Hb. destruct Hb as [c [<- Hc]].
      constructor; [apply ivals_In, Hi | apply IH, Hc].
    + intros H. inversion H as [|r' i rs' c Hi Hc]; subst.
      exists i. split; [apply ivals_In, Hi | apply in_map, IH, Hc].
Qed.

(* ------------------------------------------------------------ reflection *)
Lemma containsb_true b p : containsb b p = true <-> contains b p.
Proof.
  unfold contains. revert p. induction b as [|i b IH]; intros [|x p]; cbn [containsb].
  - split; [constructor | reflexivity].
  - split; [discriminate | intros H; inversion H].
  - split; [discriminate | intros H; inversion H].
  - rewrite !if_andb, !andb_true_iff, IH, !Z.leb_le. split.
    + intros [H1 [H2 H3]]. constructor; [split; assumption | assumption].
    + intros H. inversion H as [|? ? ? ? [H1 H2] H3]; subst. auto.
Qed.

Lemma box_leb_true b c : box_leb b c = true <-> box_le b c.
Proof.
  unfold box_le. revert c. induction b as [|i b IH]; intros [|j c]; cbn [box_leb].
  - split; [constructor | reflexivity].
  - split; [discriminate | intros H; inversion H].
  - split; [discriminate | intros H; inversion H].
  - rewrite !if_andb, !andb_true_iff, IH, !Z.leb_le. split.
    + intros [H1 [H2 H3]]. constructor; [split; assumption | assumption].
    + intros H. inversion H as [|? ? ? ? [H1 H2] H3]; subst. auto.
Qed.

Lemma box_eqb_true b c : box_eqb b c = true <-> b = c.
Proof.
  revert c. induction b as [|[a1 b1] b IH]; intros [|[a2 b2] c]; cbn [box_eqb fst snd].
  - split; reflexivity.
  - split; discriminate.
  - split; discriminate.
  - rewrite !if_andb, !andb_true_iff, IH, !Z.eqb_eq. split.
    + intros [-> [-> ->]]. reflexivity.
    + intros H. inversion H. auto.
Qed.

Lemma box_eqb_refl b : box_eqb b b = true.
Proof. apply box_eqb_true. reflexivity. Qed.

Lemma pt_eqb_true p q : pt_eqb p q = true <-> p = q.
Proof.
  revert q. induction p as [|x p IH]; intros [|y q]; cbn [pt_eqb].
  - split; reflexivity.
  - split; discriminate.
  - split; discriminate.
  - rewrite if_andb, andb_true_iff, IH, Z.eqb_eq. split.
    + intros [-> ->]. reflexivity.
    + intros H. inversion H. auto.
Qed.

Lemma mem_pt_true l p : mem_pt l p = true <-> In p l.
Proof.
  unfold mem_pt. rewrite anyb_existsb, existsb_exists. split.
  - intros [q [Hq E]]. apply pt_eqb_true in E. subst. exact Hq.
  - intros H. exists p. split; [exact H | apply pt_eqb_true; reflexivity].
Qed.

Lemma mem_box_true l b : mem_box l b = true <-> In b l.
Proof.
  unfold mem_box. rewrite anyb_existsb, existsb_exists. split.
  - intros [q [Hq E]]. apply box_eqb_true in E. subst. exact Hq.
  - intros H. exists b. split; [exact H | apply box_eqb_refl].
Qed.

Lemma box_eq_dec (b c : box) : {b = c} + {b <> c}.
Proof. repeat decide equality. Qed.

Lemma box_points_In b p : In p (box_points b) <-> contains b p.
Proof.
  unfold contains. revert p. induction b as [|i b IH]; intros p; cbn [box_points].
  - split.
    + intros [<-|[]]. constructor.
    + intros H. inversion H. left. reflexivity.
  - rewrite in_flat_map. split.
    + intros [x [Hx Hp]]. apply in_map_iff in Hp. destruct Hp as [q [<- Hq]].
      constructor; [apply zrange_In in Hx; exact Hx | apply IH, Hq].
    + intros H. inversion H as [|i' x b' q Hx Hq]; subst.
      exists x. split; [apply zrange_In; exact Hx | apply in_map, IH, Hq].
Qed.

Lemma nodupb_true l : nodupb l = true <-> NoDup l.
Proof.
  induction l as [|b l IH]; cbn [nodupb].
  - split; [constructor | reflexivity].
  - rewrite if_negb_andb, andb_true_iff, negb_true_iff, IH. split.
    + intros [H1 H2]. constructor; [|exact H2].
      intros Hin. apply mem_box_true in Hin. congruence.
    + intros H. inversion H as [|? ? H1 H2]; subst. split; [|exact H2].
      destruct (mem_box l b) eqn:E; [|reflexivity].
      apply mem_box_true in E. contradiction.
Qed.

Lemma inclb_true K K' : inclb K K' = true <-> incl K K'.
Proof.
  unfold inclb, incl. rewrite allb_forallb, forallb_forall. split; intros H b Hb.
  - apply mem_box_true, H, Hb.
  - apply mem_box_true, H, Hb.
Qed.

Lemma same_setb_true K K' : same_setb K K' = true <-> same_set K K'.
Proof.
  unfold same_setb, same_set. rewrite if_andb, andb_true_iff, !inclb_true. reflexivity.
Qed.

Lemma same_set_refl K : same_set K K.
Proof. split; apply incl_refl. Qed.
Lemma same_set_sym K K' : same_set K K' -> same_set K' K.
Proof. intros [H1 H2]. split; assumption. Qed.
Lemma same_set_trans K1 K2 K3 :
  same_set K1 K2 -> same_set K2 K3 -> same_set K1 K3.
Proof. intros [A B] [C D]. split; eapply incl_tran; eassumption. Qed.

(* boxes contained in the ranges only contain points of the ranges *)
Lemma contains_in_ranges rs b p : box_in rs b -> contains b p -> in_ranges rs p.
Proof.
  unfold box_in, contains, in_ranges. intros H. revert p.
  induction H as [|r i rs b Hi Hb IH]; intros p Hp; inversion Hp; subst.
  - constructor.
  - constructor; [|apply IH; assumption].
    unfold ival_in, in_ival in *. lia.
Qed.

(* the order of the code is inclusion of the denoted point sets *)
Lemma box_le_incl b c : box_le b c -> box_incl b c.
Proof.
  unfold box_le, box_incl, contains. intros H. induction H as [|i j b c Hij Hbc IH];
    intros p Hp; inversion Hp; subst; constructor.
  - unfold ival_le, in_ival in *. lia.
  - apply IH. assumption.
Qed.

Definition lo_corner (b : box) : point := map fst b.
Definition hi_corner (b : box) : point := map snd b.

Lemma box_incl_le rs b c :
  box_in rs b -> length c = length b -> box_incl b c -> box_le b c.
Proof.
  unfold box_in, box_incl, box_le, contains. intros Hb. revert c.
  induction Hb as [|r i rs b Hi Hb IH]; intros [|j c] Hlen Hinc; try discriminate.
  - constructor.
  - assert (Hlo : Forall2 in_ival b (lo_corner b)).
    { clear -Hb. induction Hb as [|? ? ? ? Hi ? ?]; cbn; constructor; [|assumption].
      unfold ival_in, in_ival in *. lia. }
    constructor.
    + pose proof (Hinc (fst i :: lo_corner b)) as H1.
      pose proof (Hinc (snd i :: lo_corner b)) as H2.
      unfold ival_in in Hi.
      assert (A : Forall2 in_ival (i :: b) (fst i :: lo_corner b)).
      { constructor; [unfold in_ival; lia | exact Hlo]. }
      assert (B : Forall2 in_ival (i :: b) (snd i :: lo_corner b)).
      { constructor; [unfold in_ival; lia | exact Hlo]. }
      specialize (H1 A). specialize (H2 B).
      inversion H1; inversion H2; subst. unfold ival_le, in_ival in *. lia.
    + apply IH.
      * cbn in Hlen. lia.
      * intros p Hp.
        assert (A : Forall2 in_ival (i :: b) (fst i :: p)).
        { constructor; [unfold ival_in, in_ival in *; lia | exact Hp]. }
        specialize (Hinc _ A). inversion Hinc; subst. assumption.
Qed.

(* ------------------------------------------------------------ instance level *)
Section Proofs.
Variable rs : ranges.
Variables f care : point -> bool.

Local Notation implicant := (implicant rs f care).
Local Notation prime := (prime rs f care).
Local Notation covers := (covers rs f).
Local Notation prime_cover := (prime_cover rs f care).
Local Notation min_prime_cover := (min_prime_cover rs f care).
Local Notation implicantb := (implicantb f care).
Local Notation implicants := (implicants rs f care).
Local Notation primes := (primes rs f care).
Local Notation fpoints := (fpoints rs f).
Local Notation coversb := (coversb rs f).

Lemma implicantb_true b : box_in rs b -> (implicantb b = true <-> implicant b).
Proof.
  intros Hb. unfold Boxes.implicantb, Boxes.implicant.
  rewrite allb_forallb, forallb_forall. split.
  - intros H. split; [exact Hb|]. intros p Hp.
    apply box_points_In in Hp. specialize (H p Hp). rewrite if_orb in H.
    apply orb_true_iff in H. destruct H as [H|H]; [left; exact H|].
    right. apply negb_true_iff. exact H.
  - intros [_ H] p Hp. apply box_points_In in Hp. rewrite if_orb.
    destruct (H p Hp) as [E|E]; rewrite E; [reflexivity|].
    apply orb_true_r.
Qed.

Lemma implicants_In b : In b implicants <-> implicant b.
Proof.
  unfold Boxes.implicants. rewrite filter_In, boxes_In. split.
  - intros [Hb H]. apply implicantb_true; assumption.
  - intros H. split; [apply H|]. apply implicantb_true; [apply H | exact H].
Qed.

Lemma primes_In b : In b primes <-> prime b.
Proof.
  unfold Boxes.primes, Boxes.prime. cbv zeta. rewrite filter_In, implicants_In.
  unfold maximal_in. rewrite allb_forallb, forallb_forall. split.
  - intros [Hb H]. split; [exact Hb|]. intros c Hc Hle.
    specialize (H c (proj2 (implicants_In c) Hc)). rewrite if_imp in H.
    apply orb_true_iff in H. destruct H as [H|H].
    + apply negb_true_iff in H. apply box_leb_true in Hle. congruence.
    + apply box_eqb_true. exact H.
  - intros [Hb H]. split; [exact Hb|]. intros c Hc.
    apply implicants_In in Hc.
    destruct (box_leb b c) eqn:E; [|reflexivity]. cbn.
    apply box_eqb_true. apply H; [exact Hc|]. apply box_leb_true. exact E.
Qed.

Lemma fpoints_In p : In p fpoints <-> in_ranges rs p /\ f p = true.
Proof. unfold Boxes.fpoints. rewrite filter_In, grid_In. reflexivity. Qed.

Definition covers_pts (K : list box) (unc : list point) : Prop :=
  forall p, In p unc -> exists b, In b K /\ contains b p.

Lemma covers_fpoints K : covers K <-> covers_pts K fpoints.
Proof.
  unfold Boxes.covers, covers_pts. split.
  - intros H p Hp. apply fpoints_In in Hp. apply H; apply Hp.
  - intros H p Hr Hf. apply H. apply fpoints_In. split; assumption.
Qed.

Lemma coversb_true K : coversb K = true <-> covers K.
Proof.
  rewrite covers_fpoints. unfold Boxes.coversb, covers_pts.
  rewrite allb_forallb, forallb_forall. split; intros H p Hp; specialize (H p Hp).
  - rewrite anyb_existsb in H. apply existsb_exists in H. destruct H as [b [Hb Hc]].
    exists b. split; [exact Hb | apply containsb_true, Hc].
  - rewrite anyb_existsb. apply existsb_exists. destruct H as [b [Hb Hc]].
    exists b. split; [exact Hb | apply containsb_true, Hc].
Qed.

(* ------------------------------------------------------------ coverable *)
Lemma uncovered_In b unc q :
  In q (uncovered b unc) <-> In q unc /\ ~ contains b q.
Proof.
  unfold uncovered. rewrite filter_In, negb_true_iff. split.
  - intros [H1 H2]. split; [exact H1|]. intros Hc.
    apply containsb_true in Hc. congruence.
  - intros [H1 H2]. split; [exact H1|].
    destruct (containsb b q) eqn:E; [|reflexivity].
    apply containsb_true in E. contradiction.
Qed.

Lemma coverable_sound ps k unc :
  coverable ps k unc = true ->
  exists K, incl K ps /\ (length K <= k)%nat /\ covers_pts K unc.
Proof.
  revert unc. induction k as [|k IH]; intros unc H.
  - destruct unc as [|p unc]; cbn in H; [|discriminate].
    exists []. split; [apply incl_nil_l|]. split; [cbn; lia|]. intros p [].
  - destruct unc as [|p unc].
    + exists []. split; [apply incl_nil_l|]. split; [cbn; lia|]. intros p [].
    + cbn [coverable] in H. rewrite anyb_existsb in H. apply existsb_exists in H.
      destruct H as [b [Hb H]]. rewrite if_andb in H.
      apply andb_true_iff in H. destruct H as [Hc H].
      apply IH in H. destruct H as [K [HK [Hlen Hcov]]].
      exists (b :: K). split; [|split].
      * intros c [<-|Hc']; [exact Hb | apply HK, Hc'].
      * cbn. lia.
      * intros q Hq. destruct (containsb b q) eqn:E.
        -- exists b. split; [left; reflexivity | apply containsb_true, E].
        -- destruct (Hcov q) as [c [Hc1 Hc2]].
           { apply uncovered_In. split; [exact Hq|]. intros Hq'.
             apply containsb_true in Hq'. congruence. }
           exists c. split; [right; exact Hc1 | exact Hc2].
Qed.

Lemma coverable_complete ps k unc K :
  incl K ps -> covers_pts K unc -> (length K <= k)%nat ->
  coverable ps k unc = true.
Proof.
  revert unc K. induction k as [|k IH]; intros unc K HK Hcov Hlen.
  - destruct unc as [|p unc]; [reflexivity|].
    destruct (Hcov p (or_introl eq_refl)) as [b [Hb _]].
    destruct K; [destruct Hb | cbn in Hlen; lia].
  - destruct unc as [|p unc]; [reflexivity|].
    cbn [coverable]. rewrite anyb_existsb. apply existsb_exists.
    destruct (Hcov p (or_introl eq_refl)) as [b [Hb Hc]].
    exists b. split; [apply HK, Hb|]. rewrite if_andb.
    apply andb_true_iff. split; [apply containsb_true, Hc|].
    apply (IH _ (remove box_eq_dec b K)).
    + intros c Hc'. apply in_remove in Hc'. apply HK, Hc'.
    + intros q Hq. apply uncovered_In in Hq. destruct Hq as [Hq Hnb].
      destruct (Hcov q Hq) as [c [Hc1 Hc2]].
      exists c. split; [|exact Hc2].
      apply in_in_remove; [|exact Hc1]. intros ->. contradiction.
    + pose proof (remove_length_lt box_eq_dec K b Hb). lia.
Qed.

Lemma coverable_mono ps k k' unc :
  (k <= k')%nat -> coverable ps k unc = true -> coverable ps k' unc = true.
Proof.
  intros Hk H. apply coverable_sound in H. destruct H as [K [A [B C]]].
  apply (coverable_complete ps k' unc K); [assumption|assumption|lia].
Qed.

Lemma find_cover_sound ps k unc K :
  find_cover ps k unc = Some K ->
  incl K ps /\ (length K <= k)%nat /\ covers_pts K unc.
Proof.
  revert unc K. induction k as [|k IH]; intros unc K H.
  - destruct unc as [|p unc]; cbn in H; [|discriminate].
    inversion H; subst. split; [apply incl_nil_l|]. split; [cbn; lia|]. intros p [].
  - destruct unc as [|p unc].
    + cbn in H. inversion H; subst.
      split; [apply incl_nil_l|]. split; [cbn; lia|]. intros p [].
    + cbn [find_cover] in H.
      set (go := fix go (l : list box) : option (list box) :=
             match l with
             | [] => None
             | b :: l' =>
                 if containsb b p then
                   match find_cover ps k (uncovered b (p :: unc)) with
                   | Some K => Some (b :: K)
                   | None => go l'
                   end
                 else go l'
             end) in H.
      assert (G : forall l, incl l ps -> go l = Some K ->
                  incl K ps /\ (length K <= S k)%nat /\ covers_pts K (p :: unc)).
      { clear H. induction l as [|b l IHl]; intros Hl H; [discriminate|].
        cbn [go] in H.
        assert (Hl' : incl l ps) by (intros c Hc; apply Hl; right; exact Hc).
        destruct (containsb b p) eqn:Ec; [|apply IHl; assumption].
        destruct (find_cover ps k (uncovered b (p :: unc))) as [K0|] eqn:E;
          [|apply IHl; assumption].
        inversion H; subst. apply IH in E. destruct E as [A [B C]].
        split; [|split].
        - intros c [<-|Hc']; [apply Hl; left; reflexivity | apply A, Hc'].
        - cbn. lia.
        - intros q Hq. destruct (containsb b q) eqn:E.
          + exists b. split; [left; reflexivity | apply containsb_true, E].
          + destruct (C q) as [c [Hc1 Hc2]].
            { apply uncovered_In. split; [exact Hq|]. intros Hq'.
              apply containsb_true in Hq'. congruence. }
            exists c. split; [right; exact Hc1 | exact Hc2]. }
      apply (G ps); [apply incl_refl | exact H].
Qed.

Lemma find_cover_complete ps k unc :
  coverable ps k unc = true -> exists K, find_cover ps k unc = Some K.
Proof.
  revert unc. induction k as [|k IH]; intros unc H.
  - destruct unc; cbn in *; [eexists; reflexivity | discriminate].
  - destruct unc as [|p unc]; [eexists; reflexivity|].
    cbn [coverable] in H. cbn [find_cover].
    set (go := fix go (l : list box) : option (list box) :=
           match l with
           | [] => None
           | b :: l' =>
               if containsb b p then
                 match find_cover ps k (uncovered b (p :: unc)) with
                 | Some K => Some (b :: K)
                 | None => go l'
                 end
               else go l'
           end).
    assert (G : forall l,
      anyb (fun b => if containsb b p
                     then coverable ps k (uncovered b (p :: unc)) else false) l = true ->
      exists K, go l = Some K); [|apply G, H].
    clear H. induction l as [|b l IHl]; intros H; [discriminate|].
    cbn [anyb] in H. cbn [go].
    destruct (containsb b p) eqn:Ec.
    + destruct (coverable ps k (uncovered b (p :: unc))) eqn:E.
      * apply IH in E. destruct E as [K0 ->]. eexists; reflexivity.
      * destruct (find_cover ps k (uncovered b (p :: unc))); [eexists; reflexivity|].
        apply IHl. exact H.
    + apply IHl. exact H.
Qed.

(* ------------------------------------------------------------ minimum size *)
Lemma min_size_from_Some ps unc k0 fuel k :
  min_size_from ps unc k0 fuel = Some k ->
  coverable ps k unc = true /\ (k0 <= k)%nat /\
  forall j, (k0 <= j < k)%nat -> coverable ps j unc = false.
Proof.
  revert k0. induction fuel as [|fuel IH]; intros k0 H; cbn [min_size_from] in H.
  - destruct (coverable ps k0 unc) eqn:E; [|discriminate].
    inversion H; subst. split; [exact E|]. split; [lia|]. intros j Hj. lia.
  - destruct (coverable ps k0 unc) eqn:E.
    + inversion H; subst. split; [exact E|]. split; [lia|]. intros j Hj. lia.
    + apply IH in H. destruct H as [A [B C]]. split; [exact A|]. split; [lia|].
      intros j Hj. destruct (Nat.eq_dec j k0) as [->|Hne]; [exact E|].
      apply C. lia.
Qed.

Lemma min_size_from_None ps unc k0 fuel :
  min_size_from ps unc k0 fuel = None ->
  forall j, (k0 <= j <= k0 + fuel)%nat -> coverable ps j unc = false.
Proof.
  revert k0. induction fuel as [|fuel IH]; intros k0 H j Hj; cbn [min_size_from] in H.
  - destruct (coverable ps k0 unc) eqn:E; [discriminate|].
    replace j with k0 by lia. exact E.
  - destruct (coverable ps k0 unc) eqn:E; [discriminate|].
    destruct (Nat.eq_dec j k0) as [->|Hne]; [exact E|].
    apply (IH (S k0) H). lia.
Qed.

(* a prime cover can be shrunk to a duplicate-free one inside [primes] *)
Lemma prime_cover_incl K : prime_cover K -> incl K primes.
Proof. intros [H _] b Hb. apply primes_In, H, Hb. Qed.

Lemma incl_primes_prime_cover K :
  incl K primes -> covers_pts K fpoints -> prime_cover K.
Proof.
  intros H C. split; [|apply covers_fpoints, C].
  intros b Hb. apply primes_In, H, Hb.
Qed.


Lemma nodup_length_le (l : list box) :
  (length (nodup box_eq_dec l) <= length l)%nat.
Proof.
  induction l as [|a l IH]; cbn [nodup]; [lia|].
  destruct (in_dec box_eq_dec a l); cbn [length]; lia.
Qed.

Lemma nodup_length_lt (l : list box) :
  ~ NoDup l -> (length (nodup box_eq_dec l) < length l)%nat.
Proof.
  induction l as [|a l IH]; intros H.
  - exfalso. apply H. constructor.
  - cbn [nodup]. destruct (in_dec box_eq_dec a l) as [Hin|Hnin].
    + pose proof (nodup_length_le l). cbn [length]. lia.
    + cbn [length]. assert (~ NoDup l) as H'.
      { intros Hn. apply H. constructor; assumption. }
      specialize (IH H'). lia.
Qed.

Lemma nodup_cover K unc :
  covers_pts K unc -> covers_pts (nodup box_eq_dec K) unc.
Proof.
  intros H p Hp. destruct (H p Hp) as [b [A B]].
  exists b. split; [apply nodup_In, A | exact B].
Qed.

Lemma prime_cover_coverable K k :
  prime_cover K -> (length K <= k)%nat -> coverable primes k fpoints = true.
Proof.
  intros H L. apply (coverable_complete _ _ _ K);
    [apply prime_cover_incl, H | apply covers_fpoints, H | exact L].
Qed.

Lemma coverable_prime_cover k :
  coverable primes k fpoints = true ->
  exists K, prime_cover K /\ (length K <= k)%nat.
Proof.
  intros H. apply coverable_sound in H. destruct H as [K [A [B C]]].
  exists K. split; [apply incl_primes_prime_cover; assumption | exact B].
Qed.

(* a cover that cannot be undercut has no repeated box *)
Lemma tight_cover_NoDup K :
  prime_cover K ->
  (forall j, (j < length K)%nat -> coverable primes j fpoints = false) ->
  NoDup K.
Proof.
  intros HK Hmin. destruct (nodupb K) eqn:Enb; [apply nodupb_true, Enb|].
  assert (H : ~ NoDup K) by (intros Hn; apply nodupb_true in Hn; congruence).
  exfalso. apply nodup_length_lt in H.
  assert (P : prime_cover (nodup box_eq_dec K)).
  { destruct HK as [A B]. split.
    - intros b Hb. apply A. apply nodup_In in Hb. exact Hb.
    - apply covers_fpoints, nodup_cover, covers_fpoints, B. }
  pose proof (prime_cover_coverable _ _ P (le_n _)) as C.
  rewrite (Hmin _ H) in C. discriminate.
Qed.

(* ------------------------------------------------------------ C09 checker *)
Theorem is_min_prime_cover_b_correct K :
  is_min_prime_cover_b rs f care K = true <-> min_prime_cover K.
Proof.
  unfold is_min_prime_cover_b, Boxes.min_prime_cover. cbv zeta.
  rewrite !if_andb, !andb_true_iff, nodupb_true, coversb_true, allb_forallb,
    forallb_forall. split.
  - intros [Hnd [Hpr [Hcov Hmin]]]. split; [exact Hnd|].
    assert (PC : prime_cover K).
    { split; [|exact Hcov]. intros b Hb. apply primes_In, mem_box_true, Hpr, Hb. }
    split; [exact PC|]. intros K' HK'.
    destruct (length K) as [|n] eqn:E; [lia|].
    destruct (le_lt_dec (S n) (length K')) as [L|L]; [exact L|].
    exfalso. apply negb_true_iff in Hmin.
    rewrite (prime_cover_coverable K' n HK') in Hmin; [discriminate | lia].
  - intros [Hnd [[Hpr Hcov] Hmin]]. repeat split; try assumption.
    + intros b Hb. apply mem_box_true, primes_In, Hpr, Hb.
    + destruct (length K) as [|n] eqn:E; [reflexivity|].
      apply negb_true_iff. destruct (coverable primes n fpoints) eqn:C; [|reflexivity].
      exfalso. apply coverable_prime_cover in C. destruct C as [K' [P L]].
      specialize (Hmin K' P). lia.
Qed.

(* ------------------------------------------------------------ reference *)
Lemma min_size_exists K :
  prime_cover K ->
  exists k, min_size_from primes fpoints 0 (length primes) = Some k.
Proof.
  intros HK.
  destruct (min_size_from primes fpoints 0 (length primes)) as [k|] eqn:E;
    [eexists; reflexivity|].
  exfalso.
  assert (P : prime_cover (nodup box_eq_dec K)).
  { destruct HK as [A B]. split.
    - intros b Hb. apply A. apply nodup_In in Hb. exact Hb.
    - apply covers_fpoints, nodup_cover, covers_fpoints, B. }
  assert (L : (length (nodup box_eq_dec K) <= length primes)%nat).
  { apply NoDup_incl_length; [apply NoDup_nodup | apply prime_cover_incl, P]. }
  pose proof (prime_cover_coverable _ _ P L) as C.
  rewrite (min_size_from_None _ _ _ _ E) in C; [discriminate | lia].
Qed.

Lemma min_size_spec k :
  min_size_from primes fpoints 0 (length primes) = Some k ->
  coverable primes k fpoints = true /\
  forall K, prime_cover K -> (k <= length K)%nat.
Proof.
  intros E. apply min_size_from_Some in E. destruct E as [A [_ C]].
  split; [exact A|]. intros K HK.
  destruct (le_lt_dec k (length K)) as [L|L]; [exact L|]. exfalso.
  pose proof (prime_cover_coverable _ _ HK (le_n _)) as D.
  rewrite C in D; [discriminate | lia].
Qed.

Theorem min_cover_size_correct :
  match min_cover_size rs f care with
  | Some k => (exists K, prime_cover K /\ length K = k) /\
              (forall K, prime_cover K -> (k <= length K)%nat)
  | None => forall K, ~ prime_cover K
  end.
Proof.
  unfold min_cover_size. cbv zeta.
  destruct (min_size_from primes fpoints 0 (length primes)) as [k|] eqn:E.
  - destruct (min_size_spec k E) as [A B]. split; [|exact B].
    apply coverable_prime_cover in A. destruct A as [K [P L]].
    exists K. split; [exact P|]. specialize (B K P). lia.
  - intros K HK. destruct (min_size_exists K HK) as [k Hk]. congruence.
Qed.

Theorem min_cover_ref_correct :
  match min_cover_ref rs f care with
  | Some K => min_prime_cover K
  | None => forall K, ~ prime_cover K
  end.
Proof.
  unfold min_cover_ref. cbv zeta.
  destruct (min_size_from primes fpoints 0 (length primes)) as [k|] eqn:E.
  - destruct (min_size_spec k E) as [A B].
    destruct (find_cover_complete _ _ _ A) as [K HK]. rewrite HK.
    apply find_cover_sound in HK. destruct HK as [H1 [H2 H3]].
    assert (P : prime_cover K) by (apply incl_primes_prime_cover; assumption).
    pose proof (B K P) as H4.
    split; [|split; [exact P|]].
    + apply tight_cover_NoDup; [exact P|]. intros j Hj.
      apply min_size_from_Some in E. apply E. lia.
    + intros K' HK'. specialize (B K' HK'). lia.
  - intros K HK. destruct (min_size_exists K HK) as [k Hk]. congruence.
Qed.

(* ------------------------------------------------------------ all covers *)
Lemma nil_cover_facts ps k :
  incl (@nil box) ps /\ (length (@nil box) <= k)%nat /\ covers_pts [] [] /\
  NoDup (@nil box) /\
  (forall b, In b (@nil box) -> exists q, In q (@nil point) /\ contains b q).
Proof.
  split; [apply incl_nil_l|]. split; [cbn; lia|]. split; [intros ? []|].
  split; [constructor | intros ? []].
Qed.

Lemma all_covers_sound ps k unc K :
  In K (all_covers ps k unc) ->
  incl K ps /\ (length K <= k)%nat /\ covers_pts K unc /\ NoDup K /\
  (forall b, In b K -> exists q, In q unc /\ contains b q).
Proof.
  revert unc K. induction k as [|k IH]; intros unc K H.
  - destruct unc as [|p unc]; cbn in H; [|destruct H].
    destruct H as [<-|[]]. apply nil_cover_facts.
  - destruct unc as [|p unc].
    + cbn in H. destruct H as [<-|[]]. apply nil_cover_facts.
    + cbn [all_covers] in H. apply in_flat_map in H. destruct H as [b [Hb H]].
      destruct (containsb b p) eqn:Ec; [|destruct H].
      apply in_map_iff in H. destruct H as [K0 [<- H0]].
      apply IH in H0. destruct H0 as [A [B [C [D E]]]].
      split; [|split; [|split; [|split]]].
      * intros c [<-|Hc]; [exact Hb | apply A, Hc].
      * cbn. lia.
      * intros q Hq. destruct (containsb b q) eqn:Eq.
        -- exists b. split; [left; reflexivity | apply containsb_true, Eq].
        -- destruct (C q) as [c [Hc1 Hc2]].
           { apply uncovered_In. split; [exact Hq|]. intros Hq'.
             apply containsb_true in Hq'. congruence. }
           exists c. split; [right; exact Hc1 | exact Hc2].
      * constructor; [|exact D]. intros Hin.
        destruct (E b Hin) as [q [Hq1 Hq2]]. apply uncovered_In in Hq1.
        destruct Hq1 as [_ Hn]. contradiction.
      * intros c [<-|Hc].
        -- exists p. split; [left; reflexivity | apply containsb_true, Ec].
        -- destruct (E c Hc) as [q [Hq1 Hq2]]. apply uncovered_In in Hq1.
           exists q. split; [apply Hq1 | exact Hq2].
Qed.

Lemma all_covers_complete ps k unc K :
  incl K ps -> covers_pts K unc -> (length K <= k)%nat ->
  exists K', In K' (all_covers ps k unc) /\ incl K' K.
Proof.
  revert unc K. induction k as [|k IH]; intros unc K HK Hcov Hlen.
  - destruct unc as [|p unc].
    + exists []. split; [left; reflexivity | apply incl_nil_l].
    + destruct (Hcov p (or_introl eq_refl)) as [b [Hb _]].
      destruct K; [destruct Hb | cbn in Hlen; lia].
  - destruct unc as [|p unc].
    + exists []. split; [left; reflexivity | apply incl_nil_l].
    + destruct (Hcov p (or_introl eq_refl)) as [b [Hb Hc]].
      destruct (IH (uncovered b (p :: unc)) (remove box_eq_dec b K)) as [K' [H1 H2]].
      * intros c Hc'. apply in_remove in Hc'. apply HK, Hc'.
      * intros q Hq. apply uncovered_In in Hq. destruct Hq as [Hq Hnb].
        destruct (Hcov q Hq) as [c [Hc1 Hc2]].
        exists c. split; [|exact Hc2].
        apply in_in_remove; [|exact Hc1]. intros ->. contradiction.
      * pose proof (remove_length_lt box_eq_dec K b Hb). lia.
      * exists (b :: K'). split.
        -- cbn [all_covers]. apply in_flat_map. exists b. split; [apply HK, Hb|].
           apply containsb_true in Hc. rewrite Hc. apply in_map, H1.
        -- intros c [<-|Hc']; [exact Hb|].
           apply H2 in Hc'. apply in_remove in Hc'. apply Hc'.
Qed.

Lemma dedup_sets_In l K : In K (dedup_sets l) -> In K l.
Proof.
  induction l as [|K0 l IH]; cbn [dedup_sets]; [intros []|].
  destruct (anyb (same_setb K0) (dedup_sets l)).
  - intros H. right. apply IH, H.
  - intros [<-|H]; [left; reflexivity | right; apply IH, H].
Qed.

Lemma dedup_sets_complete l K :
  In K l -> exists K', In K' (dedup_sets l) /\ same_set K K'.
Proof.
  induction l as [|K0 l IH]; [intros []|]. cbn [dedup_sets].
  intros [<-|H].
  - destruct (anyb (same_setb K0) (dedup_sets l)) eqn:E.
    + rewrite anyb_existsb in E. apply existsb_exists in E. destruct E as [K' [A B]].
      exists K'. split; [exact A | apply same_setb_true, B].
    + exists K0. split; [left; reflexivity | apply same_set_refl].
  - destruct (IH H) as [K' [A B]]. exists K'. split; [|exact B].
    destruct (anyb (same_setb K0) (dedup_sets l)); [exact A | right; exact A].
Qed.

Lemma min_prime_cover_same_set K K' :
  min_prime_cover K -> NoDup K' -> same_set K K' -> min_prime_cover K'.
Proof.
  intros [Hnd [[Hpr Hcov] Hmin]] Hnd' [H1 H2]. split; [exact Hnd'|]. split.
  - split.
    + intros b Hb. apply Hpr, H2, Hb.
    + intros p Hr Hf. destruct (Hcov p Hr Hf) as [b [A B]].
      exists b. split; [apply H1, A | exact B].
  - intros K'' HK''. specialize (Hmin K'' HK'').
    pose proof (NoDup_incl_length Hnd' H2). lia.
Qed.

Theorem all_min_covers_ref_correct :
  all_min_prime_covers rs f care (all_min_covers_ref rs f care).
Proof.
  unfold all_min_prime_covers, all_min_covers_ref. cbv zeta.
  destruct (min_size_from primes fpoints 0 (length primes)) as [k|] eqn:E.
  - destruct (min_size_spec k E) as [A B]. split.
    + intros K HK. apply dedup_sets_In in HK. apply all_covers_sound in HK.
      destruct HK as [H1 [H2 [H3 [H4 _]]]].
      assert (P : prime_cover K) by (apply incl_primes_prime_cover; assumption).
      split; [exact H4|]. split; [exact P|].
      intros K' HK'. specialize (B K' HK'). lia.
    + intros K [Hnd [P Hmin]].
      assert (L : (length K <= k)%nat).
      { apply coverable_prime_cover in A. destruct A as [K0 [P0 L0]].
        specialize (Hmin K0 P0). lia. }
      destruct (all_covers_complete primes k fpoints K) as [K1 [H1 H2]];
        [apply prime_cover_incl, P | apply covers_fpoints, P | exact L |].
      destruct (dedup_sets_complete _ _ H1) as [K2 [H3 H4]].
      exists K2. split; [exact H3|].
      apply same_set_trans with K1; [|exact H4].
      apply all_covers_sound in H1. destruct H1 as [G1 [G2 [G3 [G4 _]]]].
      assert (P1 : prime_cover K1) by (apply incl_primes_prime_cover; assumption).
      split; [|exact H2].
      apply NoDup_length_incl; [exact G4 | apply Hmin, P1 | exact H2].
  - split; [intros K []|].
    intros K [_ [P _]]. destruct (min_size_exists K P) as [k Hk]. congruence.
Qed.

(* ------------------------------------------------------------ C10 checker *)
Theorem is_all_min_covers_b_correct R :
  is_all_min_covers_b rs f care R = true <-> all_min_prime_covers rs f care R.
Proof.
  pose proof all_min_covers_ref_correct as [RA RB].
  unfold is_all_min_covers_b, same_familyb.
  rewrite !if_andb, !andb_true_iff, !allb_forallb, !forallb_forall. split.
  - intros [Hnd [H1 H2]]. split.
    + intros K HK. specialize (H1 K HK). rewrite anyb_existsb in H1.
      apply existsb_exists in H1.
      destruct H1 as [K' [A B]]. apply same_setb_true in B.
      apply (min_prime_cover_same_set K'); [apply RA, A | | apply same_set_sym, B].
      apply nodupb_true, Hnd, HK.
    + intros K HK. destruct (RB K HK) as [K' [A B]].
      specialize (H2 K' A). rewrite anyb_existsb in H2. apply existsb_exists in H2.
      destruct H2 as [K'' [C D]]. apply same_setb_true in D.
      exists K''. split; [exact C | eapply same_set_trans; eassumption].
  - intros [HA HB]. split; [|split].
    + intros K HK. apply nodupb_true. apply (HA K HK).
    + intros K HK. rewrite anyb_existsb. apply existsb_exists.
      destruct (RB K (HA K HK)) as [K' [A B]].
      exists K'. split; [exact A | apply same_setb_true, B].
    + intros K HK. rewrite anyb_existsb. apply existsb_exists.
      destruct (HB K (RA K HK)) as [K' [A B]].
      exists K'. split; [exact A | apply same_setb_true, B].
Qed.
End Proofs.
