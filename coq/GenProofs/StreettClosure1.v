(* Model level: whenever the environment keeps its action, a step allowed by
   the synthesized Streett action lands in the winning region or in one of
   the recorded iterates (arbitrary iterate lists). *)
From Coq Require Import List Bool Arith Lia.
Import ListNotations.
From Omega Require Import L4.Arena L4.ArenaFacts L4.Kleene L4.GameSpec.
From OmegaGen Require Import FixpointGen Gr1Gen.
From OmegaGP Require Import TransducerModel CaSpec StreettTProofs StreettNB1.

Definition nextpt (v : V) : V := mkV (vc v) (vxp v) (vyp v) (vxp v) (vyp v).

Section Closure1.
Variables nc nx ny G : nat.
Variables E S : bdd.
Variables holds goals : list bdd.
Variables moore plus_one : bool.
Variables (z : bdd) (yij : list (list bdd)) (xijk : list (list (list bdd))).

Local Notation nyE := (ny * G).
Local Notation band := (Arena.band nc nx nyE).
Local Notation bor := (Arena.bor nc nx nyE).
Local Notation bnot := (Arena.bnot nc nx nyE).
Local Notation inr := (inr nc nx nyE).
Local Notation ca := (Gr1Gen.controllable_action nc nx nyE E S moore plus_one 0).

(* the point reached belongs to the region or to some recorded iterate *)
Definition Q (w : V) : Prop :=
  z w = true \/
  (exists yj y, In yj yij /\ In y yj /\ y w = true) \/
  (exists xjk xk x, In xjk xijk /\ In xk xjk /\ In x xk /\ x w = true).

Definition Hit (P : V -> Prop) (u : bdd) : Prop :=
  forall v, inr v -> u v = true -> E v = true -> P (nextpt v).

Lemma Hit_bor P a b : Hit P a -> Hit P b -> Hit P (bor a b).
Proof.
  intros Ha Hb v Hv. rewrite bor_spec, orb_true_iff. intros [H|H] He; [apply Ha|apply Hb]; assumption.
Qed.
Lemma Hit_band_l P a b : Hit P a -> Hit P (band a b).
Proof. intros Ha v Hv. rewrite band_spec, andb_true_iff. intros [H _]. apply Ha; assumption. Qed.
Lemma Hit_band_r P a b : Hit P b -> Hit P (band a b).
Proof. intros Hb v Hv. rewrite band_spec, andb_true_iff. intros [_ H]. apply Hb; assumption. Qed.
Lemma Hit_bfalse P : Hit P bfalse.
Proof. intros v _ H. discriminate. Qed.
Lemma Hit_weaken (P P' : V -> Prop) u : (forall w, P w -> P' w) -> Hit P u -> Hit P' u.
Proof. intros H Hu v Hv Huv He. apply H, Hu; assumption. Qed.

Lemma inr_vxp' v : inr v -> In (vxp v) (seq 0 nx).
Proof.
  intros Hv. apply in_seq. unfold Kleene.inr, in_range in Hv.
  repeat rewrite andb_true_iff in Hv. repeat rewrite Nat.ltb_lt in Hv. lia.
Qed.

Lemma Hit_ca T e : Hit (fun w => T w = true) (ca T e).
Proof.
  intros v Hv Hc He. rewrite ca_is_spec in Hc. unfold ca_spec in Hc.
  assert (Hpsi : psi E S plus_one T e v = true).
  { destruct moore; [|exact Hc]. rewrite forallb_forall in Hc.
    specialize (Hc _ (inr_vxp' v Hv)).
    replace (setg Envp v (vxp v)) with v in Hc by (destruct v; reflexivity). exact Hc. }
  unfold psi in Hpsi. fold (nextpt v) in Hpsi. rewrite He in Hpsi.
  destruct plus_one; cbn [negb orb] in Hpsi;
    repeat (apply andb_true_iff in Hpsi; destruct Hpsi as [? Hpsi]);
    try (apply andb_true_iff in Hpsi; destruct Hpsi as [Hpsi _]); auto.
Qed.

Lemma basin_of_true l : forall b w,
  basin_of nc nx ny G b l w = true -> b w = true \/ exists y, In y l /\ y w = true.
Proof.
  induction l as [|a l IH]; intros b w; cbn [basin_of fold_left]; [auto|].
  intros H. destruct (IH _ _ H) as [H1|[y [Hy H1]]].
  - rewrite bor_spec in H1. apply orb_true_iff in H1. destruct H1 as [H1|H1];
      [left; exact H1|right; exists a; split; [left; reflexivity|exact H1]].
  - right. exists y. split; [right; exact Hy|exact H1].
Qed.

Lemma Hit_rho_1 : Hit Q (rho_1 nc nx ny G E S goals moore plus_one z).
Proof.
  unfold rho_1. cbv zeta. apply (Hit_weaken (fun w => z w = true)); [|apply Hit_ca].
  intros w H. left. exact H.
Qed.

Lemma Hit_rho_2 : Hit Q (rho_2 nc nx ny G E S moore plus_one yij).
Proof.
  rewrite rho_2_alt. apply fold_left_inv_in; [apply Hit_bfalse|].
  intros acc [i yj] Hin Hacc. apply in_enumerate in Hin.
  apply Hit_bor; [exact Hacc|]. apply Hit_band_l.
  (* inner fold: every added term is rim /\ ca(basin of earlier layers) *)
  assert (Hgen : forall l r b,
            (forall y, In y l -> In y yj) ->
            (forall w, b w = true -> exists y, In y yj /\ y w = true) ->
            Hit Q r -> Hit Q (fst (fold_left (F2 nc nx ny G E S moore plus_one) l (r, b)))).
  { induction l as [|y l IH]; intros r b Hsub Hb Hr; cbn [fold_left]; [exact Hr|].
    unfold F2 at 2. apply IH.
    - intros y' Hy'. apply Hsub. right. exact Hy'.
    - intros w Hw. rewrite bor_spec in Hw. apply orb_true_iff in Hw. destruct Hw as [Hw|Hw].
      + apply Hb, Hw.
      + exists y. split; [apply Hsub; left; reflexivity|exact Hw].
    - apply Hit_bor; [exact Hr|]. apply Hit_band_r.
      apply (Hit_weaken (fun w => b w = true)); [|apply Hit_ca].
      intros w Hw. destruct (Hb w Hw) as [y0 [Hy0 Hw0]].
      right. left. exists yj, y0. auto. }
  destruct yj as [|y0 ys]; cbn [hd tl].
  - cbn [fold_left fst]. apply Hit_bfalse.
  - apply Hgen.
    + intros y Hy. right. exact Hy.
    + intros w Hw. exists y0. split; [left; reflexivity|exact Hw].
    + apply Hit_bfalse.
Qed.


Lemma in_flat3 xjk x h :
  In (x, h) (flat3 holds xjk) -> exists xk, In xk xjk /\ In x xk.
Proof.
  unfold flat3. rewrite in_concat. intros [l [Hl Hp]]. apply in_map_iff in Hl.
  destruct Hl as [xk [<- Hxk]]. exists xk. split; [exact Hxk|].
  apply (in_combine_l _ _ _ _ Hp).
Qed.

Lemma Hit_rho_3 : Hit Q (rho_3 nc nx ny G E S holds moore plus_one xijk).
Proof.
  rewrite rho_3_alt. apply fold_left_inv_in; [apply Hit_bfalse|].
  intros acc [i xjk] Hin Hacc. apply in_enumerate in Hin.
  apply Hit_bor; [exact Hacc|]. apply Hit_band_l.
  assert (Hgen : forall l r u,
            (forall p, In p l -> In p (flat3 holds xjk)) ->
            Hit Q r -> Hit Q (fst (fold_left (F3 nc nx ny G E S moore plus_one) l (r, u)))).
  { induction l as [|[x h] l IH]; intros r u Hsub Hr; cbn [fold_left]; [exact Hr|].
    unfold F3 at 2. apply IH; [intros p Hp; apply Hsub; right; exact Hp|].
    apply Hit_bor; [exact Hr|]. apply Hit_band_l, Hit_band_r.
    apply (Hit_weaken (fun w => x w = true)); [|apply Hit_ca].
    intros w Hw. destruct (in_flat3 xjk x h (Hsub _ (or_introl eq_refl))) as [xk [Hxk Hx]].
    right. right. exists xjk, xk, x. auto. }
  apply Hgen; [auto|apply Hit_bfalse].
Qed.

(* closure, model level: an allowed step in which the environment keeps its
   action reaches the region or a recorded iterate *)
Theorem streett_action_hits :
  Hit Q (streett_action nc nx ny G E S holds goals moore plus_one z yij xijk).
Proof.
  unfold streett_action. cbv zeta.
  assert (H0 : Hit Q
    (band (bor (bor (rho_1 nc nx ny G E S goals moore plus_one z)
                    (rho_2 nc nx ny G E S moore plus_one yij))
               (rho_3 nc nx ny G E S holds moore plus_one xijk))
          (memo nc nx nyE (fun v => Nat.leb (cnt G v) (length goals - 1))))).
  { apply Hit_band_l. apply Hit_bor; [apply Hit_bor|];
      [apply Hit_rho_1|apply Hit_rho_2|apply Hit_rho_3]. }
  destruct plus_one; cbn [negb]; [exact H0|]. set (u0 := band _ _) in *.
  destruct moore.
  - intros v Hv Hu He. rewrite forall_spec in Hu. cbn [forall_raw dom] in Hu.
    rewrite forallb_forall in Hu. specialize (Hu _ (inr_vxp' v Hv)).
    replace (setg Envp v (vxp v)) with v in Hu by (destruct v; reflexivity).
    rewrite bor_spec, bnot_spec, He in Hu. cbn [negb] in Hu. rewrite orb_false_r in Hu.
    apply (H0 v Hv Hu He).
  - intros v Hv Hu He. rewrite bor_spec, bnot_spec, He in Hu. cbn [negb] in Hu.
    rewrite orb_false_r in Hu. apply (H0 v Hv Hu He).
Qed.

End Closure1.
