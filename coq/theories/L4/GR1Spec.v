(* L4 / GR1Spec: the mu-calculus specifications of the generalized
   Streett(1) and Rabin(1) winning regions over the set-level controllable
   predecessor, and monotonicity of every operator involved.

   Streett(1):  nu Z. /\_j mu Y. \/_k nu X. (P_k /\ cpre X) \/ cpre Y \/ (R_j /\ cpre Z)
   Rabin(1):    mu Z. \/_k nu Y. /\_j mu X. (cpre X \/ R_j) /\ cpre Y /\ (cpre Z \/ P_k)
   P_k = persistence predicates (holds), R_j = recurrence predicates (goals). *)
From Coq Require Import List Bool Arith Lia.
Import ListNotations.
From Omega Require Import L4.Arena L4.ArenaFacts L4.Kleene L4.AlgOrder L4.GameSpec L4.Mu.

Section GR1Spec.
Variables nc nx ny : nat.
Variables moore plus_one : bool.
Variables E S : bdd.
Variables holds goals : list bdd.

Local Notation le := (le nc nx ny).
Local Notation eqv := (eqv nc nx ny).
Local Notation mono := (mono nc nx ny).
Local Notation band := (band nc nx ny).
Local Notation bor := (bor nc nx ny).
Local Notation lfp_of := (lfp_of nc nx ny).
Local Notation gfp_of := (gfp_of nc nx ny).
Local Notation is_lfp := (is_lfp nc nx ny).
Local Notation is_gfp := (is_gfp nc nx ny).

Definition cpre (T : bdd) : bdd := cpre_spec nx ny moore plus_one E S T.

Lemma cpre_mono : mono cpre.
Proof. intros a b H. apply cpre_spec_mono, H. Qed.

Lemma mono_ext f g : op_eqv nc nx ny f g -> mono g -> mono f.
Proof.
  intros H M a b Hab. apply le_trans with (g a); [apply eqv_le, H|].
  apply le_trans with (g b); [apply M, Hab|apply eqv_le', H].
Qed.

(* ---------------- Streett(1) ---------------- *)
Definition sX_op (P u X : bdd) : bdd := bor (band P (cpre X)) u.
Definition sX (P u : bdd) : bdd := gfp_of (sX_op P u).
Definition sY_op (g Y : bdd) : bdd :=
  big_or (map (fun P => sX P (bor (cpre Y) g)) holds).
Definition sY (g : bdd) : bdd := lfp_of (sY_op g).
Definition sZ_op (Z : bdd) : bdd :=
  big_and (map (fun R => sY (band R (cpre Z))) goals).
Definition streett_spec : bdd := gfp_of sZ_op.

Lemma sX_op_mono P u : mono (sX_op P u).
Proof.
  intros a b H. unfold sX_op. apply bor_le; [|apply le_refl].
  apply band_le; [apply le_refl|apply cpre_mono, H].
Qed.
Lemma sX_is_gfp P u : is_gfp (sX_op P u) (sX P u).
Proof. apply gfp_of_is_gfp, sX_op_mono. Qed.
Lemma sX_mono_u P u u' : le u u' -> le (sX P u) (sX P u').
Proof.
  intros H. apply (is_gfp_mono nc nx ny (sX_op P u) (sX_op P u'));
    [|apply sX_is_gfp|apply sX_is_gfp].
  intros q. unfold sX_op. apply bor_le; [apply le_refl|exact H].
Qed.
Lemma sY_op_mono g : mono (sY_op g).
Proof.
  intros a b H. unfold sY_op. apply big_or_le. intros P _.
  apply sX_mono_u. apply bor_le; [apply cpre_mono, H|apply le_refl].
Qed.
Lemma sY_op_mono_g g g' Y : le g g' -> le (sY_op g Y) (sY_op g' Y).
Proof.
  intros H. unfold sY_op. apply big_or_le. intros P _.
  apply sX_mono_u. apply bor_le; [apply le_refl|exact H].
Qed.
Lemma sY_is_lfp g : is_lfp (sY_op g) (sY g).
Proof. apply lfp_of_is_lfp, sY_op_mono. Qed.
Lemma sY_mono g g' : le g g' -> le (sY g) (sY g').
Proof.
  intros H. apply (is_lfp_mono nc nx ny (sY_op g) (sY_op g'));
    [|apply sY_is_lfp|apply sY_is_lfp].
  intros q. apply sY_op_mono_g, H.
Qed.
Lemma sZ_op_mono : mono sZ_op.
Proof.
  intros a b H. unfold sZ_op. apply big_and_le. intros R _.
  apply sY_mono. apply band_le; [apply le_refl|apply cpre_mono, H].
Qed.
Lemma streett_spec_is_gfp : is_gfp sZ_op streett_spec.
Proof. apply gfp_of_is_gfp, sZ_op_mono. Qed.

(* ---------------- Rabin(1) ---------------- *)
(* innermost: mu X. ((cpre X \/ R) /\ inside), inside = cpre Y /\ (cpre Z \/ P) *)
Definition rX_op (R inside X : bdd) : bdd := band (bor (cpre X) R) inside.
Definition rX (R inside : bdd) : bdd := lfp_of (rX_op R inside).
Definition rY_op (g Y : bdd) : bdd :=
  big_and (map (fun R => rX R (band (cpre Y) g)) goals).
Definition rY (g : bdd) : bdd := gfp_of (rY_op g).
Definition rZ_op (Z : bdd) : bdd :=
  big_or (map (fun P => rY (bor (cpre Z) P)) holds).
Definition rabin_spec : bdd := lfp_of rZ_op.

Lemma rX_op_mono R i : mono (rX_op R i).
Proof.
  intros a b H. unfold rX_op. apply band_le; [|apply le_refl].
  apply bor_le; [apply cpre_mono, H|apply le_refl].
Qed.
Lemma rX_is_lfp R i : is_lfp (rX_op R i) (rX R i).
Proof. apply lfp_of_is_lfp, rX_op_mono. Qed.
Lemma rX_mono_i R i i' : le i i' -> le (rX R i) (rX R i').
Proof.
  intros H. apply (is_lfp_mono nc nx ny (rX_op R i) (rX_op R i'));
    [|apply rX_is_lfp|apply rX_is_lfp].
  intros q. unfold rX_op. apply band_le; [apply le_refl|exact H].
Qed.
Lemma rY_op_mono g : mono (rY_op g).
Proof.
  intros a b H. unfold rY_op. apply big_and_le. intros R _.
  apply rX_mono_i. apply band_le; [apply cpre_mono, H|apply le_refl].
Qed.
Lemma rY_op_mono_g g g' Y : le g g' -> le (rY_op g Y) (rY_op g' Y).
Proof.
  intros H. unfold rY_op. apply big_and_le. intros R _.
  apply rX_mono_i. apply band_le; [apply le_refl|exact H].
Qed.
Lemma rY_is_gfp g : is_gfp (rY_op g) (rY g).
Proof. apply gfp_of_is_gfp, rY_op_mono. Qed.
Lemma rY_mono g g' : le g g' -> le (rY g) (rY g').
Proof.
  intros H. apply (is_gfp_mono nc nx ny (rY_op g) (rY_op g'));
    [|apply rY_is_gfp|apply rY_is_gfp].
  intros q. apply rY_op_mono_g, H.
Qed.
Lemma rZ_op_mono : mono rZ_op.
Proof.
  intros a b H. unfold rZ_op. apply big_or_le. intros P _.
  apply rY_mono. apply bor_le; [apply cpre_mono, H|apply le_refl].
Qed.
Lemma rabin_spec_is_lfp : is_lfp rZ_op rabin_spec.
Proof. apply lfp_of_is_lfp, rZ_op_mono. Qed.

End GR1Spec.
