"""Assemble DESIGN.md: the plan (sections 1-11, kept as written before the
build) followed by section 12 "As built" from tools/design_asbuilt.md with the
table of seeded changes generated from seeded/*/meta.json."""
import glob
import json
import os
import re

V = '/verif'


def first_line(text):
    for ln in text.splitlines():
        ln = ln.strip()
        if ln:
            ln = re.sub(r'^(Change|Mutant|Mutation)\s*\d+\s*(--|—|-|:)\s*', '', ln)
            return ln[:110]
    return ''


def diff_target(path):
    files, funcs = [], []
    for ln in open(path, errors='replace'):
        if ln.startswith('+++ b/'):
            files.append(ln[6:].strip())
        m = re.match(r'@@.*@@\s*(?:def|class)\s+(\w+)', ln)
        if m and m.group(1) not in funcs:
            funcs.append(m.group(1))
    return ', '.join(os.path.basename(f) for f in files), ', '.join(funcs[:3])


def table():
    rows = ['| id | file: function | what the change does | reported by (quick tier) | how |',
            '|----|----------------|----------------------|--------------------------|-----|']
    def keyf(d):
        m = re.match(r'C(\d+)-(\d+)', os.path.basename(d))
        return int(m.group(1)), int(m.group(2))
    for d in sorted(glob.glob(V + '/seeded/C*-*'), key=keyf):
        mp = os.path.join(d, 'meta.json')
        if not os.path.exists(mp):
            continue
        m = json.load(open(mp))
        f, fn = diff_target(os.path.join(d, 'patch.diff'))
        by, how = [], []
        for c, r in sorted(m.get('checks', {}).items()):
            if r.get('rc') == 1 and r.get('violation_lines'):
                by.append(c)
                k = r.get('replay_kind') or ''
                tail = r.get('tail', '')
                if 'BROKEN proof' in tail or 'no longer checks' in tail:
                    h = 'proof obligation breaks'
                elif 'BROKEN translator' in tail:
                    h = 'translator refuses / generated code changes'
                else:
                    h = 'correspondence / search'
                if k:
                    h += f'; replay: {k}'
                how.append(h)
        note = ' (see note)' if m.get('history') else ''
        if not m.get('confirmed', True):
            who = 'no longer passes the existing tests'
        else:
            who = ', '.join(by) or 'MISSED'
        rows.append(f"| {os.path.basename(d)} | {f}: {fn} | {first_line(m.get('needs', ''))} | "
                    f"{who}{note} | {'; '.join(sorted(set(how)))} |")
    notes = []
    for d in sorted(glob.glob(V + '/seeded/C*-*'), key=keyf):
        mp = os.path.join(d, 'meta.json')
        if os.path.exists(mp):
            m = json.load(open(mp))
            if m.get('history'):
                notes.append(f"- {os.path.basename(d)}: {m['history']}")
    return '\n'.join(rows) + ('\n\nNotes:\n' + '\n'.join(notes) if notes else '')


def main():
    s = open(V + '/DESIGN.md').read()
    i = s.find('\n## §12 As built')
    if i >= 0:
        s = s[:i].rstrip('\n') + '\n'
    ab = open(V + '/tools/design_asbuilt.md').read().replace('SEEDED_TABLE', table())
    open(V + '/DESIGN.md', 'w').write(s.rstrip('\n') + '\n\n' + ab.lstrip('\n'))
    print('DESIGN.md written;', len(glob.glob(V + '/seeded/C*-*')), 'seeded changes')


if __name__ == '__main__':
    main()
