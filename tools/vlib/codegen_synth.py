"""C14 helpers: drive the REAL omega/symbolic/functions.py and tabulate.

Truth tables are Python ints: bit  idx(a) = sum a_i << i  is the value at the
assignment a (bit i of the relation = declared bit `b<i>`), the same
convention as coq/theories/L7Codegen/Pred.v (`of_table`).
"""
import itertools
import logging

logging.disable(logging.CRITICAL)


# ------------------------------------------------------------ table algebra
def full(n):
    return (1 << (1 << n)) - 1


_MASKS = {}


def mask(n, i):
    """Positions (of 2^n) at which bit i is 1."""
    k = (n, i)
    if k not in _MASKS:
        m = 0
        blk = 1 << i
        one = ((1 << blk) - 1) << blk
        for s in range(0, 1 << n, 2 * blk):
            m |= one << s
        _MASKS[k] = m
    return _MASKS[k]


def cof(n, t, i, b):
    m = mask(n, i)
    s = 1 << i
    if b:
        h = t & m
        return h | (h >> s)
    h = t & ~m & full(n)
    return h | (h << s)


def t_exist(n, t, vs):
    for i in vs:
        t = cof(n, t, i, True) | cof(n, t, i, False)
    return t


def t_depends(n, t, i):
    return cof(n, t, i, True) != cof(n, t, i, False)


def t_support(n, t):
    return [i for i in range(n) if t_depends(n, t, i)]


def t_subst(n, t, i, g):
    """t with bit i replaced by the function g."""
    return (cof(n, t, i, True) & g) | (cof(n, t, i, False) & ~g & full(n))


def t_var(n, i):
    return mask(n, i)


# --------------------------------------------------------------- real BDDs
def new_bdd(backend):
    if backend == 'cudd':
        import dd.cudd as m
    else:
        import dd.autoref as m
    return m.BDD()


def bitname(i):
    return f'b{i}'


def bdd_from_table(bdd, n, t, names=None):
    """BDD over bits b0..b(n-1) (or `names`) whose truth table is t."""
    memo = {}
    names = names or [bitname(i) for i in range(n)]
    r = _from_table(bdd, memo, n, t, names)
    memo.clear()
    return r


def _from_table(bdd, memo, i, sub, names):
    if i == 0:
        return bdd.true if sub & 1 else bdd.false
    k = (i, sub)
    if k in memo:
        return memo[k]
    half = 1 << (i - 1)
    lo = sub & ((1 << half) - 1)
    hi = sub >> half
    v = bdd.var(names[i - 1])
    r = bdd.ite(v, _from_table(bdd, memo, i - 1, hi, names),
                _from_table(bdd, memo, i - 1, lo, names))
    memo[k] = r
    return r


def table_of_bdd(bdd, n, u, pos=None):
    """Truth table of u by evaluation with `let` on every assignment.

    Deliberately elementary (no DAG traversal): one `let` per assignment."""
    names = [bitname(i) for i in range(n)]
    if pos is not None:
        names = pos
    t = 0
    for k in range(1 << n):
        a = {names[i]: bool((k >> i) & 1) for i in range(n)}
        v = bdd.let(a, u)
        if v == bdd.true:
            t |= 1 << k
        else:
            assert v == bdd.false, 'support outside the declared bits'
    return t


def table_of_bdd_fast(bdd, n, u, names=None):
    """Truth table by Shannon expansion over the support of u only."""
    names = names or [bitname(i) for i in range(n)]
    pos = {b: i for i, b in enumerate(names)}
    supp = sorted(bdd.support(u), key=lambda b: pos[b])
    return _tab(bdd, n, pos, supp, u, 0)


def _tab(bdd, n, pos, supp, v, j):
    if j == len(supp):
        assert v == bdd.true or v == bdd.false
        return full(n) if v == bdd.true else 0
    b = supp[j]
    m = mask(n, pos[b])
    hi = _tab(bdd, n, pos, supp, bdd.let({b: True}, v), j + 1)
    lo = _tab(bdd, n, pos, supp, bdd.let({b: False}, v), j + 1)
    return (hi & m) | (lo & ~m & full(n))


class Spy:
    """Transparent proxy of a BDD manager that logs exist/let/support calls.

    It is passed as the documented `bdd` argument of `make_functions`; it is
    how the harness learns the iteration order Python chose for the sets of
    strings (`for yp in set(outputs)`, `for z in inputs`)."""

    def __init__(self, bdd):
        object.__setattr__(self, '_b', bdd)
        object.__setattr__(self, 'log', [])

    def __getattr__(self, name):
        return getattr(self._b, name)

    def exist(self, qvars, u):
        r = self._b.exist(qvars, u)
        self.log.append(('exist', qvars if isinstance(qvars, list)
                         else set(qvars), u, r))
        return r

    def let(self, d, u):
        r = self._b.let(d, u)
        self.log.append(('let', dict(d), u, r))
        return r

    def support(self, u):
        return self._b.support(u)


def orders_from_log(log):
    """[(yp, [z ...], f)] in execution order, from a Spy log.

    A segment starts at `exist(<set outputs>, f)` followed by
    `let({yp: True}, u)`; the inputs tried are the single-variable
    `exist([z], .)` calls that follow (two per z)."""
    segs = []
    cur = None
    pending_f = None
    for ev in log:
        if ev[0] == 'exist' and not isinstance(ev[1], list):
            pending_f = ev[2]
        elif ev[0] == 'let' and len(ev[1]) == 1 and \
                list(ev[1].values())[0] is True:
            cur = dict(yp=list(ev[1])[0], zs=[], f=pending_f)
            segs.append(cur)
        elif ev[0] == 'exist' and isinstance(ev[1], list) and \
                len(ev[1]) == 1 and cur is not None:
            z = ev[1][0]
            if not cur['zs'] or cur['zs'][-1] != z:
                cur['zs'].append(z)
    return segs


def run_make_functions(n, t, vrs, mode):
    """Run the REAL make_functions on the relation with table t.

    mode: 'cudd' (dd.cudd manager, functions._bdd = dd.cudd: restrict path),
          'nocudd-autoref' / 'nocudd-cudd' (functions._bdd = None: g = p).
    Returns dict(order=[(yp, zs)], funcs={yp: (g_table, care_table)},
                 rels=[table of the relation at each step])."""
    import omega.symbolic.functions as fcn
    import dd.cudd as cudd
    if mode == 'cudd':
        fcn._bdd = cudd
        bdd = new_bdd('cudd')
    elif mode == 'nocudd-cudd':
        fcn._bdd = None
        bdd = new_bdd('cudd')
    else:
        fcn._bdd = None
        bdd = new_bdd('autoref')
    try:
        names = [bitname(i) for i in range(n)]
        bdd.declare(*names)
        pos = {b: i for i, b in enumerate(names)}
        r = bdd_from_table(bdd, n, t)
        spy = Spy(bdd)
        F = fcn.make_functions(r, [bitname(i) for i in vrs], spy)
        segs = orders_from_log(spy.log)
        keys = [pos[k] for k in F]
        order = [(pos[s['yp']], [pos[z] for z in s['zs']]) for s in segs]
        rels = [table_of_bdd_fast(bdd, n, s['f'], names) for s in segs]
        funcs = {}
        for k, d in F.items():
            funcs[pos[k]] = (table_of_bdd_fast(bdd, n, d['function'], names),
                             table_of_bdd_fast(bdd, n, d['care_set'], names))
        # elementary re-tabulation of one function as a cross-check of the
        # fast tabulation (only for small n: it costs 2^n `let`s)
        if F and n <= 6:
            k0 = next(iter(F))
            slow = table_of_bdd(bdd, n, F[k0]['function'])
            assert slow == funcs[pos[k0]][0], 'tabulation self-check'
        return dict(order=order, keys=keys, funcs=funcs, rels=rels)
    finally:
        fcn._bdd = cudd


# ------------------------------------------------- explicit property oracle
def oracle(n, t, vrs, res):
    """Check C14 on the implementation's result with explicit tables.

    Returns None or a string describing the violation."""
    F = res['funcs']
    supp = set(t_support(n, t))
    # (0) functions only for chosen outputs (that every output in the
    # support gets one is forced by (2))
    if not set(F) <= set(vrs):
        return f'functions for {sorted(F)}, chosen outputs {sorted(vrs)}'
    # (1) no function depends on an output bit
    for y, (g, care) in F.items():
        for v in vrs:
            if t_depends(n, g, v):
                return f'function of bit {y} depends on output bit {v}'
    # (2) every solvable input is mapped into the relation
    solv = t_exist(n, t, vrs)
    sub = t
    for y, (g, care) in F.items():
        sub = t_subst(n, sub, y, g)
    # sub(a) = t(a with y := g_y(a)); free outputs keep their value in a
    bad = solv & ~sub & full(n)
    if bad:
        k = (bad & -bad).bit_length() - 1
        a = [(k >> i) & 1 for i in range(n)]
        return ('solvable input not mapped into the relation at bits '
                f'{a} (bit i = b<i>)')
    # (3) care sets: at step k (relation r_k with the earlier functions
    # substituted) care contains every input where the projected relation is
    # solvable for this bit, and where the value is forced the function
    # returns it
    rk = t
    rest = sorted(F)
    for y in res['keys']:
        g, care = F[y]
        rest = [o for o in rest if o != y]
        u = t_exist(n, rk, rest)
        p0, n0 = cof(n, u, y, True), cof(n, u, y, False)
        if (p0 | n0) & ~care & full(n):
            return f'care set of bit {y} misses a solvable input'
        if p0 & ~n0 & ~g & full(n):
            return f'bit {y} forced to 1 but function gives 0'
        if n0 & ~p0 & g:
            return f'bit {y} forced to 0 but function gives 1'
        rk = t_subst(n, rk, y, g)
    return None


def step_stats(n, t, res):
    """(widening enlarged some care set, some care set is not TRUE)."""
    F = res['funcs']
    rk = t
    rest = sorted(F)
    widened = False
    for y in res['keys']:
        g, care = F[y]
        rest = [o for o in rest if o != y]
        u = t_exist(n, rk, rest)
        if care != (cof(n, u, y, True) | cof(n, u, y, False)):
            widened = True
        rk = t_subst(n, rk, y, g)
    return widened


# ------------------------------------------------------------- generators
def rand_table(rng, n, d):
    t = 0
    for k in range(1 << n):
        if rng.random() < d:
            t |= 1 << k
    return t


def rand_formula_table(rng, n, depth, vs=None):
    """Table of a random formula over the bits vs (default all)."""
    vs = list(range(n)) if vs is None else vs
    F = full(n)
    if depth == 0 or rng.random() < 0.15:
        c = rng.random()
        if c < 0.06:
            return F
        if c < 0.12:
            return 0
        return t_var(n, rng.choice(vs))
    op = rng.choice(['and', 'or', 'xor', 'not', 'ite', 'imp', 'and', 'or'])
    a = rand_formula_table(rng, n, depth - 1, vs)
    if op == 'not':
        return ~a & F
    b = rand_formula_table(rng, n, depth - 1, vs)
    if op == 'and':
        return a & b
    if op == 'or':
        return a | b
    if op == 'xor':
        return a ^ b
    if op == 'imp':
        return (~a & F) | b
    c = rand_formula_table(rng, n, depth - 1, vs)
    return (a & b) | (~a & F & c)


def rand_functional(rng, n, outs):
    """/\\_y (guard_y => (y <=> f_y(inputs, earlier outs))) /\\ solvable-guard."""
    ins = [i for i in range(n) if i not in outs]
    F = full(n)
    t = F
    seen = list(ins)
    for y in outs:
        dom = seen if seen else [y]
        k = rng.randint(0, min(3, len(dom)))
        vs = rng.sample(dom, k) if k else dom[:1]
        f = rand_formula_table(rng, n, 2, vs)
        eq = ~(t_var(n, y) ^ f) & F
        if rng.random() < 0.4 and ins:
            g = rand_formula_table(rng, n, 2, rng.sample(ins, min(2, len(ins))))
            eq = (~g & F) | eq
        t &= eq
        if rng.random() < 0.7:
            seen.append(y)
    if rng.random() < 0.5 and ins:
        t &= rand_formula_table(rng, n, 2, rng.sample(ins, min(3, len(ins))))
    return t


def rand_relation(rng, n, outs):
    c = rng.random()
    if c < 0.30:
        return 'table', rand_table(rng, n, rng.choice(
            [0.05, 0.15, 0.3, 0.5, 0.7, 0.9]))
    if c < 0.60:
        return 'formula', rand_formula_table(rng, n, rng.randint(2, 5))
    if c < 0.85:
        return 'functional', rand_functional(rng, n, outs)
    # product of a formula over a few bits and a sparse table
    vs = rng.sample(range(n), max(1, n // 2))
    return 'product', (rand_formula_table(rng, n, 3, vs) &
                       rand_formula_table(rng, n, 3))


def all_subsets(n):
    for k in range(n + 1):
        for c in itertools.combinations(range(n), k):
            yield list(c)
