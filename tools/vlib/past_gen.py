"""C15: past-LTL formulas as Python tuples, generators, printers.

Formula (source language of omega.logic.past.translate, Boolean fragment):
    ('v', name) | ('a', key) | ('c', bool) | ('~', f) | (op, f, g) for op in
    BINOPS  -- ('a', key) is an arithmetic comparison, opaque to the
    translation, identified by the canonical text `key` of its parse tree
    | ('ite', c, a, b) | ('-X', f) | ('--X', f) | ('-[]', f) | ('-<>', f)
    | ('S', f, g) | ('[]', f) | ('<>', f) | ('U', f, g)
"""

BINOPS = ('/\\', '\\/', '=>', '<=>', '^')
PAST_UN = ('-X', '--X', '-[]', '-<>')
FUT_UN = ('[]', '<>')

# spellings accepted by omega.logic.lexyacc.Lexer for the same token
SPELL = {
    '/\\': ['/\\', '&', '&&'],
    '\\/': ['\\/', '|', '||'],
    '=>': ['=>', '->'],
    '<=>': ['<=>', '<->'],
    '^': ['^'],
    '~': ['~', '!'],
    True: ['TRUE', 'True', 'true'],
    False: ['FALSE', 'False', 'false'],
}


def show(f, rng=None, atom_text=None):
    """Concrete syntax, fully parenthesised; rng picks among synonyms;
    atom_text maps the key of an atom to its source text."""
    def sp(k):
        alts = SPELL[k]
        return alts[0] if rng is None else rng.choice(alts)
    k = f[0]
    if k == 'v':
        return f[1]
    if k == 'a':
        return (atom_text or {}).get(f[1], f[1])
    if k == 'c':
        return sp(f[1])
    if k == '~':
        return f'({sp("~")} {show(f[1], rng, atom_text)})'
    if k in PAST_UN or k in FUT_UN:
        return f'({k} {show(f[1], rng, atom_text)})'
    if k == 'ite':
        a, b, c = (show(x, rng, atom_text) for x in f[1:])
        if rng is not None and rng.random() < 0.5:
            return f'(IF {a} THEN {b} ELSE {c})'
        return f'ite({a}, {b}, {c})'
    if k in BINOPS:
        return f'({show(f[1], rng, atom_text)} {sp(k)} {show(f[2], rng, atom_text)})'
    if k in ('S', 'U'):
        left = show(f[1], rng, atom_text)
        # the documented grammar makes U, W, V, S, T left-associative on one
        # level: a left-nested chain may be written without parentheses
        # (exercises the parser's associativity, seeded change C15-3)
        if f[1][0] in ('S', 'U') and (rng is None or rng.random() < 0.6):
            assert left.startswith('(') and left.endswith(')'), left
            left = left[1:-1]
        return f'({left} {k} {show(f[2], rng, atom_text)})'
    raise ValueError(f)


def atomize(f, keys):
    """Turn the variables whose name is in `keys` into atoms."""
    if f[0] == 'v':
        return ('a', f[1]) if f[1] in keys else f
    if f[0] in ('a', 'c'):
        return f
    return (f[0],) + tuple(atomize(x, keys) for x in f[1:])


def depth(f):
    if f[0] in ('v', 'a', 'c'):
        return 0
    return 1 + max(depth(x) for x in f[1:])


def size(f):
    if f[0] in ('v', 'a', 'c'):
        return 1
    return 1 + sum(size(x) for x in f[1:])


def subformulas(f):
    yield f
    if f[0] not in ('v', 'a', 'c'):
        for x in f[1:]:
            yield from subformulas(x)


def operators(f):
    return {g[0] for g in subformulas(f)}


def variables(f):
    return sorted({g[1] for g in subformulas(f) if g[0] in ('v', 'a')})


def future_under_past(f, under=False):
    """Does a future operator occur below a past operator?"""
    k = f[0]
    if k in ('v', 'a', 'c'):
        return False
    if k in FUT_UN + ('U',) and under:
        return True
    u = under or k in PAST_UN + ('S',)
    return any(future_under_past(x, u) for x in f[1:])


def gen(rng, d, names, future=False, p_leaf=0.2):
    """Random formula of nesting depth <= d, biased to the past operators."""
    if d == 0 or rng.random() < p_leaf:
        if rng.random() < 0.12:
            return ('c', rng.random() < 0.5)
        return ('v', rng.choice(names))
    ops = ['~', '/\\', '\\/', '=>', '<=>', '^', 'ite',
           '-X', '--X', '-X', '--X', '-[]', '-<>', 'S', 'S']
    if future:
        ops += ['[]', '<>', 'U', 'U']
    k = rng.choice(ops)
    if k == 'ite':
        return (k, gen(rng, d - 1, names, future, p_leaf),
                gen(rng, d - 1, names, future, p_leaf),
                gen(rng, d - 1, names, future, p_leaf))
    if k in ('~',) + PAST_UN + FUT_UN:
        return (k, gen(rng, d - 1, names, future, p_leaf))
    return (k, gen(rng, d - 1, names, future, p_leaf),
            gen(rng, d - 1, names, future, p_leaf))


def small_formulas(names, consts=(True, False)):
    """All formulas of depth <= 1 and all unary-over-depth-1 formulas:
    the systematic part of the generator (every operator over every pair of
    leaves, every previous/since over every such formula)."""
    leaves = [('v', n) for n in names] + [('c', b) for b in consts]
    un = ('~',) + PAST_UN
    bi = BINOPS + ('S',)
    d1 = [(k, a) for k in un for a in leaves]
    d1 += [(k, a, b) for k in bi for a in leaves for b in leaves]
    out = list(leaves) + d1
    # previous operators stacked on depth-1 formulas, and joined pairwise
    prevs = [(k, a) for k in ('-X', '--X') for a in leaves[:2] + leaves[-2:]]
    for k in PAST_UN:
        out += [(k, g) for g in d1]
    for k in ('/\\', '\\/', 'S'):
        out += [(k, a, b) for a in prevs for b in prevs]
    return out


# ----------------------------------------------------------- Gallina literals
_OP = {'/\\': 'OAnd', '\\/': 'OOr', '=>': 'OImp', '<=>': 'OIff', '^': 'OXor'}
_UN = {'~': 'FNot', '-X': 'FPrevW', '--X': 'FPrevS', '-[]': 'FHist',
       '-<>': 'FOnce', '[]': 'FAlways', '<>': 'FEvent'}


def coq_form(f):
    k = f[0]
    if k == 'v':
        return f'(FVar "{f[1]}")'
    if k == 'a':
        assert '"' not in f[1]
        return f'(FAtom "{f[1]}")'
    if k == 'c':
        return f'(FConst {"true" if f[1] else "false"})'
    if k in _UN:
        return f'({_UN[k]} {coq_form(f[1])})'
    if k in _OP:
        return f'(FBin {_OP[k]} {coq_form(f[1])} {coq_form(f[2])})'
    if k == 'ite':
        return '(FIte ' + ' '.join(coq_form(x) for x in f[1:]) + ')'
    if k == 'S':
        return f'(FSince {coq_form(f[1])} {coq_form(f[2])})'
    if k == 'U':
        return f'(FUntil {coq_form(f[1])} {coq_form(f[2])})'
    raise ValueError(f)


def coq_tform(t):
    """Action formula tuple (see past_eval.from_tree) -> tform literal."""
    k = t[0]
    if k == 'v':
        return f'(TVar "{t[1]}")'
    if k == 'a':
        assert '"' not in t[1]
        return f'(TAtom "{t[1]}")'
    if k == 'c':
        return f'(TConst {"true" if t[1] else "false"})'
    if k == '~':
        return f'(TNot {coq_tform(t[1])})'
    if k == "'":
        return f'(TNext {coq_tform(t[1])})'
    if k in _OP:
        return f'(TBin {_OP[k]} {coq_tform(t[1])} {coq_tform(t[2])})'
    if k == 'ite':
        return '(TIte ' + ' '.join(coq_tform(x) for x in t[1:]) + ')'
    if k == '[]':
        return f'(TAlways {coq_tform(t[1])})'
    if k == '<>':
        return f'(TEvent {coq_tform(t[1])})'
    if k == 'U':
        return f'(TUntil {coq_tform(t[1])} {coq_tform(t[2])})'
    raise ValueError(t)
