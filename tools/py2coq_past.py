"""Fail-closed translator for omega/logic/past.py (tie T for C15).

Sources, read with `ast` from the CURRENT working tree (omega is never
imported):

    omega/logic/past.py : Nodes.{Operator,Unary,Binary,Var}.flatten,
                          _flatten_previous, _make_tester_for_previous,
                          _flatten_since, _flatten_until, translate
    omega/logic/ast.py  : Nodes.{Operator,Binary}.flatten  (super() targets)
    astutils/ast.py     : Operator.flatten (super() target of Nodes.Unary;
                          the installed package), Terminal.flatten only
                          checked to be `return self.value`

Output: coq/gen/PastGen.v; coq/GenProofs/PastBridge.v proves the generated
`translate` equal to the hand-written model PastModel.translate (after erasing
the model's ghost field) on every run.

What the translation does (everything else raises `Refuse`, or makes the
enclosing `if` branch `None` with a note when only that branch is outside the
subset):

* classes -> one Gallina function per `flatten` method over the type `node`
  of parser trees; `x.flatten(...)` is dynamic dispatch (`dispatch`, generated
  from the class tables and the resolution order of the three files);
  `super().flatten` is resolved statically.  Recursion through `flatten` is
  open (`rec`), closed by a Fixpoint on `fuel` (Python's recursion limit).
* the call protocol: positional arguments, keyword arguments, defaults,
  `**kw` are translated literally: a `kwargs` record of optional slots is
  passed, named parameters are taken out of it at entry (TypeError = None when
  a required one is missing or a keyword is given twice).  `*arg` is always
  empty (checked: no call passes more positionals than the callee names).
* `testers`: the dict created in `translate` is the state threaded through
  every function (`dict -> option (A * dict)`); the translator checks it is
  never rebound, copied or stored, so value semantics is exact.
* strings: a string is either a NAME (Coq `string`: self.value,
  self.operator, f-strings made of identifier characters such as
  f'{var}_prev{previous}', f'_aux{i}') or a FORMULA (`tform`).  Formula
  strings built with f-strings / str.join / + are read by the fixed grammar
  below into the tree the parser returns for them; the generated file lists
  every template with the term it became.

      template := primary                       (the whole string is closed)
      primary  := {formula or name}  |  TRUE  |  FALSE  |  ( inner )
                | {op}( args )                   only as the whole template
      inner    := operand
                | operand BINOP operand          BINOP: /\\ \\/ => <=> ^
                | operand {op} operand           op a run-time string
                | {op} operand | {op} {csv}      op a run-time string
      operand  := ~ operand  |  primary '*       (postfix prime)
      args     := {csv}  |  inner , inner , ...

  White space is ignored.  Assumptions of this reading (the part of the tie
  that stays with the correspondence check): parentheses group; `~` and the
  postfix prime bind tighter than every binary operator; a pasted formula
  string is closed; `==` between formula strings is equality of trees.
* `assert`/`raise` -> None; messages are not evaluated.
"""
import ast
import os
import re

from py2coq import Refuse, _src

PAST_SRC = 'omega/logic/past.py'
AST_SRC = 'omega/logic/ast.py'

KWSLOTS = {'testers': 'dictref', 'context': 'ctx', 'until': 'optbool',
           'previous': 'optint', 'strong': 'optbool'}
# kinds of the parameters that are bound positionally, BY NAME
POSITIONAL = {'op': 'str', 'x': 'node', 'operands': 'nodes', 'var': 'str',
              'expr': 'form', 'context': 'ctx', 'strong': 'optbool',
              'debug': 'bool', 'until': 'bool'}
IGNORED_PARAMS = ('free_init',)
TREC = {'type': ('r_type', 'str'), 'init': ('r_init', 'form'),
        'trans': ('r_trans', 'form'), 'win': ('r_win', 'optform')}
VREC = ['type', 'dom', 'owner']
CLASS_OF_NODE = [('Var', 'NVar _'), ('Bool', 'NBool _'),
                 ('Comparator', 'NAtom _'),
                 ('Operator', 'NOp COperator _ _'),
                 ('Unary', 'NOp CUnary _ _'), ('Binary', 'NOp CBinary _ _')]
OPCLASS = {'Operator': 'COperator', 'Unary': 'CUnary', 'Binary': 'CBinary'}
BOOL_TEXT = {'TRUE': 'true', 'True': 'true', 'true': 'true',
             'FALSE': 'false', 'False': 'false', 'false': 'false'}
OPT = {'str': 'ctx', 'bool': 'optbool', 'int': 'optint', 'form': 'optform',
       'unit': 'dictref'}
COQ_TYPE = {'node': 'node', 'nodes': 'list node', 'str': 'string',
            'form': 'tform', 'forms': 'list tform', 'csv': 'list tform',
            'optform': 'option tform', 'ctx': 'option string', 'bool': 'bool',
            'optbool': 'option bool', 'int': 'N', 'optint': 'option N',
            'dictref': 'option unit', 'kw': 'kwargs', 'rec': 'trec',
            'vrec': 'vrec', 'vdict': 'pydict vrec'}


class Unsupported(Refuse):
    """Only the enclosing `if` branch leaves the subset (it becomes None with
    a note); outside any branch it is a refusal of the whole translation."""


def comment(s):
    return (s.replace('"', "'").replace('(*', '( *').replace('*)', '* )')
            .replace('\n', ' '))


def coq_type(k):
    if isinstance(k, tuple):
        return '(' + ' * '.join(coq_type(x) for x in k[1]) + ')'
    return COQ_TYPE[k]


def coq_str(s):
    if '\n' in s:
        raise Refuse(f'string constant with a newline: {s!r}')
    return '"' + s.replace('"', '""') + '"'


class V:
    def __init__(self, term, sort, lit=None):
        self.term, self.sort, self.lit = term, sort, lit

    def __repr__(self):
        return f'V({self.term}, {self.sort})'


def join_sort(a, b):
    if a == b:
        return a
    if a is None:
        return b
    if b is None:
        return a
    if isinstance(a, tuple) or isinstance(b, tuple):
        if isinstance(a, tuple) and isinstance(b, tuple) \
                and len(a[1]) == len(b[1]):
            return ('tuple', tuple(join_sort(x, y)
                                   for x, y in zip(a[1], b[1])))
        raise Refuse(f'values of kinds {a} and {b} meet')
    if {a, b} == {'str', 'form'}:
        return 'form'
    if {a, b} == {'csv', 'forms'}:
        return 'forms'
    for x, y in ((a, b), (b, a)):
        if x == 'none' and y in OPT:
            return OPT[y]
        if x == 'none' and y in OPT.values():
            return y
        if y in OPT and OPT[y] == x:
            return x
    if isinstance(a, tuple) and isinstance(b, tuple) \
            and len(a[1]) == len(b[1]):
        return ('tuple', [join_sort(x, y) for x, y in zip(a[1], b[1])])
    raise Refuse(f'values of kinds {a} and {b} meet')


def coerce(v, sort):
    s = v.sort
    if s == sort or sort is None:
        return v.term
    if {s, sort} == {'csv', 'forms'}:
        return v.term
    if s == 'str' and sort in ('form', 'optform') and v.lit is not None:
        if v.lit in ('TRUE', 'FALSE'):
            t = f'(TConst {v.lit.lower()})'
        elif re.match(r'[A-Za-z_][A-Za-z0-9_]*\Z', v.lit):
            t = f'(TVar {v.term})'
        else:
            raise Refuse(f'the constant string {v.lit!r} used as a formula')
        return t if sort == 'form' else f'(Some {t})'
    if s == 'str' and sort == 'form':
        return f'(TVar {v.term})'
    if s in OPT and OPT[s] == sort:
        return f'(Some {v.term})'
    if s == 'str' and sort == 'optform':
        return f'(Some (TVar {v.term}))'
    if s == 'none' and sort in OPT.values():
        return 'None'
    if isinstance(s, tuple) and isinstance(sort, tuple) \
            and len(s[1]) == len(sort[1]) and v.parts:
        return '(' + ', '.join(coerce(p, t)
                               for p, t in zip(v.parts, sort[1])) + ')'
    raise Refuse(f'a value of kind {s} used as {sort}: {v.term}')


V.parts = None


# ---------------------------------------------------------------- sources
class Func:
    def __init__(self, node, module, cls=None):
        self.node, self.module, self.cls = node, module, cls
        a = node.args
        if a.kwonlyargs or a.posonlyargs:
            raise Refuse(f'{node.name}: keyword-only/positional-only '
                         'parameters')
        names = [x.arg for x in a.args]
        self.is_method = cls is not None
        if self.is_method:
            if not names or names[0] != 'self':
                raise Refuse(f'{cls}.{node.name}: first parameter not self')
            names = names[1:]
        nd = len(a.defaults)
        self.params = names
        self.defaults = dict(zip(names[len(names) - nd:], a.defaults)) \
            if nd else {}
        self.vararg = a.vararg.arg if a.vararg else None
        self.kwarg = a.kwarg.arg if a.kwarg else None
        self.npos = None          # number of positionally bound parameters
        self.ret = None
        self.pure = False

    @property
    def coq(self):
        n = self.node.name.lstrip('_')
        if self.cls:
            return f'{self.module}_{self.cls}_{n}'
        return f'{self.module}_{n}'


class Sources:
    def __init__(self, repo, astutils_path=None):
        self.notes = []
        self.past = self.parse(os.path.join(repo, PAST_SRC))
        self.ast = self.parse(os.path.join(repo, AST_SRC))
        if astutils_path is None:
            astutils_path = find_astutils()
        self.astutils_path = astutils_path
        self.astutils = self.parse(astutils_path)
        self.funcs = {}
        self.classes = {}     # (module, class) -> (bases, {method: Func})
        self.load_past()
        self.load_ast()
        self.load_astutils()

    @staticmethod
    def parse(path):
        with open(path) as f:
            return ast.parse(f.read(), path)

    # past.py ------------------------------------------------------------
    def load_past(self):
        imports_ok = False
        nodes = None
        for s in self.past.body:
            if isinstance(s, ast.ImportFrom) and s.module == \
                    'omega.logic.ast':
                for a in s.names:
                    if a.name == 'Nodes' and a.asname == '_Nodes':
                        imports_ok = True
            elif isinstance(s, ast.FunctionDef):
                self.funcs[s.name] = Func(s, 'past')
            elif isinstance(s, ast.ClassDef):
                if s.name != 'Nodes':
                    raise Refuse(f'past.py: class {s.name}')
                nodes = s
        if not imports_ok:
            raise Refuse('past.py: `from omega.logic.ast import Nodes as '
                         '_Nodes` not found')
        if nodes is None or [_src(b) for b in nodes.bases] != ['_Nodes']:
            raise Refuse('past.py: class Nodes(_Nodes) not found')
        for c in nodes.body:
            if isinstance(c, ast.Expr) and isinstance(c.value, ast.Constant):
                continue
            if not isinstance(c, ast.ClassDef):
                raise Refuse(f'past.Nodes: {_src(c)[:40]}')
            bases = [_src(b) for b in c.bases]
            if bases != [f'_Nodes.{c.name}']:
                raise Refuse(f'past.Nodes.{c.name}: bases {bases}')
            if c.name in ('Comparator', 'Arithmetic'):
                self.notes.append(
                    f'past.Nodes.{c.name}.flatten: NOT translated (tie H): '
                    'a comparison subtree is the opaque node NAtom, whose '
                    'flatten is its text')
                continue
            self.classes[('past', c.name)] = (
                [('ast', c.name)], self.methods(c, 'past'))

    def methods(self, c, module):
        out = {}
        for m in c.body:
            if isinstance(m, ast.Expr) and isinstance(m.value, ast.Constant):
                continue
            if isinstance(m, ast.FunctionDef):
                if m.decorator_list:
                    raise Refuse(f'{c.name}.{m.name}: decorator')
                if m.name == 'flatten':
                    out[m.name] = Func(m, module, c.name)
                elif m.name != '__init__' or module == 'past':
                    if module == 'past':
                        raise Refuse(f'past.Nodes.{c.name}.{m.name}: only '
                                     '`flatten` is expected')
                continue
            raise Refuse(f'{module}.{c.name}: {_src(m)[:40]}')
        return out

    # ast.py -------------------------------------------------------------
    def load_ast(self):
        nodes = [s for s in self.ast.body
                 if isinstance(s, ast.ClassDef) and s.name == 'Nodes']
        if len(nodes) != 1:
            raise Refuse('ast.py: class Nodes not found')
        for c in nodes[0].body:
            if isinstance(c, ast.Expr) and isinstance(c.value, ast.Constant):
                continue
            if isinstance(c, ast.Assign) and _src(c) == \
                    'Terminal = astutils.Terminal':
                continue
            if not isinstance(c, ast.ClassDef):
                raise Refuse(f'ast.Nodes: {_src(c)[:40]}')
            bases = []
            for b in c.bases:
                t = _src(b)
                if t in ('astutils.Terminal', 'astutils.Operator'):
                    bases.append(('astutils', t.split('.')[1]))
                elif ('ast', t) in self.classes:
                    bases.append(('ast', t))
                else:
                    raise Refuse(f'ast.Nodes.{c.name}: base {t}')
            if len(bases) != 1:
                raise Refuse(f'ast.Nodes.{c.name}: bases')
            self.classes[('ast', c.name)] = (bases, self.methods(c, 'ast'))

    # astutils -----------------------------------------------------------
    def load_astutils(self):
        for c in self.astutils.body:
            if not isinstance(c, ast.ClassDef) or c.name not in (
                    'Terminal', 'Operator'):
                continue
            if c.bases:
                raise Refuse(f'astutils.{c.name}: has base classes')
            fl = [m for m in c.body if isinstance(m, ast.FunctionDef)
                  and m.name == 'flatten']
            if len(fl) != 1:
                raise Refuse(f'astutils.{c.name}.flatten not found')
            if c.name == 'Terminal':
                body = [s for s in fl[0].body
                        if not (isinstance(s, ast.Expr)
                                and isinstance(s.value, ast.Constant))]
                if [_src(s) for s in body] != ['return self.value']:
                    raise Refuse('astutils.Terminal.flatten is not '
                                 '`return self.value`')
                self.classes[('astutils', 'Terminal')] = ([], {})
            else:
                self.classes[('astutils', 'Operator')] = (
                    [], {'flatten': Func(fl[0], 'astutils', 'Operator')})
        for k in ('Terminal', 'Operator'):
            if ('astutils', k) not in self.classes:
                raise Refuse(f'astutils.{k} not found')

    def resolve(self, key, after=False):
        """The `flatten` that class `key` uses (`after`: skipping its own):
        Func, or the name of a fixed prelude function."""
        bases, meths = self.classes[key]
        if not after and 'flatten' in meths:
            return meths['flatten']
        if key == ('astutils', 'Terminal'):
            return 'astutils_Terminal_flatten'
        if not bases:
            raise Refuse(f'no flatten for {key}')
        return self.resolve(bases[0])


def find_astutils():
    import importlib.util
    spec = importlib.util.find_spec('astutils')
    if spec is None or not spec.submodule_search_locations:
        raise Refuse('package astutils not found')
    p = os.path.join(list(spec.submodule_search_locations)[0], 'ast.py')
    if not os.path.exists(p):
        raise Refuse('astutils/ast.py not found')
    return p


# ---------------------------------------------------------------- templates
TOKEN = re.compile(r"\s+|/\\|\\/|<=>|=>|\^|~|'|\(|\)|,|TRUE\b|FALSE\b")
IDENT = re.compile(r'[A-Za-z0-9_]*\Z')
BINOPS = {'/\\': 'OAnd', '\\/': 'OOr', '=>': 'OImp', '<=>': 'OIff',
          '^': 'OXor'}


def show_parts(parts):
    out = []
    for k, x in parts:
        out.append(x if k == 'text' else '{' + x.term + '}')
    return ''.join(out)


def read_template(parts, where):
    """parts: [('text', str) | ('hole', V)].  -> V (str or form)."""
    # constant strings bound to names are pasted as text
    flat = []
    for k, x in parts:
        if k == 'hole' and x.lit is not None and x.sort == 'str':
            k, x = 'text', x.lit
        if k == 'text' and flat and flat[-1][0] == 'text':
            flat[-1] = ('text', flat[-1][1] + x)
        elif k == 'text' and x == '':
            continue
        else:
            flat.append((k, x))
    parts = flat
    if not parts:
        raise Unsupported(f'{where}: empty string')
    if all(IDENT.match(x) if k == 'text' else x.sort in ('str', 'int')
           for k, x in parts):
        if len(parts) == 1 and parts[0][0] == 'text':
            s = parts[0][1]
            return V(coq_str(s), 'str', lit=s)
        if len(parts) == 1:
            if parts[0][1].sort != 'str':
                raise Unsupported(f'{where}: a number as a string')
            return parts[0][1]
        # a name: f'{var}_prev{previous}', f'_aux{i}'
        terms = []
        for k, x in parts:
            if k == 'text':
                terms.append(coq_str(x))
            elif x.sort == 'int':
                terms.append(f'dec {x.term}')
            else:
                terms.append(x.term)
        t = terms[-1]
        for u in reversed(terms[:-1]):
            t = f'{u} ++ ({t})' if ' ' in t else f'{u} ++ {t}'
        return V(f'({t})', 'str')
    # a formula
    toks = []
    for k, x in parts:
        if k == 'hole':
            if x.sort not in ('str', 'form', 'csv', 'forms'):
                raise Unsupported(f'{where}: a value of kind {x.sort} inside '
                                  'a formula string')
            toks.append(('hole', x))
            continue
        pos = 0
        while pos < len(x):
            m = TOKEN.match(x, pos)
            if not m:
                raise Unsupported(
                    f'{where}: formula text not understood at '
                    f'{x[pos:pos + 12]!r} in {show_parts(parts)!r}')
            if not m.group().isspace():
                toks.append(('tok', m.group()))
            pos = m.end()
    p = _TemplateParser(toks, where, show_parts(parts))
    term = p.top()
    return (term, p.partial)


class _TemplateParser:
    def __init__(self, toks, where, text):
        self.toks, self.i, self.where, self.text = toks, 0, where, text
        self.partial = []     # option-valued subterms (run-time operators)

    def fail(self, what):
        raise Unsupported(f'{self.where}: {what} in template {self.text!r}')

    def peek(self, k=0):
        j = self.i + k
        return self.toks[j] if j < len(self.toks) else (None, None)

    def take(self, tok=None):
        k, x = self.peek()
        if k is None or (tok is not None and (k != 'tok' or x != tok)):
            self.fail(f'expected {tok or "more text"}')
        self.i += 1
        return k, x

    def is_tok(self, t, k=0):
        return self.peek(k) == ('tok', t)

    def is_hole(self, sorts, k=0):
        a, x = self.peek(k)
        return a == 'hole' and x.sort in sorts

    def starts_operand(self, k=0):
        a, x = self.peek(k)
        if a == 'hole':
            return True
        return a == 'tok' and x in ('(', '~', 'TRUE', 'FALSE')

    def top(self):
        # {op}( args ) as the whole template
        if self.is_hole(('str',)) and self.is_tok('(', 1) \
                and self.peek()[1].lit is None:
            op = self.take()[1]
            self.take('(')
            if self.is_hole(('csv', 'forms')) and self.is_tok(')', 1):
                args = self.take()[1].term
            else:
                items = [self.inner()]
                while self.is_tok(','):
                    self.take(',')
                    items.append(self.inner())
                args = '[' + '; '.join(items) + ']'
            self.take(')')
            r = self.opt(f't_call {op.term} {args}')
        else:
            r = self.primary()
        if self.peek()[0] is not None:
            self.fail('text after the closed formula (the string would not '
                      'be closed)')
        return r

    def opt(self, term):
        """An option-valued reading (run-time operator): bound by caller."""
        name = f'§{len(self.partial)}§'
        self.partial.append((name, term))
        return name

    def primary(self):
        k, x = self.take()
        if k == 'hole':
            if x.sort in ('csv', 'forms'):
                self.fail('a list of formulas where one formula is expected')
            return coerce(x, 'form')
        if x == 'TRUE':
            return '(TConst true)'
        if x == 'FALSE':
            return '(TConst false)'
        if x == '(':
            r = self.inner()
            self.take(')')
            return r
        self.fail(f'unexpected {x!r}')

    def operand(self):
        if self.is_tok('~'):
            self.take()
            if not self.starts_operand():
                self.fail('operand of ~')
            r = self.operand()
            if self.last_primed:
                self.fail('~ applied to a primed operand without parentheses')
            self.last_primed = False
            return f'(TNot {r})'
        r = self.primary()
        self.last_primed = False
        while self.is_tok("'"):
            self.take()
            r = f'(TNext {r})'
            self.last_primed = True
        return r

    last_primed = False

    def inner(self):
        # {op} operand | {op} {csv}
        if self.is_hole(('str',)) and self.peek()[1].lit is None \
                and (self.starts_operand(1)):
            op = self.take()[1]
            if self.is_hole(('csv', 'forms')):
                args = self.take()[1].term
            else:
                args = f'[{self.operand()}]'
            return self.opt(f't_prefix {op.term} {args}')
        a = self.operand()
        k, x = self.peek()
        if k == 'tok' and x in BINOPS:
            self.take()
            b = self.operand()
            return f'(TBin {BINOPS[x]} {a} {b})'
        if k == 'hole' and x.sort == 'str' and x.lit is None:
            self.take()
            b = self.operand()
            return self.opt(f't_binary {x.term} {a} {b}')
        return a


# ---------------------------------------------------------------- compiler
class Compiler:
    def __init__(self, src):
        self.src = src
        self.notes = src.notes
        self.templates = []
        self.tmp = 0
        self.fn = None

    def fresh(self):
        self.tmp += 1
        return f't{self.tmp}'

    def note(self, s):
        s = f'{self.fn.coq}: {s}' if self.fn else s
        if s not in self.notes:
            self.notes.append(s)

    # ---- wrapping bindings
    @staticmethod
    def wrap(pre, body):
        for mode, pat, term in reversed(pre):
            if mode == 'st':
                body = (f'match {term} T with\n| Some ({pat}, T) =>\n{body}\n'
                        '| None => None\nend')
            elif mode == 'opt':
                body = (f'match {term} with\n| Some {pat} =>\n{body}\n'
                        '| None => None\nend')
            elif mode == 'let':
                body = f'let {pat} := {term} in\n{body}'
            elif mode == 'letT':
                body = f'let T := {term} in\n{body}'
            else:
                raise AssertionError(mode)
        return body

    # ---- function
    def function(self, fn):
        self.fn = fn
        self.gen_made = False
        env = {}
        sig = []
        pre = []
        uses_rec = not fn.pure
        if uses_rec:
            sig.append('(rec : flat)')
        if fn.is_method:
            sig.append('(self : node)')
            env['self'] = V('self', 'node')
        npos = fn.npos if fn.npos is not None else 0
        has_kw = fn.kwarg is not None
        for p in fn.params[:npos]:
            if fn.node.name == 'translate' and p == 's':
                sig.append('(v_tree : node)')
                continue
            if p not in POSITIONAL:
                raise Refuse(f'{fn.coq}: no kind known for positional '
                             f'parameter {p}')
            k = POSITIONAL[p]
            sig.append(f'(v_{p} : {coq_type(k)})')
            env[p] = V(f'v_{p}', k)
            if has_kw and p in KWSLOTS:
                pre.append(('opt', '_', f'(match kw_{p} kw0 with None => '
                                        'Some tt | Some _ => None end)'))
        if has_kw:
            sig.append('(kw0 : kwargs)')
        taken = []
        for p in fn.params[npos:]:
            if p in IGNORED_PARAMS:
                self.note(f'parameter {p} (never passed, never read) dropped')
                if any(isinstance(n, ast.Name) and n.id == p
                       for s in fn.node.body for n in ast.walk(s)):
                    raise Refuse(f'{fn.coq}: parameter {p} is read')
                continue
            if not has_kw:
                raise Refuse(f'{fn.coq}: parameter {p} is never given')
            if p not in KWSLOTS:
                raise Refuse(f'{fn.coq}: parameter {p} can only be given by '
                             'a keyword that no call uses')
            k = KWSLOTS[p]
            taken.append(p)
            if p in fn.defaults:
                d = self.const_default(fn.defaults[p], k)
                pre.append(('let', f'v_{p}',
                            f'match kw_{p} kw0 with Some v => v | None => '
                            f'{d} end'))
            else:
                pre.append(('opt', f'v_{p}', f'kw_{p} kw0'))
            env[p] = V(f'v_{p}', k)
        if has_kw:
            fields = ' '.join('None' if s in taken else f'(kw_{s} kw0)'
                              for s in KWSLOTS)
            pre.append(('let', f'v_{fn.kwarg}', f'mkKw {fields}'))
            env[fn.kwarg] = V(f'v_{fn.kwarg}', 'kw')
        if fn.vararg:
            env[fn.vararg] = V('', 'emptyargs')
        body = [s for s in fn.node.body
                if not (isinstance(s, ast.Expr)
                        and isinstance(s.value, ast.Constant)
                        and isinstance(s.value.value, str))]
        # two passes: the first finds the kind of the result
        if fn.ret is None:
            self.rets = []
            save = (self.tmp, list(self.notes), list(self.templates))
            self.discover = True
            self.block(body, dict(env), top=True)
            self.discover = False
            self.tmp, self.notes[:], self.templates[:] = save
            r = None
            for s in self.rets:
                r = join_sort(r, s)
            if r is None:
                raise Refuse(f'{fn.coq}: never returns a value')
            fn.ret = r
        self.gen_made = False
        text = self.block(body, dict(env), top=True)
        text = self.wrap(pre, text)
        rt = coq_type(fn.ret)
        if fn.pure or fn.node.name == 'translate':
            head = (f'Definition {fn.coq} ' + ' '.join(sig)
                    + f'\n    : option {rt} :=\n')
        else:
            head = (f'Definition {fn.coq} ' + ' '.join(sig)
                    + f' (T : dict)\n    : res {rt} :=\n')
        self.fn = None
        return head + indent(text) + '.'

    def const_default(self, e, kind):
        if isinstance(e, ast.Constant):
            if e.value is None:
                return 'None'
            if isinstance(e.value, bool) and kind == 'optbool':
                return f'Some {"true" if e.value else "false"}'
            if isinstance(e.value, int) and not isinstance(e.value, bool) \
                    and kind == 'optint' and e.value >= 0:
                return f'Some {e.value}%N'
        raise Refuse(f'default value {_src(e)} of kind {kind}')

    # ---- results
    def ret(self, v, pre):
        fn = self.fn
        if self.discover:
            self.rets.append(v.sort)
            return 'None'
        t = coerce(v, fn.ret)
        if fn.pure or fn.node.name == 'translate':
            return self.wrap(pre, f'Some {t}')
        return self.wrap(pre, f'Some ({t}, T)')

    # ---- statements
    def block(self, stmts, env, top=False):
        """Gallina for a statement list (the rest of the function)."""
        if not stmts:
            raise Refuse(f'{self.fn.coq}: a path falls off the end of the '
                         'function (returns None)')
        s, rest = stmts[0], stmts[1:]
        if isinstance(s, ast.If):
            return self.if_stmt(s, rest, env, top)
        return self.stmt(s, rest, env)

    def branch(self, stmts, env):
        """A branch of an `if`: None when it leaves the subset."""
        try:
            save = dict(env)
            return self.block(stmts, save)
        except Unsupported as u:
            self.note(f'branch NOT translated (None): {u}')
            return f'None (* not translated: {comment(str(u))} *)'

    def returns(self, stmts):
        """Does every path through stmts end in return/raise?"""
        if not stmts:
            return False
        s = stmts[-1]
        if isinstance(s, (ast.Return, ast.Raise)):
            return True
        if isinstance(s, ast.If):
            return self.returns(s.body) and self.returns(s.orelse)
        return False

    def if_stmt(self, s, rest, env, top):
        test = s.test
        # `if X is None:` narrows X
        if isinstance(test, ast.Compare) and len(test.ops) == 1 \
                and isinstance(test.ops[0], (ast.Is, ast.IsNot)) \
                and isinstance(test.comparators[0], ast.Constant) \
                and test.comparators[0].value is None \
                and isinstance(test.left, ast.Name):
            x = test.left.id
            v = self.lookup(x, env)
            inv = {b: a for a, b in OPT.items()}
            if v.sort not in inv:
                raise Refuse(f'`{_src(test)}` on a value of kind {v.sort}')
            isnone, notnone = s.body, s.orelse
            if isinstance(test.ops[0], ast.IsNot):
                isnone, notnone = notnone, isnone
            e_none = dict(env)
            e_none[x] = V('None', 'none')
            e_some = dict(env)
            e_some[x] = V(v.term, 'unit' if inv[v.sort] == 'unit'
                          else inv[v.sort])
            if self.returns(isnone):
                a = self.branch(isnone, e_none)
            else:
                a = self.branch(isnone + rest, e_none)
            if self.returns(notnone):
                b = self.branch(notnone, e_some)
            else:
                b = self.branch(notnone + rest, e_some)
            pat = '_' if inv[v.sort] == 'unit' else v.term
            return (f'match {v.term} with\n| None =>\n{indent(a)}\n'
                    f'| Some {pat} =>\n{indent(b)}\nend')
        pre = []
        c = self.cond(test, env, pre)
        a = self.branch(s.body if self.returns(s.body) else s.body + rest,
                        env)
        b = self.branch(s.orelse if self.returns(s.orelse)
                        else s.orelse + rest, env)
        return self.wrap(pre, f'if {c}\nthen\n{indent(a)}\nelse\n{indent(b)}')

    def stmt(self, s, rest, env):
        k = lambda e=env: self.block(rest, e)
        if isinstance(s, ast.Return):
            if rest:
                raise Refuse('code after return')
            if s.value is None:
                raise Refuse('return without a value')
            pre = []
            v = self.expr(s.value, env, pre, want_tuple=True)
            return self.ret(v, pre)
        if isinstance(s, ast.Raise):
            self.note(f'`{_src(s)[:60]}...` -> None')
            return 'None'
        if isinstance(s, ast.Assert):
            pre = []
            c = self.cond(s.test, env, pre)
            return self.wrap(pre, f'if {c} then\n{k()}\nelse None')
        if isinstance(s, ast.Expr):
            pre = []
            v = self.expr(s.value, env, pre)
            self.note(f'expression statement `{_src(s)}`: value dropped'
                      + ('' if pre else ' (no effect on the translated '
                         'values)'))
            return self.wrap(pre, k())
        if isinstance(s, ast.AugAssign):
            if not isinstance(s.target, ast.Name):
                raise Refuse(f'augmented assignment {_src(s)}')
            e = ast.BinOp(left=ast.Name(id=s.target.id, ctx=ast.Load()),
                          op=s.op, right=s.value)
            ast.copy_location(e, s)
            ast.fix_missing_locations(e)
            s = ast.Assign(targets=[s.target], value=e)
            ast.copy_location(s, e)
        if isinstance(s, ast.Assign):
            if len(s.targets) != 1:
                raise Refuse(f'chained assignment {_src(s)}')
            return self.assign(s.targets[0], s.value, rest, env, s)
        if isinstance(s, ast.For):
            return self.for_stmt(s, rest, env)
        if isinstance(s, ast.Pass):
            return k()
        raise Refuse(f'statement {_src(s)[:60]}')

    def protected(self, name):
        return name in ('testers', 'self') or (
            self.fn.kwarg and name == self.fn.kwarg) or (
            self.fn.vararg and name == self.fn.vararg)

    def assign(self, t, value, rest, env, s):
        pre = []
        if isinstance(t, ast.Name):
            # the state
            if _src(value) == 'dict()' and t.id == 'testers':
                if self.fn.node.name != 'translate' or 'testers' in env:
                    raise Refuse('testers = dict() outside translate / twice')
                env = dict(env)
                env['testers'] = V('(Some tt)', 'dictref')
                env['testers'].thedict = True
                return self.wrap([('letT', None, '[]')],
                                 self.block(rest, env))
            if self.protected(t.id):
                raise Refuse(f'{t.id} is rebound: {_src(s)}')
            if _src(value) == 'dict()':
                env = dict(env)
                env[t.id] = V('[]', 'vdict')
                env[t.id].fresh = True
                return self.block(rest, env)
            if _src(value) == 'parser.parse(s)' \
                    and self.fn.node.name == 'translate':
                self.note('`parser.parse(s)` is NOT translated: the '
                          f'generated function takes the tree `{t.id}`')
                env = dict(env)
                env[t.id] = V('v_tree', 'node')
                self.tree_name = t.id
                return self.block(rest, env)
            v = self.expr(value, env, pre)
            env = dict(env)
            if v.sort == 'gen':
                env[t.id] = v
                return self.wrap(pre, self.block(rest, env))
            nv = V(f'v_{t.id}', v.sort, lit=v.lit)
            if v.lit is not None or v.sort == 'none':
                nv.term = v.term     # constants are pasted
                env[t.id] = nv
                return self.wrap(pre, self.block(rest, env))
            env[t.id] = nv
            pre.append(('let', nv.term, v.term))
            return self.wrap(pre, self.block(rest, env))
        if isinstance(t, ast.Tuple):
            names = []
            for e in t.elts:
                if not isinstance(e, ast.Name) or (
                        e.id != '_' and self.protected(e.id)):
                    raise Refuse(f'assignment target {_src(t)}')
                names.append(e.id)
            v = self.expr(value, env, pre, want_tuple=True)
            env = dict(env)
            if v.sort == 'nodes':
                pats = [f'v_{n}' if n != '_' else '_' for n in names]
                for n in names:
                    if n != '_':
                        env[n] = V(f'v_{n}', 'node')
                body = self.block(rest, env)
                return self.wrap(
                    pre, f'match {v.term} with\n| [{"; ".join(pats)}] =>\n'
                    f'{indent(body)}\n| _ => None\nend')
            if isinstance(v.sort, tuple) and len(v.sort[1]) == len(names):
                pats = []
                for n, srt in zip(names, v.sort[1]):
                    if n == '_':
                        pats.append('_')
                    else:
                        pats.append(f'v_{n}')
                        env[n] = V(f'v_{n}', srt)
                pre.append(('let', "'(" + ', '.join(pats) + ')', v.term))
                return self.wrap(pre, self.block(rest, env))
            raise Refuse(f'unpacking a value of kind {v.sort}: {_src(s)}')
        if isinstance(t, ast.Subscript) and isinstance(t.value, ast.Name):
            d = self.lookup(t.value.id, env)
            key = self.expr(t.slice, env, pre)
            if key.sort != 'str':
                raise Refuse(f'dictionary key of kind {key.sort}')
            val = self.expr(value, env, pre)
            if d.sort in ('dictref', 'unit') and t.value.id == 'testers':
                if val.sort != 'rec':
                    raise Refuse(f'testers[...] = a value of kind {val.sort}')
                self.need_dict(d, pre)
                if self.gen_made:
                    raise Refuse('testers changed after a generator over it '
                                 'was created')
                pre.append(('letT', None,
                            f'd_set {key.term} {val.term} T'))
                return self.wrap(pre, self.block(rest, env))
            if d.sort == 'vdict':
                if val.sort != 'vrec':
                    raise Refuse(f'{t.value.id}[...] = a value of kind '
                                 f'{val.sort}')
                env = dict(env)
                nv = V(f'v_{t.value.id}', 'vdict')
                env[t.value.id] = nv
                pre.append(('let', nv.term,
                            f'd_set {key.term} {val.term} {d.term}'))
                return self.wrap(pre, self.block(rest, env))
        raise Refuse(f'assignment {_src(s)[:60]}')

    def for_stmt(self, s, rest, env):
        if s.orelse:
            raise Refuse('for-else')
        if not (_src(s.iter) == 'testers.items()'
                and isinstance(s.target, ast.Tuple)
                and len(s.target.elts) == 2
                and all(isinstance(e, ast.Name) for e in s.target.elts)):
            raise Unsupported(f'loop `for {_src(s.target)} in '
                              f'{_src(s.iter)}`')
        pre = []
        self.need_dict(self.lookup('testers', env), pre)
        kn, dn = (e.id for e in s.target.elts)
        benv = dict(env)
        benv[kn] = V(f'v_{kn}', 'str')
        benv[dn] = V(f'v_{dn}', 'rec')
        carried = None
        lets = []
        for b in s.body:
            if isinstance(b, ast.Assign) and len(b.targets) == 1 \
                    and isinstance(b.targets[0], ast.Name) \
                    and not self.protected(b.targets[0].id):
                p2 = []
                v = self.expr(b.value, benv, p2)
                if any(m != 'let' for m, _, _ in p2):
                    raise Unsupported('loop body with a partial operation')
                lets += p2
                n = b.targets[0].id
                if v.sort == 'none' or v.lit is not None:
                    benv[n] = V(v.term, v.sort, lit=v.lit)
                else:
                    benv[n] = V(f'v_{n}', v.sort)
                    lets.append(('let', f'v_{n}', v.term))
                continue
            if isinstance(b, ast.Assign) and len(b.targets) == 1 \
                    and isinstance(b.targets[0], ast.Subscript) \
                    and isinstance(b.targets[0].value, ast.Name) \
                    and carried in (None, b.targets[0].value.id):
                carried = b.targets[0].value.id
                d = self.lookup(carried, env)
                if d.sort != 'vdict':
                    raise Unsupported(f'loop changes {carried}')
                p2 = []
                key = self.expr(b.targets[0].slice, benv, p2)
                val = self.expr(b.value, benv, p2)
                if any(m != 'let' for m, _, _ in p2) or key.sort != 'str' \
                        or val.sort != 'vrec':
                    raise Unsupported('loop body: ' + _src(b))
                lets += p2
                lets.append(('let', 'acc',
                             f'd_set {key.term} {val.term} acc'))
                continue
            raise Unsupported('loop body: ' + _src(b)[:50])
        if carried is None:
            raise Unsupported('loop without effect')
        for n in benv:
            if n not in env and any(
                    isinstance(x, ast.Name) and x.id == n
                    for r in rest for x in ast.walk(r)):
                raise Refuse(f'loop variable {n} used after the loop')
        d = self.lookup(carried, env)
        body = self.wrap(lets, 'acc')
        env = dict(env)
        env[carried] = V(f'v_{carried}', 'vdict')
        pre.append(('let', f'v_{carried}',
                    f"fold_left (fun acc '(v_{kn}, v_{dn}) =>\n"
                    f'{indent(body)})\n  (d_items T) {d.term}'))
        return self.wrap(pre, self.block(rest, env))

    # ---- expressions
    def lookup(self, name, env):
        if name not in env:
            raise Refuse(f'unknown name {name} in {self.fn.coq}')
        return env[name]

    def need_dict(self, d, pre):
        """`testers` must be the dictionary, not None."""
        if d.sort == 'unit' or getattr(d, 'thedict', False):
            return
        if d.sort != 'dictref':
            raise Refuse(f'a value of kind {d.sort} used as the dictionary')
        pre.append(('opt', '_', d.term))

    def cond(self, e, env, pre):
        """A test: Gallina bool by Python's truth value."""
        if isinstance(e, ast.BoolOp):
            parts = [self.cond(e.values[0], env, pre)]
            for x in e.values[1:]:
                p2 = []
                c = self.cond(x, env, p2)
                if p2:
                    raise Refuse('partial operation on the right of '
                                 f'and/or in a test: {_src(e)}')
                parts.append(c)
            op = ' && ' if isinstance(e.op, ast.And) else ' || '
            return '(' + op.join(parts) + ')'
        if isinstance(e, ast.UnaryOp) and isinstance(e.op, ast.Not):
            return f'(negb {self.cond(e.operand, env, pre)})'
        v = self.expr(e, env, pre)
        if v.sort == 'bool':
            return v.term
        if v.sort == 'optbool':
            return f'(opt_true {v.term})'
        raise Refuse(f'truth value of a value of kind {v.sort}: {_src(e)}')

    def expr(self, e, env, pre, want_tuple=False, cond=False):
        m = getattr(self, 'e_' + type(e).__name__, None)
        if m is None:
            raise Unsupported(f'expression {_src(e)[:60]}')
        if isinstance(e, ast.Tuple):
            return m(e, env, pre, want_tuple)
        return m(e, env, pre)

    def hoist(self, mode, term, sort, pre):
        t = self.fresh()
        pre.append((mode, t, term))
        return V(t, sort)

    def e_Name(self, e, env, pre):
        v = self.lookup(e.id, env)
        if v.sort == 'emptyargs':
            raise Refuse(f'*{e.id} used as a value')
        return v

    def e_Constant(self, e, env, pre):
        c = e.value
        if c is None:
            return V('None', 'none')
        if isinstance(c, bool):
            return V('true' if c else 'false', 'bool')
        if isinstance(c, int):
            if c < 0:
                raise Refuse('negative integer')
            return V(f'{c}%N', 'int')
        if isinstance(c, str):
            if '\n' in c:
                return self.template([('text', c)], e, pre)
            return V(coq_str(c), 'str', lit=c)
        raise Refuse(f'constant {c!r}')

    def e_Attribute(self, e, env, pre):
        if isinstance(e.value, ast.Name) and e.value.id in env \
                and env[e.value.id].sort == 'node':
            x = env[e.value.id]
            if e.attr in ('value', 'operator'):
                return self.hoist('opt', f'node_{e.attr} {x.term}', 'str',
                                  pre)
            if e.attr == 'operands':
                return self.hoist('opt', f'node_operands {x.term}', 'nodes',
                                  pre)
        raise Unsupported(f'attribute {_src(e)}')

    def e_Subscript(self, e, env, pre):
        if isinstance(e.value, ast.Name) and e.value.id == 'testers':
            d = self.lookup('testers', env)
            self.need_dict(d, pre)
            k = self.expr(e.slice, env, pre)
            if k.sort != 'str':
                raise Refuse(f'key of kind {k.sort}')
            return self.hoist('opt', f'd_get {k.term} T', 'rec', pre)
        b = self.expr(e.value, env, pre)
        if b.sort == 'nodes' and isinstance(e.slice, ast.Constant) \
                and isinstance(e.slice.value, int) and e.slice.value >= 0:
            return self.hoist(
                'opt', f'nth_error {b.term} {e.slice.value}', 'node', pre)
        if b.sort == 'rec' and isinstance(e.slice, ast.Constant) \
                and e.slice.value in TREC:
            f, srt = TREC[e.slice.value]
            return V(f'({f} {b.term})', srt)
        raise Unsupported(f'subscript {_src(e)}')

    def parts_of(self, e, env, pre):
        """Text parts of a string-building expression (Python evaluation
        order); anything else is a hole."""
        if isinstance(e, ast.Constant) and isinstance(e.value, str):
            return [('text', e.value)]
        if isinstance(e, ast.JoinedStr):
            parts = []
            for v in e.values:
                if isinstance(v, ast.Constant):
                    parts.append(('text', v.value))
                elif isinstance(v, ast.FormattedValue) \
                        and v.conversion == -1 and v.format_spec is None:
                    parts += self.parts_of(v.value, env, pre)
                else:
                    raise Refuse(f'f-string conversion/format: {_src(e)}')
            return parts
        if isinstance(e, ast.BinOp) and isinstance(e.op, ast.Add) and (
                self.is_stringy(e.left) or self.is_stringy(e.right)):
            return self.parts_of(e.left, env, pre) \
                + self.parts_of(e.right, env, pre)
        if isinstance(e, ast.Call) and isinstance(e.func, ast.Attribute) \
                and e.func.attr == 'join' \
                and isinstance(e.func.value, ast.Constant) \
                and isinstance(e.func.value.value, str) \
                and len(e.args) == 1 and not e.keywords \
                and isinstance(e.args[0], (ast.List, ast.Tuple)):
            parts = []
            for i, x in enumerate(e.args[0].elts):
                if i:
                    parts.append(('text', e.func.value.value))
                parts += self.parts_of(x, env, pre)
            return parts
        return [('hole', self.expr(e, env, pre))]

    @staticmethod
    def is_stringy(e):
        return isinstance(e, ast.JoinedStr) or (
            isinstance(e, ast.Constant) and isinstance(e.value, str)) or (
            isinstance(e, ast.BinOp) and isinstance(e.op, ast.Add)
            and (Compiler.is_stringy(e.left) or Compiler.is_stringy(e.right)))

    def e_JoinedStr(self, e, env, pre):
        return self.template(self.parts_of(e, env, pre), e, pre)

    def template(self, parts, e, pre):
        v = read_template_logged(self, parts, e)
        if isinstance(v, tuple):       # (term with placeholders, partial)
            term, partial = v
            for name, t in partial:
                h = self.fresh()
                pre.append(('opt', h, t))
                term = term.replace(name, h)
                partial = [(n2, t2.replace(name, h)) for n2, t2 in partial]
            return V(term, 'form')
        return v

    def e_BinOp(self, e, env, pre):
        if isinstance(e.op, ast.Add) and self.is_stringy(e):
            return self.template(self.parts_of(e, env, pre), e, pre)
        if isinstance(e.op, ast.Add):
            a = self.expr(e.left, env, pre)
            b = self.expr(e.right, env, pre)
            if a.sort in ('int', 'optint') and b.sort == 'int':
                if a.sort == 'int':
                    return V(f'({a.term} + {b.term})%N', 'int')
                return self.hoist(
                    'opt', f'(match {a.term} with Some n => Some (n + '
                    f'{b.term})%N | None => None end)', 'int', pre)
            if a.sort in ('str', 'form') and b.sort in ('str', 'form'):
                parts = [('hole', a), ('hole', b)]
                return self.template(parts, e, pre)
        raise Unsupported(f'operation {_src(e)}')

    def e_Compare(self, e, env, pre):
        if len(e.ops) != 1:
            raise Refuse(f'chained comparison {_src(e)}')
        op, r = e.ops[0], e.comparators[0]
        if isinstance(op, (ast.Is, ast.IsNot)) and isinstance(
                r, ast.Constant) and r.value is None:
            a = self.expr(e.left, env, pre)
            if a.sort == 'none':
                t = 'false'
            elif a.sort in OPT.values():
                t = f'(is_some {a.term})'
            elif a.sort in OPT or a.sort == 'unit':
                t = 'true'
            else:
                raise Refuse(f'`is None` on kind {a.sort}')
            if isinstance(op, ast.Is):
                t = {'true': 'false', 'false': 'true'}.get(t, f'(negb {t})')
            return V(t, 'bool')
        if isinstance(op, (ast.In, ast.NotIn)):
            a = self.expr(e.left, env, pre)
            if isinstance(r, ast.Name) and r.id == 'testers':
                d = self.lookup('testers', env)
                self.need_dict(d, pre)
                if a.sort != 'str':
                    raise Refuse(f'key of kind {a.sort}')
                t = f'(d_mem {a.term} T)'
            elif isinstance(r, (ast.Tuple, ast.List)) and all(
                    isinstance(x, ast.Constant) and isinstance(x.value, str)
                    for x in r.elts) and a.sort == 'str':
                t = (f'(str_in {a.term} ['
                     + '; '.join(coq_str(x.value) for x in r.elts) + '])')
            else:
                raise Refuse(f'membership {_src(e)}')
            if isinstance(op, ast.NotIn):
                t = f'(negb {t})'
            return V(t, 'bool')
        if isinstance(op, (ast.Eq, ast.NotEq)):
            a = self.expr(e.left, env, pre)
            b = self.expr(r, env, pre)
            j = join_sort(a.sort, b.sort)
            x, y = coerce(a, j), coerce(b, j)
            if j == 'str':
                t = f'(String.eqb {x} {y})'
            elif j == 'ctx':
                t = f'(opt_str_eqb {x} {y})'
            elif j == 'form':
                self.note(f'`{_src(e)}`: == between formula strings read as '
                          'equality of trees (tform_eqb)')
                t = f'(tform_eqb {x} {y})'
            elif j == 'bool':
                t = f'(Bool.eqb {x} {y})'
            elif j == 'int':
                t = f'(N.eqb {x} {y})'
            else:
                raise Refuse(f'== on kind {j}: {_src(e)}')
            if isinstance(op, ast.NotEq):
                t = f'(negb {t})'
            return V(t, 'bool')
        raise Refuse(f'comparison {_src(e)}')

    def e_BoolOp(self, e, env, pre):
        vals = [self.expr(e.values[0], env, pre)]
        if vals[0].sort != 'bool':
            raise Refuse(f'and/or on kind {vals[0].sort}: {_src(e)}')
        acc = vals[0].term
        is_or = isinstance(e.op, ast.Or)
        for x in e.values[1:]:
            p2 = []
            v = self.expr(x, env, p2)
            if v.sort != 'bool':
                raise Refuse(f'and/or on kind {v.sort}: {_src(e)}')
            if not p2:
                acc = (f'(if {acc} then true else {v.term})' if is_or
                       else f'(if {acc} then {v.term} else false)')
                continue
            if any(m == 'st' for m, _, _ in p2):
                raise Refuse(f'a call under and/or: {_src(e)}')
            inner = self.wrap(p2, f'Some {v.term}')
            t = (f'(if {acc} then Some true else\n{indent(inner)})' if is_or
                 else f'(if {acc} then\n{indent(inner)}\n else Some false)')
            acc = self.hoist('opt', t, 'bool', pre).term
        return V(acc, 'bool')

    def e_UnaryOp(self, e, env, pre):
        if isinstance(e.op, ast.Not):
            return V(f'(negb {self.cond(e.operand, env, pre)})', 'bool')
        raise Unsupported(f'operation {_src(e)}')

    def e_Tuple(self, e, env, pre, want_tuple=False):
        vals = [self.expr(x, env, pre) for x in e.elts]
        if vals and all(v.sort == 'node' for v in vals):
            # a tuple of nodes is only ever unpacked or indexed: a list
            return V('[' + '; '.join(v.term for v in vals) + ']', 'nodes')
        r = V('(' + ', '.join(v.term for v in vals) + ')',
              ('tuple', tuple(v.sort for v in vals)))
        r.parts = vals
        return r

    def comprehension(self, e, env, pre):
        if len(e.generators) != 1:
            raise Unsupported(f'comprehension {_src(e)}')
        g = e.generators[0]
        if g.is_async or not isinstance(g.target, ast.Name):
            raise Unsupported(f'comprehension {_src(e)}')
        x = g.target.id
        if _src(g.iter) == 'testers.values()':
            self.need_dict(self.lookup('testers', env), pre)
            benv = dict(env)
            benv[x] = V(f'v_{x}', 'rec')
            p2 = []
            elt = self.expr(e.elt, benv, p2)
            if p2:
                raise Unsupported(f'comprehension {_src(e)}')
            term = f'(map (fun v_{x} => {elt.term}) (d_values T))'
            if g.ifs:
                if len(g.ifs) != 1 or _src(g.ifs[0]) != \
                        f'{_src(e.elt)} is not None' \
                        or elt.sort != 'optform':
                    raise Unsupported(f'comprehension filter {_src(e)}')
                return V(f'(filter_some {term})', 'forms')
            if elt.sort != 'form':
                raise Unsupported(f'comprehension of kind {elt.sort}')
            return V(term, 'forms')
        raise Unsupported(f'comprehension {_src(e)}')

    def e_GeneratorExp(self, e, env, pre):
        v = self.comprehension(e, env, pre)
        # lazy: evaluated where it is consumed; the same value as long as
        # the dictionary is not changed in between (checked)
        self.gen_made = True
        return self.hoist('let', v.term, v.sort, pre)

    def e_ListComp(self, e, env, pre):
        v = self.comprehension(e, env, pre)
        return self.hoist('let', v.term, v.sort, pre)

    # ---- calls
    def e_Call(self, e, env, pre):
        f = e.func
        fs = _src(f)
        if fs == 'isinstance' and len(e.args) == 2 and not e.keywords:
            x = self.expr(e.args[0], env, pre)
            c = _src(e.args[1])
            if x.sort == 'node' and c in ('Nodes.Var', 'Nodes.Bool'):
                return V(f'(is_{c[6:]} {x.term})', 'bool')
            raise Unsupported(f'isinstance({_src(e.args[0])}, {c})')
        if fs == 'len' and len(e.args) == 1 and not e.keywords \
                and _src(e.args[0]) == 'testers':
            self.need_dict(self.lookup('testers', env), pre)
            return self.hoist('let', 'd_len T', 'int', pre)
        if fs == 'conj' and len(e.args) == 1 and not e.keywords:
            a = self.expr(e.args[0], env, pre)
            if a.sort != 'forms':
                raise Unsupported(f'conj of kind {a.sort}')
            self.note('omega.logic.syntax.conj is NOT translated: '
                      '`conj(...)` is PastModel.conj (conjunction by '
                      'meaning)')
            return V(f'(py_conj {a.term})', 'form')
        if fs == 'dict' and not e.args:
            keys = [k.arg for k in e.keywords]
            vals = {k.arg: self.expr(k.value, env, pre) for k in e.keywords}
            if sorted(keys) == sorted(TREC):
                args = [coerce(vals[k], TREC[k][1]) for k in TREC]
                return V('(mkRec ' + ' '.join(args) + ')', 'rec')
            if sorted(keys) == sorted(VREC):
                if vals['dom'].sort != 'none':
                    raise Refuse('dvars: dom is not None')
                return V(f'(mkVar {coerce(vals["type"], "str")} None '
                         f'{coerce(vals["owner"], "str")})', 'vrec')
            raise Refuse(f'dict with keys {keys}')
        if fs in ('Nodes.Bool', 'Nodes.Unary', 'Nodes.Binary',
                  'Nodes.Operator', 'Nodes.Var') and not e.keywords:
            cls = fs[6:]
            args = [self.expr(a, env, pre) for a in e.args]
            if cls == 'Bool' and len(args) == 1 and args[0].lit in BOOL_TEXT:
                return V(f'(NBool {BOOL_TEXT[args[0].lit]})', 'node')
            if cls == 'Var' and len(args) == 1 and args[0].sort == 'str':
                return V(f'(NVar {args[0].term})', 'node')
            if cls in OPCLASS and args and args[0].sort == 'str' and all(
                    a.sort == 'node' for a in args[1:]):
                ops = '; '.join(a.term for a in args[1:])
                return V(f'(NOp {OPCLASS[cls]} {args[0].term} [{ops}])',
                         'node')
            raise Unsupported(f'constructor {_src(e)}')
        if isinstance(f, ast.Attribute):
            base = f.value
            # kw.get('context'), d.get('dom')
            if f.attr == 'get' and len(e.args) == 1 and not e.keywords \
                    and isinstance(e.args[0], ast.Constant) \
                    and isinstance(base, ast.Name):
                b = self.lookup(base.id, env)
                key = e.args[0].value
                if b.sort == 'kw' and key in KWSLOTS:
                    return V(f'(kw_get_{key} {b.term})', KWSLOTS[key])
                if b.sort == 'rec' and key not in TREC:
                    return V('None', 'none')
                raise Unsupported(f'{_src(e)}')
            # sep.join(...)
            if f.attr == 'join' and isinstance(base, ast.Constant) \
                    and isinstance(base.value, str) and len(e.args) == 1 \
                    and not e.keywords:
                return self.join(base.value, e.args[0], env, pre, e)
            # x.flatten(...)
            if f.attr == 'flatten':
                if _src(base) == 'super()':
                    if not self.fn.is_method:
                        raise Refuse('super() outside a method')
                    if any(not isinstance(a, ast.Starred) for a in e.args):
                        raise Refuse('positional argument to flatten: '
                                     + _src(e))
                    tgt = self.src.resolve((self.fn.module, self.fn.cls),
                                           after=True)
                    name = tgt if isinstance(tgt, str) else tgt.coq
                    kw = self.call_kwargs(e, env, pre, 0)
                    return self.hoist('st', f'{name} rec self {kw}', 'form',
                                      pre)
                if any(not isinstance(a, ast.Starred) for a in e.args):
                    raise Refuse(f'positional argument to flatten: {_src(e)}')
                x = self.expr(base, env, pre)
                if x.sort != 'node':
                    raise Refuse(f'.flatten of a value of kind {x.sort}')
                kw = self.call_kwargs(e, env, pre, 0)
                return self.hoist('st', f'rec {x.term} {kw}', 'form', pre)
        if isinstance(f, ast.Name) and f.id in self.src.funcs:
            g = self.src.funcs[f.id]
            if g.ret is None:
                raise Refuse(f'{f.id} called before it is translated '
                             '(recursion outside flatten)')
            n = len(e.args) - sum(isinstance(a, ast.Starred) for a in e.args)
            if n != g.npos:
                raise Refuse(f'{f.id}: called with {n} positional '
                             f'arguments, elsewhere with {g.npos}')
            args = []
            for a, p in zip([a for a in e.args
                             if not isinstance(a, ast.Starred)], g.params):
                v = self.expr(a, env, pre)
                args.append(coerce(v, POSITIONAL[p]))
            if g.kwarg is None:
                if e.keywords or any(isinstance(a, ast.Starred)
                                     for a in e.args):
                    raise Refuse(f'{f.id}: keywords/star arguments to a '
                                 'function without **kw')
                if n != len(g.params):
                    raise Refuse(f'{f.id}: {n} arguments for '
                                 f'{len(g.params)} parameters')
                kw = ''
            else:
                kw = ' ' + self.call_kwargs(e, env, pre, n)
            call = f'{g.coq} ' + ('' if g.pure else 'rec ') \
                + ' '.join(args) + kw
            r = self.hoist('opt' if g.pure else 'st', call, g.ret, pre)
            if isinstance(g.ret, tuple):
                names = [f'{r.term}_{i}' for i in range(len(g.ret[1]))]
                mode, _, term = pre.pop()
                pat = '(' + ', '.join(names) + ')'
                pre.append((mode, pat, term))
                r = V(pat, g.ret)
                r.parts = [V(nm, srt) for nm, srt in zip(names, g.ret[1])]
            return r
        raise Unsupported(f'call {_src(e)[:60]}')

    def call_kwargs(self, e, env, pre, npos):
        """The kwargs record a call passes; checks the *arg discipline."""
        stars = [a for a in e.args if isinstance(a, ast.Starred)]
        for a in stars:
            if not (isinstance(a.value, ast.Name) and self.fn.vararg
                    and a.value.id == self.fn.vararg):
                raise Refuse(f'star argument {_src(a)}')
        if len(stars) > 1 or (stars and e.args[-1] is not stars[0]):
            raise Refuse(f'positional after star argument: {_src(e)}')
        if stars:
            self.note(f'*{self.fn.vararg} is always empty (no call passes '
                      'more positional arguments than the callee names)')
        base = 'kw_empty'
        dd = [k for k in e.keywords if k.arg is None]
        if len(dd) > 1:
            raise Refuse(f'two ** arguments: {_src(e)}')
        if dd:
            b = self.expr(dd[0].value, env, pre)
            if b.sort != 'kw':
                raise Refuse(f'** of a value of kind {b.sort}')
            base = b.term
        for k in e.keywords:
            if k.arg is None:
                continue
            if k.arg not in KWSLOTS:
                raise Refuse(f'keyword {k.arg} in {_src(e)[:50]}')
            v = self.expr(k.value, env, pre)
            if k.arg == 'testers':
                if not (isinstance(k.value, ast.Name)
                        and k.value.id == 'testers'):
                    raise Refuse('testers= something other than testers')
                t = '(Some tt)' if v.sort == 'unit' else v.term
            else:
                t = coerce(v, KWSLOTS[k.arg])
            base = self.hoist('opt', f'kw_add_{k.arg} {t} {base}', 'kw',
                              pre).term
        return base

    def join(self, sep, arg, env, pre, e):
        if isinstance(arg, (ast.List, ast.Tuple)):
            return self.template(self.parts_of(e, env, pre), e, pre)
        if isinstance(arg, ast.GeneratorExp) and sep == ', ':
            g = arg.generators
            if len(g) == 1 and not g[0].ifs and isinstance(
                    g[0].target, ast.Name) and isinstance(arg.elt, ast.Call) \
                    and isinstance(arg.elt.func, ast.Attribute) \
                    and arg.elt.func.attr == 'flatten' \
                    and _src(arg.elt.func.value) == g[0].target.id:
                xs = self.expr(g[0].iter, env, pre)
                if xs.sort != 'nodes':
                    raise Unsupported(f'join over kind {xs.sort}')
                benv = dict(env)
                benv[g[0].target.id] = V('_', 'node')
                p2 = []
                kw = self.call_kwargs(arg.elt, benv, p2, 0)
                if any(m == 'st' for m, _, _ in p2):
                    raise Refuse('call inside keyword arguments')
                pre += p2
                return self.hoist('st', f'map_flatten rec {xs.term} {kw}',
                                  'csv', pre)
        raise Unsupported(f'join {_src(e)[:60]}')


def read_template_logged(comp, parts, e):
    where = f'{comp.fn.coq} line {getattr(e, "lineno", "?")}'
    v = read_template(parts, where)
    shown = show_parts(parts)
    if isinstance(v, V):
        if v.lit is None and len(parts) > 1:
            comp.templates.append((where, shown, v.term))
        return v
    term, partial = v
    t = term
    for name, sub in partial:
        t = t.replace(name, '<' + sub + '>')
    for name, sub in partial:       # nested placeholders
        t = t.replace(name, '<' + sub + '>')
    comp.templates.append((where, shown, t))
    return v


def indent(s, n=2):
    pad = ' ' * n
    return '\n'.join(pad + ln if ln else ln for ln in s.split('\n'))


# ------------------------------------------------------------------ driver
TRANSLATED_FUNCS = ['_make_tester_for_previous', '_flatten_previous',
                    '_flatten_since', '_flatten_until', 'translate']
NOT_TRANSLATED = {
    'map_translate': 'not translated (tie H: not modelled either)',
}


def calls_in(node):
    for n in ast.walk(node):
        if isinstance(n, ast.Call):
            yield n


def prepare(src):
    funcs = src.funcs
    for name in list(funcs):
        if name not in TRANSLATED_FUNCS:
            if name in NOT_TRANSLATED:
                src.notes.append(f'past.{name}: {NOT_TRANSLATED[name]}')
                del funcs[name]
            else:
                raise Refuse(f'past.py: unexpected function {name}')
    for name in TRANSLATED_FUNCS:
        if name not in funcs:
            raise Refuse(f'past.py: function {name} not found')
    methods = []
    for key, (bases, meths) in src.classes.items():
        for m in meths.values():
            m.npos = 0
            m.ret = 'form'
            methods.append(m)
    allf = list(funcs.values()) + methods
    # number of positional arguments at the call sites
    for f in allf:
        for c in calls_in(f.node):
            if isinstance(c.func, ast.Name) and c.func.id in funcs:
                g = funcs[c.func.id]
                n = sum(not isinstance(a, ast.Starred) for a in c.args)
                if g.npos is None:
                    g.npos = n
                elif g.npos != n:
                    raise Refuse(f'{c.func.id}: called with {n} and with '
                                 f'{g.npos} positional arguments')
                if n > len(g.params):
                    raise Refuse(f'{c.func.id}: {n} positional arguments, '
                                 f'{len(g.params)} named parameters (*arg '
                                 'would not be empty)')
    tr = funcs['translate']
    if tr.npos is not None:
        raise Refuse('translate is called inside past.py')
    tr.npos = len(tr.params)
    if tr.params[:1] != ['s'] or tr.kwarg or tr.vararg:
        raise Refuse('translate: signature')
    for f in funcs.values():
        if f.npos is None:
            raise Refuse(f'{f.node.name} is never called')
    # purity
    for f in funcs.values():
        f.pure = (f.kwarg is None and 'testers' not in f.params
                  and f.node.name != 'translate'
                  and not any(isinstance(c.func, ast.Attribute)
                              and c.func.attr == 'flatten'
                              for c in calls_in(f.node)))
    changed = True
    while changed:
        changed = False
        for f in funcs.values():
            if f.pure and any(isinstance(c.func, ast.Name)
                              and c.func.id in funcs
                              and not funcs[c.func.id].pure
                              for c in calls_in(f.node)):
                f.pure = False
                changed = True
    # order: callees first
    order, seen = [], set()

    def visit(f, stack=()):
        if f in seen:
            return
        if f in stack:
            raise Refuse(f'{f.node.name}: recursion outside flatten')
        for c in calls_in(f.node):
            if isinstance(c.func, ast.Name) and c.func.id in funcs:
                visit(funcs[c.func.id], stack + (f,))
        seen.add(f)
        order.append(f)
    for name in TRANSLATED_FUNCS:
        if name != 'translate':
            visit(funcs[name])
    return order, methods


def dispatch_text(src):
    lines = ['Definition dispatch (rec : flat) (self : node)\n'
             '    : kwargs -> dict -> res tform :=\n  match self with']
    for cls, pat in CLASS_OF_NODE:
        if cls == 'Comparator':
            tgt = 'opaque_Comparator_flatten'
            why = 'Nodes.Comparator: NOT translated'
        else:
            key = ('past', cls) if ('past', cls) in src.classes \
                else ('ast', cls)
            if key not in src.classes:
                raise Refuse(f'class Nodes.{cls} not found')
            t = src.resolve(key)
            tgt = t if isinstance(t, str) else t.coq
            why = f'Nodes.{cls}'
        lines.append(f'  | {pat} => {tgt} rec self   (* {why} *)')
    lines.append('  end.')
    return '\n'.join(lines)


def translate(repo, astutils_path=None):
    """(text of the translated definitions, template table, notes)."""
    src = Sources(repo, astutils_path)
    order, methods = prepare(src)
    comp = Compiler(src)
    out = []
    # methods: the targets of super() first
    def mkey(m):
        return {'astutils': 0, 'ast': 1, 'past': 2}[m.module]
    methods = sorted(methods, key=mkey)
    pure_first = [f for f in order if f.pure]
    rest = [f for f in order if not f.pure]
    for f in pure_first:
        out.append(comp.function(f))
    for m in methods:
        if m.module != 'past':
            out.append(comp.function(m))
    for f in rest:
        out.append(comp.function(f))
    for m in methods:
        if m.module == 'past':
            out.append(comp.function(m))
    out.append(dispatch_text(src))
    out.append('(* recursion through x.flatten(...): fuel = bound on the '
               'depth of nested\n   flatten calls (RecursionError = None) *)\n'
               'Fixpoint flatten (fuel : nat) : flat :=\n'
               '  match fuel with\n'
               '  | O => fun _ _ _ => None\n'
               '  | S fuel\' => dispatch (flatten fuel\')\n'
               '  end.')
    out.append(comp.function(src.funcs['translate']))
    tr = src.funcs['translate']
    out.append(f'Definition translate (fuel : nat) := {tr.coq} '
               '(flatten fuel).')
    return '\n\n'.join(out) + '\n', comp.templates, src.notes


HEADER = r'''(* GENERATED by tools/py2coq_past.py from
     omega/logic/past.py : Nodes.{Operator,Unary,Binary,Var}.flatten,
                           _flatten_previous, _make_tester_for_previous,
                           _flatten_since, _flatten_until, translate
     omega/logic/ast.py  : Nodes.{Operator,Binary}.flatten (targets of super())
     astutils/ast.py     : Operator.flatten (target of super() for Unary)
   in the working tree of the omega repository (astutils: the installed one).
   Do not edit; regenerated on every check run.

   Python names are prefixed with v_; t1, t2, ... are intermediate values.
   Every translated function that can touch `testers` is a term of
   [dict -> res A] = dict -> option (A * dict): None is ANY exception (failed
   assert, raise, TypeError of the call protocol, KeyError, IndexError,
   RecursionError = out of fuel) or a branch outside the translated subset
   (listed in the notes at the end).  See tools/py2coq_past.py. *)
From Coq Require Import String Ascii List Bool NArith DecimalString.
From Omega Require Import L6Past.PastSyntax.
From Omega Require L6Past.PastModel.
Import ListNotations.
Open Scope string_scope.

(* ---- fixed prelude: the meaning of the Python constructs used ----------- *)
(* trees returned by the parser (omega.logic.lexyacc.Parser(nodes=past.Nodes)):
   NVar = Nodes.Var, NBool = Nodes.Bool (value TRUE/FALSE in any accepted
   spelling), NOp c = Nodes.Operator / Nodes.Unary / Nodes.Binary with the
   fields `operator`, `operands`; NAtom a = a Nodes.Comparator subtree, kept
   opaque and identified by its text a (Comparator/Arithmetic.flatten are NOT
   translated) *)
Inductive opclass : Type := COperator | CUnary | CBinary.
Inductive node : Type :=
| NVar (value : string)
| NBool (b : bool)
| NAtom (a : string)
| NOp (c : opclass) (operator : string) (operands : list node).

(* attribute access; AttributeError = None *)
Definition node_value (x : node) : option string :=
  match x with NVar v => Some v | _ => None end.
Definition node_operator (x : node) : option string :=
  match x with NOp _ o _ => Some o | _ => None end.
Definition node_operands (x : node) : option (list node) :=
  match x with NOp _ _ l => Some l | _ => None end.
Definition is_Var (x : node) : bool :=
  match x with NVar _ => true | _ => false end.
Definition is_Bool (x : node) : bool :=
  match x with NBool _ => true | _ => false end.

(* dict(type=..., init=..., trans=..., win=...): one value of `testers` *)
Record trec : Type := mkRec {
  r_type : string; r_init : tform; r_trans : tform; r_win : option tform }.
(* dict(type=..., dom=..., owner=...): one value of `dvars`; `dom` is
   d.get('dom') of a tester, which has no such key: always None *)
Record vrec : Type := mkVar {
  v_type : string; v_dom : option unit; v_owner : string }.

(* Python dict with string keys: insertion ordered; d[k] = v overwrites in
   place when k is present, else appends *)
Definition pydict (V : Type) : Type := list (string * V).
Fixpoint d_get {V : Type} (k : string) (d : pydict V) : option V :=
  match d with
  | [] => None
  | (k', v) :: d' => if String.eqb k' k then Some v else d_get k d'
  end.
Fixpoint d_set {V : Type} (k : string) (v : V) (d : pydict V) : pydict V :=
  match d with
  | [] => [(k, v)]
  | (k', v') :: d' =>
      if String.eqb k' k then (k, v) :: d' else (k', v') :: d_set k v d'
  end.
Definition d_mem {V : Type} (k : string) (d : pydict V) : bool :=
  match d_get k d with Some _ => true | None => false end.
Definition d_len {V : Type} (d : pydict V) : N := N.of_nat (List.length d).
Definition d_values {V : Type} (d : pydict V) : list V := map snd d.
Definition d_items {V : Type} (d : pydict V) : list (string * V) := d.
Definition dict : Type := pydict trec.

(* keyword arguments ( **kw ): one slot per keyword used in the sources; a slot
   is None when the key is absent, Some v when present (v itself may be
   Python's None).  The value of `testers` is THE dictionary created by
   translate (Some tt; the translator checks that no other dictionary is ever
   passed under that name), which is threaded through as the state. *)
Record kwargs : Type := mkKw {
  kw_testers : option (option unit);
  kw_context : option (option string);
  kw_until : option (option bool);
  kw_previous : option (option N);
  kw_strong : option (option bool) }.
Definition kw_empty : kwargs := mkKw None None None None None.
(* f(k=v, **kw): TypeError (None) when kw already has k *)
Definition kw_add_testers (v : option unit) (k : kwargs) : option kwargs :=
  match kw_testers k with
  | None => Some (mkKw (Some v) (kw_context k) (kw_until k) (kw_previous k)
                       (kw_strong k))
  | Some _ => None end.
Definition kw_add_context (v : option string) (k : kwargs) : option kwargs :=
  match kw_context k with
  | None => Some (mkKw (kw_testers k) (Some v) (kw_until k) (kw_previous k)
                       (kw_strong k))
  | Some _ => None end.
Definition kw_add_until (v : option bool) (k : kwargs) : option kwargs :=
  match kw_until k with
  | None => Some (mkKw (kw_testers k) (kw_context k) (Some v) (kw_previous k)
                       (kw_strong k))
  | Some _ => None end.
Definition kw_add_previous (v : option N) (k : kwargs) : option kwargs :=
  match kw_previous k with
  | None => Some (mkKw (kw_testers k) (kw_context k) (kw_until k) (Some v)
                       (kw_strong k))
  | Some _ => None end.
Definition kw_add_strong (v : option bool) (k : kwargs) : option kwargs :=
  match kw_strong k with
  | None => Some (mkKw (kw_testers k) (kw_context k) (kw_until k)
                       (kw_previous k) (Some v))
  | Some _ => None end.
(* kw.get(k): None when absent *)
Definition kw_get_testers (k : kwargs) : option unit :=
  match kw_testers k with Some v => v | None => None end.
Definition kw_get_context (k : kwargs) : option string :=
  match kw_context k with Some v => v | None => None end.
Definition kw_get_until (k : kwargs) : option bool :=
  match kw_until k with Some v => v | None => None end.
Definition kw_get_previous (k : kwargs) : option N :=
  match kw_previous k with Some v => v | None => None end.
Definition kw_get_strong (k : kwargs) : option bool :=
  match kw_strong k with Some v => v | None => None end.

Definition res (A : Type) : Type := option (A * dict).
(* x.flatten( **kw ) for a node x of any class *)
Definition flat : Type := node -> kwargs -> dict -> res tform.

(* sep.join(x.flatten( *arg, **kw ) for x in xs): the calls, in order *)
Fixpoint map_flatten (rec : flat) (xs : list node) (kw : kwargs) (T : dict)
    : res (list tform) :=
  match xs with
  | [] => Some ([], T)
  | x :: xs' =>
      match rec x kw T with
      | Some (a, T1) =>
          match map_flatten rec xs' kw T1 with
          | Some (l, T2) => Some (a :: l, T2)
          | None => None
          end
      | None => None
      end
  end.

(* comparisons; truth values *)
Definition opt_str_eqb (a b : option string) : bool :=
  match a, b with
  | Some x, Some y => String.eqb x y
  | None, None => true
  | _, _ => false
  end.
Fixpoint str_in (s : string) (l : list string) : bool :=
  match l with [] => false | x :: l' => if String.eqb s x then true else str_in s l' end.
Definition opt_true (b : option bool) : bool :=
  match b with Some true => true | _ => false end.
Definition is_some {A : Type} (o : option A) : bool :=
  match o with Some _ => true | None => false end.
Fixpoint filter_some {A : Type} (l : list (option A)) : list A :=
  match l with
  | [] => []
  | Some x :: l' => x :: filter_some l'
  | None :: l' => filter_some l'
  end.
(* str(i) of a non-negative int inside an f-string *)
Definition dec (i : N) : string := NilEmpty.string_of_uint (N.to_uint i).

(* ---- strings that are formulas: read as the trees the parser returns ----
   A Python string holding a formula is a [tform]; every such string built in
   the sources is CLOSED (an identifier, TRUE/FALSE, f(...), or text inside
   one pair of parentheses), so it stands for one subtree wherever it is
   pasted.  A name pasted where a formula is expected is [TVar name].
   Static templates (f-strings, joins, +) are read by the fixed grammar of
   tools/py2coq_past.py; each one is listed below with the term it became.
   An operator that is only known at run time (self.operator) is read through
   these three fixed tables (None = not an operator of the Boolean fragment
   modelled by [tform]): *)
(* "( {a} {op} {b} )" *)
Definition t_binary (op : string) (a b : tform) : option tform :=
  if String.eqb op "/\" then Some (TBin OAnd a b)
  else if String.eqb op "\/" then Some (TBin OOr a b)
  else if String.eqb op "=>" then Some (TBin OImp a b)
  else if String.eqb op "<=>" then Some (TBin OIff a b)
  else if String.eqb op "^" then Some (TBin OXor a b)
  else if String.eqb op "U" then Some (TUntil a b)
  else None.
(* "( {op} {x} )" *)
Definition t_prefix (op : string) (l : list tform) : option tform :=
  match l with
  | [x] =>
      if String.eqb op "~" then Some (TNot x)
      else if String.eqb op "X" then Some (TNext x)
      else if String.eqb op "[]" then Some (TAlways x)
      else if String.eqb op "<>" then Some (TEvent x)
      else None
  | _ => None
  end.
(* "{op}({a}, {b}, {c})" *)
Definition t_call (op : string) (l : list tform) : option tform :=
  match l with
  | [a; b; c] => if String.eqb op "ite" then Some (TIte a b c) else None
  | _ => None
  end.

(* NOT translated, fixed here:
   astutils.Terminal.flatten (`return self.value`; the translator checks that
   the installed astutils still reads so): the text of a terminal is the tree
   of that terminal; and the flatten of an opaque comparison *)
Definition astutils_Terminal_flatten (rec : flat) (self : node) (kw : kwargs)
    (T : dict) : res tform :=
  match self with
  | NVar v => Some (TVar v, T)
  | NBool b => Some (TConst b, T)
  | _ => None
  end.
Definition opaque_Comparator_flatten (rec : flat) (self : node) (kw : kwargs)
    (T : dict) : res tform :=
  match self with NAtom a => Some (TAtom a, T) | _ => None end.
(* omega.logic.syntax.conj is NOT translated: the conjunction by meaning *)
Definition py_conj (l : list tform) : tform := PastModel.conj l.

(* ---- translated code ---------------------------------------------------- *)
'''


def render(repo, astutils_path=None):
    text, templates, notes = translate(repo, astutils_path)
    header = HEADER
    tab = ['', '(* ---- formula/name strings and the terms they were read as '
           '----------------']
    seen = set()
    for where, shown, term in templates:
        if (where, shown, term) in seen:
            continue
        seen.add((where, shown, term))
        tab.append(f'   {where}:')
        tab.append('     ' + comment(' '.join(shown.split())))
        tab.append('       |-> ' + comment(term))
    tab.append('   (<t_binary ..>, <t_prefix ..>, <t_call ..>: run-time '
               'operator, None when not in the table) *)')
    body = header + text + '\n'.join(tab) + '\n'
    body += ''.join(f'(* note: {comment(n)} *)\n' for n in notes)
    return body, notes, templates


if __name__ == '__main__':
    import sys
    print(render(sys.argv[1] if len(sys.argv) > 1 else '/repo')[0])
