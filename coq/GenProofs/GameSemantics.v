(* The regions returned by the GENERATED solvers are exactly the winning
   regions in game terms (theories/L4/Determinacy.v composed with
   streett_fixpoint / rabin_fixpoint). *)
From Coq Require Import List Bool Arith Lia.
Import ListNotations.
From Omega Require Import L4.Arena L4.Kleene L4.GameSpec L4.Mu L4.GR1Spec L4.Plays
  L4.RabinStrategy L4.Determinacy.
From OmegaGen Require Import FixpointGen Gr1Gen.
From OmegaGP Require Import FixpointProofs StreettProofs RabinProofs.

Section GameSemantics.
Variables nc nx ny : nat.
Variables E S : bdd.
Variables holds goals : list bdd.
Variables moore plus_one : bool.
Variable c : nat.
Hypothesis Hc : c < nc.
Hypothesis HnR : 0 < length goals.
Hypothesis HnP : 0 < length holds.
Variable fuel : nat.
Hypothesis Hfuel : NV nc nx ny <= fuel.

Definition streett_solved : bdd :=
  fst (fst (Gr1Gen.solve_streett_game nc nx ny E S holds goals moore plus_one fuel)).
Definition rabin_solved : bdd :=
  last (fst (fst (Gr1Gen.solve_rabin_game nc nx ny E S holds goals moore plus_one fuel))) bfalse.

Lemma streett_solved_spec s :
  fst s < nx -> snd s < ny ->
  streett_solved (stv c s) = streett_spec nc nx ny moore plus_one E S holds goals (stv c s).
Proof.
  intros H1 H2. apply (streett_fixpoint nc nx ny E S holds goals moore plus_one fuel Hfuel).
  apply (stv_inr nc nx ny goals c Hc HnR s). split; assumption.
Qed.

Lemma rabin_solved_spec s :
  fst s < nx -> snd s < ny ->
  rabin_solved (stv c s) = rabin_spec nc nx ny moore plus_one E S holds goals (stv c s).
Proof.
  intros H1 H2. apply (rabin_fixpoint nc nx ny E S holds goals moore plus_one fuel Hfuel).
  apply (stv_inr nc nx ny goals c Hc HnR s). split; assumption.
Qed.

Theorem streett_solved_exact s :
  fst s < nx -> snd s < ny ->
  (streett_solved (stv c s) = true <->
   comp_wins nx ny moore (win_streett c E S holds goals plus_one) s).
Proof.
  intros H1 H2. rewrite (streett_solved_spec s H1 H2).
  apply (streett_region_exact nc nx ny moore plus_one E S holds goals c Hc HnR HnP s H1 H2).
Qed.

Theorem streett_solved_complete s :
  fst s < nx -> snd s < ny -> streett_solved (stv c s) = false ->
  env_prevents nx ny moore (win_streett c E S holds goals plus_one) s.
Proof.
  intros H1 H2. rewrite (streett_solved_spec s H1 H2).
  apply (streett_region_complete nc nx ny moore plus_one E S holds goals c Hc HnR HnP s H1 H2).
Qed.

Theorem rabin_solved_exact s :
  fst s < nx -> snd s < ny ->
  (rabin_solved (stv c s) = true <->
   comp_wins nx ny moore (win_rabin c E S holds goals plus_one) s).
Proof.
  intros H1 H2. rewrite (rabin_solved_spec s H1 H2).
  apply (rabin_region_exact nc nx ny moore plus_one E S holds goals c Hc HnR HnP s H1 H2).
Qed.

Theorem rabin_solved_complete s :
  fst s < nx -> snd s < ny -> rabin_solved (stv c s) = false ->
  env_prevents nx ny moore (win_rabin c E S holds goals plus_one) s.
Proof.
  intros H1 H2. rewrite (rabin_solved_spec s H1 H2).
  apply (rabin_region_complete nc nx ny moore plus_one E S holds goals c Hc HnR HnP s H1 H2).
Qed.

End GameSemantics.
