(* L6 Syntax — the converse of prec_determines_tree: EVERY token sequence the
   parser model accepts is the token sequence of a surface tree that groups
   its operators as the table demands, and the tree returned is the tree
   that surface tree denotes.  Holds for every operator table (no side
   condition).  By induction on the fuel of the parser, through every
   branch. *)
From Coq Require Import List String Ascii NArith Bool Lia Arith.
From Omega Require Import L6Syntax.Tokens L6Syntax.Parser L6Syntax.ParserEqs
  L6Syntax.PrecSpec L6Syntax.ParserProofs L6Syntax.PrecFullSpec
  L6Syntax.PrecFullProofs.
Import ListNotations.
Local Open Scope string_scope.
Local Open Scope list_scope.

Lemma expect_inv : forall k ts r, expect k ts = Some r ->
  exists t, ts = t :: r /\ tty t = k.
Proof.
  intros k [|t ts] r H; [discriminate|]. unfold expect in H.
  destruct (is_ty t k) eqn:E; [|discriminate]. inversion H; subst.
  exists t. split; [reflexivity | apply is_ty_true; assumption].
Qed.

Lemma p_number_inv : forall ts n r, p_number ts = Some (n, r) ->
  exists xn, ts = xnum_toks xn ++ r /\ xnum_tree xn = n /\ xnum_wf xn.
Proof.
  intros [|t ts] n r H; [discriminate|]. unfold p_number in H.
  destruct (is_ty t "NUMBER") eqn:E1.
  - inversion H; subst. exists (XPos t). repeat split. apply is_ty_true; assumption.
  - destruct (is_ty t "MINUS") eqn:E2; [|discriminate].
    destruct ts as [|u ts]; [discriminate|].
    destruct (is_ty u "NUMBER") eqn:E3; [|discriminate]. inversion H; subst.
    exists (XNeg t u). repeat split; apply is_ty_true; assumption.
Qed.

Lemma number_tail_inv : forall a ts t rest,
  p_number_tail (xnum_tree a) ts = Some (t, rest) ->
  (t = xnum_tree a /\ rest = ts /\ not_dots (hd_error ts)) \/
  (exists d b, ts = d :: xnum_toks b ++ rest /\ tty d = "DOTS" /\ xnum_wf b
               /\ t = Bin CBinary (tval d) (xnum_tree a) (xnum_tree b)).
Proof.
  intros a [|d ts] t rest H.
  - inversion H; subst. left. repeat split.
  - unfold p_number_tail in H. destruct (is_ty d "DOTS") eqn:E.
    + destruct (p_number ts) as [[n2 r']|] eqn:En; [|discriminate]. inversion H; subst.
      destruct (p_number_inv _ _ _ En) as [b [E1 [E2 Wb]]]. subst.
      right. exists d, b. repeat split; try assumption. apply is_ty_true; assumption.
    + inversion H; subst. left. repeat split. simpl. exact E.
Qed.

Section Conv.
Variable T : ptable.

Local Notation p_expr := (p_expr T).
Local Notation p_nud := (p_nud T).
Local Notation p_led := (p_led T).
Local Notation p_junc := (p_junc T).
Local Notation p_defs := (p_defs T).
Local Notation p_list := (p_list T).
Local Notation xerase := (xerase T).
Local Notation derase := (derase T).
Local Notation lerase := (lerase T).
Local Notation jerase := (jerase T).
Local Notation xwf := (xwf T).
Local Notation dwf := (dwf T).
Local Notation lwf := (lwf T).
Local Notation jwf := (jwf T).
Local Notation xrok := (xrok T).
Local Notation jrok := (jrok T).
Local Notation xfits := (xfits T).
Local Notation xrespects := (xrespects T).
Local Notation drespects := (drespects T).
Local Notation lrespects := (lrespects T).
Local Notation jrespects := (jrespects T).
Local Notation stops := (stops T).
Local Notation rule_bind := (rule_bind T).

Definition not_comma (o : option token) : Prop :=
  match o with Some t => is_ty t "COMMA" = false | None => True end.

Definition Cx (n : nat) : Prop := forall m ts t rest,
  p_expr n m ts = Some (t, rest) ->
  exists s, ts = xyield s ++ rest /\ xerase s = t /\ xwf s /\ xrespects s
            /\ xfits m s /\ xrok (hd_error rest) s /\ stops m (hd_error rest).
Definition Cn (n : nat) : Prop := forall ts t rest,
  p_nud n ts = Some (t, rest) ->
  exists s, ts = xyield s ++ rest /\ xerase s = t /\ xwf s /\ xrespects s
            /\ (forall m, xfits m s) /\ xrok (hd_error rest) s.
Definition Cl (n : nat) : Prop := forall m sl ts t rest,
  xwf sl -> xrespects sl -> xfits m sl -> xrok (hd_error ts) sl ->
  p_led n m (xerase sl) ts = Some (t, rest) ->
  exists s, xyield sl ++ ts = xyield s ++ rest /\ xerase s = t /\ xwf s /\ xrespects s
            /\ xfits m s /\ xrok (hd_error rest) s /\ stops m (hd_error rest).
Definition Cj (n : nat) : Prop := forall sj ts t rest,
  jwf sj -> jrespects sj -> jrok (hd_error ts) sj ->
  p_junc n (jerase sj) ts = Some (t, rest) ->
  exists j, jyield sj ++ ts = jyield j ++ rest /\ jerase j = t /\ jwf j /\ jrespects j
            /\ jrok (hd_error rest) j /\ not_junc (hd_error rest).
Definition Cd (n : nat) : Prop := forall ts ds rest,
  p_defs n ts = Some (ds, rest) ->
  exists sd, ts = dyield sd ++ rest /\ derase sd = ds /\ dwf sd /\ drespects sd.
Definition Cls (n : nat) : Prop := forall ts vs rest,
  p_list n ts = Some (vs, rest) ->
  exists sl, ts = lyield sl ++ rest /\ lerase sl = vs /\ lwf sl /\ lrespects sl
             /\ stops 0 (hd_error rest) /\ xrok (hd_error rest) (llast sl)
             /\ not_comma (hd_error rest).

Definition conv_at (n : nat) : Prop :=
  Cx n /\ Cn n /\ Cl n /\ Cj n /\ Cd n /\ Cls n.

Lemma app_cons_assoc : forall (a : list token) t b c,
  (a ++ t :: b) ++ c = a ++ t :: b ++ c.
Proof. intros. rewrite <- app_assoc. reflexivity. Qed.

Lemma conv_expr : forall n, Cn n -> Cl n -> Cx (S n).
Proof.
  intros n HN HL m ts t rest H. rewrite p_expr_eq in H.
  destruct (p_nud n ts) as [[l r]|] eqn:En; [|discriminate].
  destruct (HN _ _ _ En) as [sl [E1 [E2 [W [R [F K]]]]]]. subst l.
  destruct (HL m sl r t rest W R (F m) K H) as [s [E3 Hs]].
  exists s. split; [|exact Hs]. subst ts. exact E3.
Qed.

Lemma conv_led : forall n, Cx n -> Cl n -> Cl (S n).
Proof.
  intros n HX HL m sl ts tr rest W R F K H. rewrite p_led_eq in H.
  destruct ts as [|t r].
  { inversion H; subst. exists sl. repeat split; assumption. }
  cbn [hd_error] in K.
  destruct (pt_bin T (tty t)) as [[[c a] lv]|] eqn:Eb.
  - destruct (can_shift m lv) eqn:Ec.
    + destruct (p_expr n (bind_of (a, lv)) r) as [[x r1]|] eqn:Ex; [|discriminate].
      destruct (HX _ _ _ _ Ex) as [sx [E1 [E2 [Wx [Rx [Fx [Kx Sx]]]]]]]. subst x r.
      assert (Ee : xerase (XBin t sl sx) = Bin c (tval t) (xerase sl) (xerase sx))
        by (cbn; rewrite Eb; reflexivity).
      rewrite <- Ee in H.
      destruct (HL m (XBin t sl sx) r1 tr rest) as [s [E3 Hs]]; try assumption.
      * cbn. repeat split; try assumption. congruence.
      * cbn. repeat split; try assumption. unfold bin_rbp. rewrite Eb. assumption.
      * cbn. unfold bin_lv. rewrite Eb. split; assumption.
      * cbn. unfold bin_rbp. rewrite Eb. split; assumption.
      * exists s. split; [|exact Hs]. rewrite <- E3. cbn [xyield].
        rewrite app_cons_assoc. reflexivity.
    + inversion H; subst. exists sl. repeat split; try assumption.
      simpl. unfold tok_stops. rewrite Eb, Ec. reflexivity.
  - destruct (pt_post T (tty t)) as [[[a lv] name]|] eqn:Ep.
    + destruct (can_shift m lv) eqn:Ec.
      * assert (Ee : xerase (XPost t sl) = Un name (xerase sl))
          by (cbn; rewrite Ep; reflexivity).
        rewrite <- Ee in H.
        destruct (HL m (XPost t sl) r tr rest) as [s [E3 Hs]]; try assumption.
        -- cbn. repeat split; try assumption. congruence.
        -- cbn. split; assumption.
        -- cbn. unfold post_lv. rewrite Ep. split; assumption.
        -- cbn. exact I.
        -- exists s. split; [|exact Hs]. rewrite <- E3. cbn [xyield].
           rewrite <- app_assoc. reflexivity.
      * inversion H; subst. exists sl. repeat split; try assumption.
        simpl. unfold tok_stops. rewrite Eb, Ep, Ec. reflexivity.
    + destruct (is_ty t "TRUNCATE") eqn:Et.
      * destruct (can_shift m (snd (pt_rule T "TRUNCATE"))) eqn:Ec.
        -- destruct (p_number r) as [[x r1]|] eqn:Ex; [|discriminate].
           destruct (p_number_inv _ _ _ Ex) as [xn [E1 [E2 Wn]]]. subst x r.
           change (Bin CArithmetic (tval t) (xerase sl) (xnum_tree xn))
             with (xerase (XTrunc t sl xn)) in H.
           destruct (HL m (XTrunc t sl xn) r1 tr rest) as [s [E3 Hs]]; try assumption.
           ++ cbn. repeat split; try assumption. apply is_ty_true; assumption.
           ++ cbn. split; assumption.
           ++ cbn. split; assumption.
           ++ cbn. exact I.
           ++ exists s. split; [|exact Hs]. rewrite <- E3. cbn [xyield].
              rewrite app_cons_assoc. reflexivity.
        -- inversion H; subst. exists sl. repeat split; try assumption.
           simpl. unfold tok_stops. unfold is_ty in Et. rewrite Eb, Ep, Et, Ec. reflexivity.
      * inversion H; subst. exists sl. repeat split; try assumption.
        simpl. unfold tok_stops. unfold is_ty in Et. rewrite Eb, Ep, Et. reflexivity.
Qed.

Lemma conv_junc : forall n, Cx n -> Cj n -> Cj (S n).
Proof.
  intros n HX HJ sj ts tr rest W R K H. rewrite p_junc_eq in H.
  destruct ts as [|t r].
  { inversion H; subst. exists sj. repeat split; assumption. }
  cbn [hd_error] in K.
  destruct (is_ty t "AND" || is_ty t "OR") eqn:Ej.
  - destruct (p_expr n (rule_bind (tty t)) r) as [[x r1]|] eqn:Ex; [|discriminate].
    destruct (HX _ _ _ _ Ex) as [sx [E1 [E2 [Wx [Rx [Fx [Kx Sx]]]]]]]. subst x r.
    change (Bin CBinary (tval t) (jerase sj) (xerase sx))
      with (jerase (JS sj t sx)) in H.
    assert (Wt : is_junc_ty (tty t)).
    { apply orb_true_iff in Ej. destruct Ej as [E|E]; apply is_ty_true in E;
        [left | right]; assumption. }
    destruct (HJ (JS sj t sx) r1 tr rest) as [j [E3 Hj]]; try assumption.
    + cbn. repeat split; assumption.
    + cbn. repeat split; assumption.
    + cbn. split; assumption.
    + exists j. split; [|exact Hj]. rewrite <- E3. cbn [jyield].
      rewrite app_cons_assoc. reflexivity.
  - inversion H; subst. exists sj. repeat split; try assumption.
Qed.

Lemma conv_defs : forall n, Cx n -> Cd n -> Cd (S n).
Proof.
  intros n HX HD ts ds rest H. rewrite p_defs_eq in H.
  destruct ts as [|nm [|d r]]; try discriminate.
  destruct (is_ty nm "NAME" && is_ty d "DEF") eqn:E; [|discriminate].
  apply andb_prop in E. destruct E as [En Ed]. apply is_ty_true in En, Ed.
  destruct (p_expr n (rule_bind "DEF") r) as [[e r1]|] eqn:Ex; [|discriminate].
  destruct (HX _ _ _ _ Ex) as [se [E1 [E2 [We [Re [Fe [Ke Se]]]]]]]. subst e r.
  cbv zeta in H.
  assert (One : Some ([Bin CBinary "==" (Term KOpname (tval nm)) (xerase se)], r1)
                = Some (ds, rest) ->
          exists sd, nm :: d :: xyield se ++ r1 = dyield sd ++ rest /\ derase sd = ds
                     /\ dwf sd /\ drespects sd).
  { intros H1. inversion H1; subst. exists (D1 nm d se).
    repeat split; try assumption. }
  destruct r1 as [|n' r1']; [apply One; exact H|].
  destruct (is_ty n' "NAME"); [|apply One; exact H].
  destruct (p_defs n (n' :: r1')) as [[ds' r2]|] eqn:Er; [|discriminate].
  inversion H; subst.
  destruct (HD _ _ _ Er) as [sd [E3 [E4 [Wd Rd]]]]. subst ds'.
  exists (DS nm d se sd). repeat split; try assumption.
  rewrite E3. change (dyield (DS nm d se sd)) with (nm :: d :: xyield se ++ dyield sd).
  rewrite <- !app_comm_cons, <- app_assoc. reflexivity.
Qed.

Lemma conv_list : forall n, Cx n -> Cls n -> Cls (S n).
Proof.
  intros n HX HLs ts vs rest H. rewrite p_list_eq in H.
  destruct (p_expr n 0 ts) as [[e r1]|] eqn:Ex; [|discriminate].
  destruct (HX _ _ _ _ Ex) as [se [E1 [E2 [We [Re [Fe [Ke Se]]]]]]]. subst e ts.
  assert (One : forall o, hd_error r1 = o -> not_comma o ->
            Some ([xerase se], r1) = Some (vs, rest) ->
          exists sl, xyield se ++ r1 = lyield sl ++ rest /\ lerase sl = vs /\ lwf sl
                     /\ lrespects sl /\ stops 0 (hd_error rest)
                     /\ xrok (hd_error rest) (llast sl) /\ not_comma (hd_error rest)).
  { intros o Eo Hc H1. inversion H1; subst. exists (L1 se).
    repeat split; try assumption. }
  destruct r1 as [|c r2]; [apply (One None); [reflexivity | exact I | exact H]|].
  destruct (is_ty c "COMMA") eqn:Ec;
    [|apply (One (Some c)); [reflexivity | exact Ec | exact H]].
  destruct (p_list n r2) as [[es r3]|] eqn:Er; [|discriminate].
  inversion H; subst.
  destruct (HLs _ _ _ Er) as [sl [E3 [E4 [Wl [Rl [Sl [Kl Cl']]]]]]]. subst es r2.
  exists (LS se c sl). repeat split; try assumption.
  - cbn [lyield]. rewrite app_cons_assoc. reflexivity.
  - apply is_ty_true; assumption.
Qed.

Lemma conv_nud : forall n, Cx n -> Cj n -> Cd n -> Cls n -> Cn (S n).
Proof.
  intros n HX HJ HD HLs ts tr rest H. rewrite p_nud_eq in H.
  destruct ts as [|t r]; [discriminate|].
  destruct (is_ty t "NAME") eqn:E1.
  { inversion H; subst. exists (XName t). apply is_ty_true in E1.
    repeat split; try assumption; exact I. }
  destruct (is_ty t "TRUE" || is_ty t "FALSE") eqn:E2.
  { inversion H; subst. exists (XBool t).
    assert (tty t = "TRUE" \/ tty t = "FALSE").
    { apply orb_true_iff in E2. destruct E2 as [E|E]; apply is_ty_true in E; auto. }
    repeat split; try assumption; exact I. }
  destruct (is_ty t "NUMBER") eqn:E3.
  { apply is_ty_true in E3.
    change (Term KNum (tval t)) with (xnum_tree (XPos t)) in H.
    destruct (number_tail_inv _ _ _ _ H) as [[Ea [Eb Ec]]|[d [b [Ea [Eb [Ec Ed]]]]]]; subst.
    - exists (XNum (XPos t)). repeat split; try assumption; exact I.
    - exists (XRange (XPos t) d b). repeat split; try assumption; exact I. }
  destruct (is_ty t "LPAREN") eqn:E4.
  { apply is_ty_true in E4.
    destruct (p_expr n 0 r) as [[e r1]|] eqn:Ex; [|discriminate].
    destruct (expect "RPAREN" r1) as [r2|] eqn:Er; [|discriminate]. inversion H; subst.
    destruct (HX _ _ _ _ Ex) as [se [Ea [Eb [We [Re [Fe [Ke Se]]]]]]]. subst.
    destruct (expect_inv _ _ _ Er) as [rp [Ec Ed]]. subst.
    exists (XParen t se rp). repeat split; try assumption; try exact I.
    cbn [xyield]. rewrite <- app_comm_cons, <- app_assoc. reflexivity. }
  destruct (is_ty t "DQUOTES") eqn:E5.
  { apply is_ty_true in E5.
    destruct r as [|nm [|q r']]; try discriminate.
    destruct (is_ty nm "NAME" && is_ty q "DQUOTES") eqn:E; [|discriminate].
    apply andb_prop in E. destruct E as [Ea Eb]. apply is_ty_true in Ea, Eb.
    inversion H; subst. exists (XStr t nm q). repeat split; try assumption; exact I. }
  destruct (is_ty t "ITE") eqn:E6.
  { apply is_ty_true in E6.
    destruct (expect "LPAREN" r) as [r1|] eqn:X1; [|discriminate].
    destruct (p_expr n 0 r1) as [[a r2]|] eqn:Xa; [|discriminate].
    destruct (expect "COMMA" r2) as [r3|] eqn:X2; [|discriminate].
    destruct (p_expr n 0 r3) as [[b r4]|] eqn:Xb; [|discriminate].
    destruct (expect "COMMA" r4) as [r5|] eqn:X3; [|discriminate].
    destruct (p_expr n 0 r5) as [[c r6]|] eqn:Xc; [|discriminate].
    destruct (expect "RPAREN" r6) as [r7|] eqn:X4; [|discriminate].
    inversion H; subst.
    destruct (expect_inv _ _ _ X1) as [lp [Y1 Z1]].
    destruct (expect_inv _ _ _ X2) as [c1 [Y2 Z2]].
    destruct (expect_inv _ _ _ X3) as [c2 [Y3 Z3]].
    destruct (expect_inv _ _ _ X4) as [rp [Y4 Z4]].
    destruct (HX _ _ _ _ Xa) as [sa [Ea [Ea' [Wa [Ra _]]]]].
    destruct (HX _ _ _ _ Xb) as [sb [Eb [Eb' [Wb [Rb _]]]]].
    destruct (HX _ _ _ _ Xc) as [sc [Ec [Ec' [Wc [Rc _]]]]]. subst.
    exists (XIte t lp sa c1 sb c2 sc rp). repeat split; try assumption; try exact I.
    cbn [xyield]. repeat (rewrite <- app_comm_cons || rewrite <- app_assoc). reflexivity. }
  destruct (is_ty t "IF") eqn:E7.
  { apply is_ty_true in E7.
    destruct (p_expr n 0 r) as [[a r1]|] eqn:Xa; [|discriminate].
    destruct (expect "THEN" r1) as [r2|] eqn:X1; [|discriminate].
    destruct (p_expr n 0 r2) as [[b r3]|] eqn:Xb; [|discriminate].
    destruct (expect "ELSE" r3) as [r4|] eqn:X2; [|discriminate].
    destruct (p_expr n (rule_bind "IF_THEN_ELSE") r4) as [[c r5]|] eqn:Xc; [|discriminate].
    inversion H; subst.
    destruct (expect_inv _ _ _ X1) as [th [Y1 Z1]].
    destruct (expect_inv _ _ _ X2) as [el [Y2 Z2]].
    destruct (HX _ _ _ _ Xa) as [sa [Ea [Ea' [Wa [Ra _]]]]].
    destruct (HX _ _ _ _ Xb) as [sb [Eb [Eb' [Wb [Rb _]]]]].
    destruct (HX _ _ _ _ Xc) as [sc [Ec [Ec' [Wc [Rc [Fc [Kc Sc]]]]]]]. subst.
    exists (XIf t sa th sb el sc). repeat split; try assumption; try exact I.
    cbn [xyield]. repeat (rewrite <- app_comm_cons || rewrite <- app_assoc). reflexivity. }
  destruct (is_ty t "LET") eqn:E8.
  { apply is_ty_true in E8.
    destruct (p_defs n r) as [[ds r1]|] eqn:Xd; [|discriminate].
    destruct (expect "IN_EXPR" r1) as [r2|] eqn:X1; [|discriminate].
    destruct (p_expr n (rule_bind "LET_IN") r2) as [[b r3]|] eqn:Xb; [|discriminate].
    inversion H; subst.
    destruct (expect_inv _ _ _ X1) as [i [Y1 Z1]].
    destruct (HD _ _ _ Xd) as [sd [Ed [Ed' [Wd Rd]]]].
    destruct (HX _ _ _ _ Xb) as [sb [Eb [Eb' [Wb [Rb [Fb [Kb Sb]]]]]]]. subst.
    exists (XLet t sd i sb). repeat split; try assumption; try exact I.
    cbn [xyield]. fold dyield.
    repeat (rewrite <- app_comm_cons || rewrite <- app_assoc). reflexivity. }
  destruct (is_ty t "FORALL" || is_ty t "EXISTS") eqn:E9.
  { assert (Wk : tty t = "FORALL" \/ tty t = "EXISTS").
    { apply orb_true_iff in E9. destruct E9 as [E|E]; apply is_ty_true in E; auto. }
    destruct (p_list n r) as [[vs r1]|] eqn:Xl; [|discriminate].
    destruct (expect "COLON" r1) as [r2|] eqn:X1; [|discriminate].
    destruct (p_expr n (rule_bind "COLON") r2) as [[b r3]|] eqn:Xb; [|discriminate].
    inversion H; subst.
    destruct (expect_inv _ _ _ X1) as [col [Y1 Z1]].
    destruct (HLs _ _ _ Xl) as [sl [El [El' [Wl [Rl _]]]]].
    destruct (HX _ _ _ _ Xb) as [sb [Eb [Eb' [Wb [Rb [Fb [Kb Sb]]]]]]]. subst.
    exists (XQuant t sl col sb). repeat split; try assumption; try exact I.
    cbn [xyield]. fold lyield.
    repeat (rewrite <- app_comm_cons || rewrite <- app_assoc). reflexivity. }
  destruct (is_ty t "AT") eqn:E10.
  { apply is_ty_true in E10.
    destruct (p_number r) as [[x r1]|] eqn:Xn; [|discriminate]. inversion H; subst.
    destruct (p_number_inv _ _ _ Xn) as [xn [Ea [Eb Wn]]]. subst.
    exists (XAt t xn). repeat split; try assumption; exact I. }
  destruct (pt_pre T (tty t)) as [al|] eqn:Ep.
  { destruct (p_expr n (bind_of al) r) as [[x r1]|] eqn:Xx; [|discriminate].
    inversion H; subst.
    destruct (HX _ _ _ _ Xx) as [sx [Ea [Eb [Wx [Rx [Fx [Kx Sx]]]]]]]. subst.
    exists (XPre t sx). cbn. unfold pre_pbp. rewrite Ep.
    repeat split; try assumption; try exact I. congruence. }
  destruct (is_ty t "MINUS") eqn:E11.
  { destruct (p_number (t :: r)) as [[x r1]|] eqn:Xn; [|discriminate].
    destruct (p_number_inv _ _ _ Xn) as [a [Ea [Eb Wa]]]. subst x. rewrite Ea.
    destruct (number_tail_inv _ _ _ _ H) as [[Ec [Ed Ee]]|[d [b [Ec [Ed [Ee Ef]]]]]]; subst.
    - exists (XNum a). repeat split; try assumption; exact I.
    - exists (XRange a d b). repeat split; try assumption; try exact I.
      cbn [xyield]. rewrite app_cons_assoc. reflexivity. }
  assert (Junc : forall bnd, bnd = jfirst_bind T t -> is_junc_ty (tty t) ->
            match p_expr n bnd r with
            | Some (x, r1) => p_junc n x r1
            | None => None
            end = Some (tr, rest) ->
          exists s, t :: r = xyield s ++ rest /\ xerase s = tr /\ xwf s /\ xrespects s
                    /\ (forall m, xfits m s) /\ xrok (hd_error rest) s).
  { intros bnd Eb Wt H1.
    destruct (p_expr n bnd r) as [[x r1]|] eqn:Xx; [|discriminate].
    destruct (HX _ _ _ _ Xx) as [sx [Ea [Ea' [Wx [Rx [Fx [Kx Sx]]]]]]]. subst x r bnd.
    change (xerase sx) with (jerase (J1 t sx)) in H1.
    destruct (HJ (J1 t sx) r1 tr rest) as [j [Ej3 [Ej4 [Wj [Rj [Kj Nj]]]]]]; try assumption.
    - cbn. split; assumption.
    - cbn. split; assumption.
    - cbn. split; assumption.
    - exists (XJunc j). repeat split; try assumption; try exact I. }
  destruct (is_ty t "AND") eqn:E12.
  { apply is_ty_true in E12. apply (Junc (rule_bind "AND")); [|left; assumption | exact H].
    unfold jfirst_bind. rewrite E12. reflexivity. }
  destruct (is_ty t "OR") eqn:E13; [|discriminate].
  { apply is_ty_true in E13. apply (Junc (rule_bind "CONJ_LIST")); [|right; assumption | exact H].
    unfold jfirst_bind. rewrite E13. reflexivity. }
Qed.

Lemma conv_all : forall n, conv_at n.
Proof.
  induction n as [|n [HX [HN [HL [HJ [HD HLs]]]]]].
  - repeat split; intro; intros; discriminate.
  - repeat split.
    + apply conv_expr; assumption.
    + apply conv_nud; assumption.
    + apply conv_led; assumption.
    + apply conv_junc; assumption.
    + apply conv_defs; assumption.
    + apply conv_list; assumption.
Qed.

(* the converse of prec_determines_tree (expressions) *)
Theorem parse_is_respecting_tree : forall ts t,
  is_module_start ts = false -> parse T ts = Some t ->
  exists s, xwf s /\ xrespects s /\ xyield s = ts /\ xerase s = t.
Proof.
  intros ts t Hm H. unfold parse in H. rewrite Hm in H.
  destruct (p_expr (parse_fuel ts) 0 ts) as [[t' r]|] eqn:E; [|discriminate].
  destruct r; [|discriminate]. inversion H; subst.
  destruct (proj1 (conv_all _) _ _ _ _ E) as [s [E1 [E2 [W [R _]]]]].
  exists s. rewrite app_nil_r in E1. auto.
Qed.

(* ---- the module level ---- *)
Lemma conv_units : forall n ts us rest,
  p_units T n ts = Some (us, rest) -> rest = [] ->
  exists xs, xs <> [] /\ Forall (uwf T) xs /\ mrespects T xs /\ myield xs = ts
             /\ map (uerase T) xs = us.
Proof.
  induction n as [|n IH]; intros ts us rest H Hr; [discriminate|].
  rewrite p_units_eq in H. destruct ts as [|t r]; [discriminate|].
  match type of H with
  | match ?X with _ => _ end = _ => destruct X as [[u r1]|] eqn:Eu; [|discriminate]
  end.
  (* the first unit *)
  assert (U : exists xu, uwf T xu /\ urespects T xu /\ urok T (hd_error r1) xu
                         /\ t :: r = uyield xu ++ r1 /\ uerase T xu = u).
  { destruct (is_decl t) eqn:Ed.
    - destruct (p_list n r) as [[vs r1']|] eqn:El; [|discriminate]. inversion Eu; subst.
      destruct (proj2 (proj2 (proj2 (proj2 (proj2 (conv_all n))))) _ _ _ El)
        as [sl [E1 [E2 [Wl [Rl [Sl [Kl Cl']]]]]]]. subst.
      exists (UDecl t sl). repeat split; try assumption.
      unfold is_decl, is_ty in Ed. unfold is_decl_ty.
      repeat (apply orb_true_iff in Ed; destruct Ed as [Ed|Ed]);
        apply String.eqb_eq in Ed; tauto.
    - destruct r as [|d r']; [discriminate|].
      destruct (is_ty t "NAME" && is_ty d "DEF") eqn:E; [|discriminate].
      apply andb_prop in E. destruct E as [En Edf]. apply is_ty_true in En, Edf.
      destruct (Parser.p_expr T n (rule_bind "DEF") r') as [[e r1']|] eqn:Ex; [|discriminate].
      inversion Eu; subst.
      destruct (proj1 (conv_all n) _ _ _ _ Ex) as [se [E1 [E2 [We [Re [Fe [Ke Se]]]]]]]. subst.
      exists (UDef t d se). repeat split; try assumption. }
  destruct U as [xu [Wu [Ru [Ku [Ey Ee]]]]].
  destruct r1 as [|t1 r1'].
  - inversion H; subst. exists [xu]. repeat split.
    + discriminate.
    + constructor; [assumption | constructor].
    + assumption.
    + assumption.
    + unfold myield. cbn [flat_map]. rewrite Ey. reflexivity.
  - destruct (p_units T n (t1 :: r1')) as [[us' r2]|] eqn:Er; [|discriminate].
    inversion H; subst.
    destruct (IH _ _ _ Er eq_refl) as [xs [Hne [Wxs [Rxs [Eys Ees]]]]].
    exists (xu :: xs). repeat split.
    + discriminate.
    + constructor; assumption.
    + assumption.
    + rewrite Eys. assumption.
    + assumption.
    + unfold myield in *. cbn [flat_map]. rewrite Eys, Ey. reflexivity.
    + cbn [map]. rewrite Ees. reflexivity.
Qed.

Theorem parse_is_respecting_module : forall ts t,
  is_module_start ts = true -> parse T ts = Some t ->
  exists us, mwf T us /\ mrespects T us /\ myield us = ts /\ merase T us = t.
Proof.
  intros ts t Hm H. unfold parse in H. rewrite Hm in H.
  destruct (p_units T (parse_fuel ts) ts) as [[us r]|] eqn:E; [|discriminate].
  destruct r; [|discriminate]. inversion H; subst.
  destruct (conv_units _ _ _ _ E eq_refl) as [xs [Hne [W [R [Ey Ee]]]]].
  exists xs. unfold mwf, merase. rewrite Ee. auto.
Qed.

End Conv.

(* ---- the table determines the tree, both ways ---- *)
Theorem prec_tree_iff : forall T, table_ok_full T = true ->
  forall ts t,
    is_module_start ts = false ->
    (parse T ts = Some t <->
     exists s, xwf T s /\ xrespects T s /\ xyield s = ts /\ xerase T s = t).
Proof.
  intros T Hok ts t Hm. split.
  - apply parse_is_respecting_tree. assumption.
  - intros [s [W [R [E1 E2]]]]. subst. apply prec_determines_tree_full; assumption.
Qed.

Theorem prec_module_iff : forall T, table_ok_full T = true ->
  forall ts t,
    is_module_start ts = true ->
    (parse T ts = Some t <->
     exists us, mwf T us /\ mrespects T us /\ myield us = ts /\ merase T us = t).
Proof.
  intros T Hok ts t Hm. split.
  - apply parse_is_respecting_module. assumption.
  - intros [us [W [R [E1 E2]]]]. subst. apply prec_determines_module; assumption.
Qed.
