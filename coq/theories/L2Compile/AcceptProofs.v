(* L2 / AcceptProofs: acceptance by the translator is static.  For every
   well-formed bit assignment, [ceval] succeeds exactly when [cshape] does,
   and the width of the result is the predicted one. *)
From Coq Require Import ZArith List Bool Lia.
From Omega Require Import L1Circuits.Circuits L1Circuits.CircuitsLengths
  L2Compile.Expr L2Compile.Accept.
Import ListNotations.

Definition osh (o : option cval) : option shape := option_map shape_of o.

Definition clos_sh (t : table) (cf : benv -> bool -> bool -> option cval)
  (sf : bool -> option shape) : Prop :=
  forall be p a, wf_benv t be -> osh (cf be p a) = sf a.

Inductive env_sh (t : table) : cenv -> shenv -> Prop :=
| esh_nil : env_sh t [] []
| esh_cons : forall n cf sf ce se, clos_sh t cf sf -> env_sh t ce se ->
    env_sh t ((n, cf) :: ce) ((n, sf) :: se).

Lemma env_sh_lookup : forall t ce se n, env_sh t ce se ->
  match lookup n ce, lookup n se with
  | Some cf, Some sf => clos_sh t cf sf
  | None, None => True
  | _, _ => False
  end.
Proof.
  intros t ce se n H. induction H as [|m cf sf ce se C _ IH]; cbn [lookup]; [exact I|].
  destruct (Nat.eqb n m); [exact C|exact IH].
Qed.

Lemma to_bits_len : forall n z, length (to_bits n z) = n.
Proof. induction n; intros; cbn [to_bits length]; [reflexivity|]. now rewrite IHn. Qed.

Lemma num_width_spec : forall z, length (int_to_twos_complement z) = num_width z.
Proof.
  intros. unfold int_to_twos_complement, num_width.
  rewrite app_length, to_bits_len. cbn [length]. lia.
Qed.

Lemma wf_nth : forall t be v ty, wf_benv t be -> nth_error t v = Some ty ->
  exists a b, nth_error be v = Some (a, b) /\ length a = nbits ty /\ length b = nbits ty.
Proof.
  induction t as [|ty' t IH]; intros be v ty W H.
  - destruct v; discriminate.
  - destruct be as [|[a b] be]; [contradiction|]. destruct W as (La & Lb & W).
    destruct v as [|v]; cbn [nth_error] in *.
    + injection H as <-. eauto.
    + eapply IH; eauto.
Qed.

Lemma wf_upd : forall t be v ty p bs, wf_benv t be -> nth_error t v = Some ty ->
  length bs = nbits ty -> wf_benv t (upd_nth be v (upd2 p bs)).
Proof.
  induction t as [|ty' t IH]; intros be v ty p bs W H L.
  - destruct v; discriminate.
  - destruct be as [|[a b] be]; [contradiction|]. destruct W as (La & Lb & W).
    destruct v as [|v]; cbn [nth_error upd_nth] in *.
    + injection H as <-. destruct p; cbn [upd2 fst snd wf_benv]; auto.
    + cbn [wf_benv]. repeat split; auto. eapply IH; eauto.
Qed.

Lemma var_bits_length : forall lo hi bs, length bs = snd (dom_to_width lo hi) ->
  length (var_bits lo hi bs) = var_width lo hi.
Proof.
  intros lo hi bs H. unfold var_bits, var_width.
  destruct (dom_to_width lo hi) as [s w]. cbn [fst snd] in *.
  destruct s; [assumption|]. rewrite app_length. cbn [length]. lia.
Qed.

Lemma ext_ok_n_spec : forall x n, ext_ok x n = ext_ok_n (length x) n.
Proof. reflexivity. Qed.

Lemma equalize_ok_n_spec : forall x y e, equalize_ok x y e = equalize_ok_n (length x) (length y) e.
Proof. reflexivity. Qed.

Lemma c_cmp_shape : forall o x y,
  (if c_cmp o x y then true else false) = cmp_ok_n o (length x) (length y).
Proof.
  intros. unfold c_cmp, cmp_ok_n. rewrite !equalize_ok_n_spec.
  destruct o; match goal with |- context [if ?c then Some _ else None] => destruct c end; reflexivity.
Qed.

Lemma c_arith_shape : forall o x y,
  option_map (@length bool) (c_arith o x y) = arith_shape o (length x) (length y).
Proof.
  intros. unfold c_arith, arith_shape. rewrite ?equalize_ok_n_spec. destruct o.
  - destruct (equalize_ok_n _ _ 1); [|reflexivity]. cbn [option_map]. rewrite adder_length. f_equal. lia.
  - destruct (equalize_ok_n _ _ 1); [|reflexivity]. cbn [option_map]. rewrite adder_length. f_equal. lia.
  - destruct (equalize_ok_n _ _ _); [|reflexivity]. cbn [option_map]. now rewrite multiplier_length.
  - destruct ((2 <=? length x)%nat && (2 <=? length y)%nat && _)%bool eqn:E; [|reflexivity].
    apply andb_prop in E as [E _]. apply andb_prop in E as [E1 E2].
    apply Nat.leb_le in E1, E2.
    destruct (restoring_divider_length x y ltac:(lia) ltac:(lia)) as [L1 L2]. cbv zeta in L1, L2.
    destruct (restoring_divider x y) as [quo rem]. cbn [fst snd option_map] in *. now rewrite L1.
  - destruct ((2 <=? length x)%nat && (2 <=? length y)%nat && _)%bool eqn:E; [|reflexivity].
    apply andb_prop in E as [E _]. apply andb_prop in E as [E1 E2].
    apply Nat.leb_le in E1, E2.
    destruct (restoring_divider_length x y ltac:(lia) ltac:(lia)) as [L1 L2]. cbv zeta in L1, L2.
    destruct (restoring_divider x y) as [quo rem]. cbn [fst snd option_map] in *. now rewrite L2.
Qed.

Lemma all_bits_len : forall w bs, In bs (all_bits w) -> length bs = w.
Proof.
  induction w as [|w IH]; intros bs; cbn [all_bits].
  - intros [<-|[]]. reflexivity.
  - rewrite in_app_iff, !in_map_iff.
    intros [[r [<- H]]|[r [<- H]]]; cbn [length]; f_equal; now apply IH.
Qed.

Lemma all_bits_nonempty : forall w, all_bits w <> [].
Proof.
  induction w; cbn [all_bits]; [discriminate|].
  destruct (all_bits w); [congruence|discriminate].
Qed.

Lemma quant_c_shape : forall fa (l : list (list bool)) (f : list bool -> option cval) s,
  l <> [] -> (forall bs, In bs l -> osh (f bs) = s) ->
  osh (quant_c fa (map f l)) = match s with Some SB => Some SB | _ => None end.
Proof.
  intros fa l f s Hl H. unfold quant_c.
  destruct s as [[|n]|].
  - assert (E : forallb is_cb (map f l) = true).
    { apply forallb_forall. intros r Hr. apply in_map_iff in Hr. destruct Hr as [bs [<- Hb]].
      specialize (H bs Hb). destruct (f bs) as [[b|x]|]; cbn in H; try discriminate. reflexivity. }
    rewrite E. reflexivity.
  - destruct l as [|b l]; [congruence|]. cbn [map forallb].
    specialize (H b (or_introl eq_refl)). destruct (f b) as [[c|x]|]; cbn in H; try discriminate.
    reflexivity.
  - destruct l as [|b l]; [congruence|]. cbn [map forallb].
    specialize (H b (or_introl eq_refl)). destruct (f b) as [[c|x]|]; cbn in H; try discriminate.
    reflexivity.
Qed.

Theorem ceval_shape : forall t e be ce se prime arith, wf_benv t be -> env_sh t ce se ->
  osh (ceval t be ce prime arith e) = cshape t se arith e.
Proof.
  intros t. induction e; intros be ce se prime arith W ES; cbn [ceval cshape].
  - reflexivity.
  - reflexivity.
  - cbn [osh option_map shape_of]. now rewrite num_width_spec.
  - (* EVar *)
    destruct (nth_error t v) as [ty|] eqn:Et; [|reflexivity].
    destruct (wf_nth t be v ty W Et) as (a & b & -> & La & Lb).
    destruct ty as [|lo hi]; [reflexivity|].
    assert (L : length (var_bits lo hi (sel prime (a, b))) = var_width lo hi).
    { apply var_bits_length. destruct prime; assumption. }
    rewrite L. destruct (2 <=? var_width lo hi)%nat; [|reflexivity].
    cbn [osh option_map shape_of]. now rewrite L.
  - (* EOp *)
    pose proof (env_sh_lookup t ce se n ES) as L.
    destruct (lookup n ce); destruct (lookup n se); try contradiction; [now apply L|reflexivity].
  - (* ENot *)
    rewrite <- (IHe be ce se prime arith W ES).
    destruct (ceval t be ce prime arith e) as [[b|l]|]; reflexivity.
  - (* EBin *)
    rewrite <- (IHe1 be ce se prime arith W ES), <- (IHe2 be ce se prime arith W ES).
    destruct (ceval t be ce prime arith e1) as [[b1|l1]|];
      destruct (ceval t be ce prime arith e2) as [[b2|l2]|]; reflexivity.
  - (* ECmp *)
    destruct arith; [reflexivity|].
    rewrite <- (IHe1 be ce se prime true W ES), <- (IHe2 be ce se prime true W ES).
    destruct (ceval t be ce prime true e1) as [[b1|l1]|];
      destruct (ceval t be ce prime true e2) as [[b2|l2]|]; cbn [osh option_map shape_of]; try reflexivity.
    + destruct o; reflexivity.
    + rewrite <- c_cmp_shape. destruct (c_cmp o l1 l2); reflexivity.
  - (* EArith *)
    destruct arith; [|reflexivity].
    rewrite <- (IHe1 be ce se prime true W ES), <- (IHe2 be ce se prime true W ES).
    destruct (ceval t be ce prime true e1) as [[b1|l1]|];
      destruct (ceval t be ce prime true e2) as [[b2|l2]|]; cbn [osh option_map shape_of]; try reflexivity.
    rewrite <- c_arith_shape. destruct (c_arith o l1 l2); reflexivity.
  - (* EIn *)
    rewrite <- (IHe be ce se prime false W ES).
    destruct (ceval t be ce prime false e) as [[b|l]|]; cbn [osh option_map shape_of]; try reflexivity.
    rewrite <- !num_width_spec, <- !c_cmp_shape.
    destruct (c_cmp CLe (int_to_twos_complement lo) l); destruct (c_cmp CLe l (int_to_twos_complement hi));
      reflexivity.
  - (* EIte *)
    rewrite <- (IHe1 be ce se prime false W ES), <- (IHe2 be ce se prime arith W ES),
      <- (IHe3 be ce se prime arith W ES).
    destruct (ceval t be ce prime false e1) as [[g|lg]|];
      destruct (ceval t be ce prime arith e2) as [[b2|l2]|];
      destruct (ceval t be ce prime arith e3) as [[b3|l3]|];
      cbn [osh option_map shape_of]; try reflexivity.
    + destruct arith; reflexivity.
    + destruct arith; [|reflexivity]. rewrite equalize_ok_n_spec.
      destruct (equalize_ok_n (length l2) (length l3) 0) eqn:E; [|reflexivity].
      unfold equalize_width. cbn [osh option_map shape_of].
      rewrite ite_function_length, !sign_extension_len by lia. do 2 f_equal. lia.
  - (* ELet *)
    pose proof (env_sh_lookup t ce se n ES) as L.
    destruct (lookup n ce); destruct (lookup n se); try contradiction; [reflexivity|].
    apply IHe2; [assumption|]. constructor; [|assumption].
    intros be' p a W'. now apply IHe1.
  - (* EPrime *) now apply IHe.
  - (* EQuant *)
    destruct arith; [reflexivity|].
    destruct (nth_error t v) as [ty|] eqn:Et; [|reflexivity].
    rewrite (quant_c_shape fa (all_bits (nbits ty)) _ (cshape t se false e)).
    + destruct (cshape t se false e) as [[|n]|]; reflexivity.
    + apply all_bits_nonempty.
    + intros bs Hb. apply IHe; [|assumption].
      eapply wf_upd; eauto. now apply all_bits_len.
Qed.

(* Acceptance of a predicate by Context.add_expr does not depend on the
   assignment: it is decided by [accepts] from the declarations. *)
Theorem compile_accepts_iff : forall t e be, wf_benv t be ->
  (exists b, compile t e be = Some b) <-> accepts t e = true.
Proof.
  intros t e be W. unfold compile, accepts.
  rewrite <- (ceval_shape t e be [] [] false false W (esh_nil t)).
  destruct (ceval t be [] false false e) as [[b|l]|]; cbn [osh option_map shape_of]; split;
    try (intros [b' H]; discriminate); try discriminate; eauto.
Qed.
