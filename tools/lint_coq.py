"""Refuse forbidden vernacular anywhere in the Coq development.

Scans the hand-written files (theories, GenProofs, Properties) and, when they
exist, the generated ones (coq/gen; the checks lint a generated file again
when they write it: vlib.core.write_gen).  Works on vernacular SENTENCES
(comments and string literals removed, split at `.` followed by white space),
so that a second sentence on a line, or a `Local`/`Global`/`#[...]` prefix,
cannot hide a declaration.  Only `Section` opens a scope in which
Variable/Hypothesis/Context are allowed: `Module` does not (a Variable in a
bare Module is a global assumption).
"""
import os
import re
import sys
sys.path.insert(0, os.path.dirname(__file__))
from vlib.core import strip_comments, COQ

BAD = re.compile(
    r'\b(Admitted|admit|Axiom|Axioms|Parameter|Parameters|Conjecture|'
    r'Conjectures)\b|Admit\s+Obligations|Unset\s+Guard|bypass_check|'
    r'type-in-type|impredicative-set|Unset\s+Universe\s+Checking|'
    r'Unset\s+Positivity|Unset\s+Guard\s+Checking')
PREFIX = r'(?:(?:Local|Global|Polymorphic|Monomorphic|#\[[^\]]*\])\s+)*'
SECTION_ONLY = re.compile(
    r'^' + PREFIX + r'(Variable|Variables|Hypothesis|Hypotheses|Context)\b')
SECTION = re.compile(r'^' + PREFIX + r'Section\s+([A-Za-z_][\w\']*)')
MODULE = re.compile(
    r'^' + PREFIX + r'Module\s+(?:Type\s+)?(?:Import\s+|Export\s+)?'
    r'([A-Za-z_][\w\']*)\s*(:=)?')
END = re.compile(r'^End\s+([A-Za-z_][\w\']*)')
STRING = re.compile(r'"(?:[^"]|"")*"')


def sentences(src):
    """(line number, sentence) pairs; bullets and braces stripped."""
    src = STRING.sub('""', strip_comments(src))
    out, start, line = [], 0, 1
    for m in re.finditer(r'\.(?=\s|$)', src):
        s = src[start:m.start()]
        ln = line + len(s) - len(s.lstrip()) and \
            line + s[:len(s) - len(s.lstrip())].count('\n')
        out.append((ln, ' '.join(s.split()).lstrip('-+*{} ')))
        line += src[start:m.end()].count('\n')
        start = m.end()
    return out


def lint_file(p):
    bad = 0
    stack = []      # 'S' for Section, 'M' for Module, by name
    for ln, s in sentences(open(p).read()):
        if BAD.search(s):
            print(f'{p}:{ln}: forbidden: {s[:100]}')
            bad += 1
        m = SECTION.match(s)
        if m:
            stack.append(('S', m.group(1)))
            continue
        m = MODULE.match(s)
        if m and not m.group(2):         # `Module X := ...` opens nothing
            stack.append(('M', m.group(1)))
            continue
        m = END.match(s)
        if m:
            for k in range(len(stack) - 1, -1, -1):
                if stack[k][1] == m.group(1):
                    del stack[k:]
                    break
            continue
        if SECTION_ONLY.match(s) and not any(k == 'S' for k, _ in stack):
            print(f'{p}:{ln}: Variable/Hypothesis/Context outside a Section: '
                  f'{s[:100]}')
            bad += 1
    return bad


def main(dirs=('theories', 'GenProofs', 'Properties', 'gen')):
    bad = 0
    for d in dirs:
        for root, _, files in os.walk(os.path.join(COQ, d)):
            for fn in sorted(files):
                if fn.endswith('.v'):
                    bad += lint_file(os.path.join(root, fn))
    return bad


if __name__ == '__main__':
    sys.exit(1 if main() else 0)
