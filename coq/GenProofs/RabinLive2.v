(* LIVENESS of the synthesized Rabin implementation (transducer model composed
   with the GENERATED solver): every infinite closed-loop behaviour in which
   the environment keeps its action eventually stays inside ONE persistence
   predicate AND visits every recurrence predicate infinitely often.

   Argument: the pair (level of the state, "no persistence index chosen")
   never increases and strictly decreases on rho_1 / rho_2 steps, so from some
   point on only rho_3 / rho_4 steps occur, at a constant level k and with a
   constant persistence index h; every state reached then lies in
   cpre(z_{k-1}) \/ holds[h] and, being the source of the next such step,
   outside cpre(z_{k-1}); the rank in the attractor of the pursued goal
   strictly decreases on rho_3, so rho_4 (a visit to the goal, advancing it)
   recurs for every goal (L4/LiveLemma.v).

   Depends on Classical_Prop.classic (through L4/LiveLemma.v). *)
From Coq Require Import List Bool Arith Lia.
Import ListNotations.
From Omega Require Import L4.Arena L4.ArenaFacts L4.Kleene L4.GameSpec L4.LiveLemma.
From OmegaGen Require Import FixpointGen Gr1Gen.
From OmegaGP Require Import TransducerModel StreettNB2 StreettClosure1 StreettIter1
  RabinClosure1 RabinIter1 RabinClosure2 RabinLive1.

Section Live2.
Variables nc nx ny : nat.
Variables E S : bdd.
Variables holds goals : list bdd.
Variables moore plus_one : bool.
Variables H G : nat.
Hypothesis Sh : Forall spred holds.

Local Notation M := (H * G).
Local Notation L := (lift nc nx ny M).
Local Notation inrE := (Kleene.inr nc nx (ny * M)).
Local Notation rounds_ok := (rounds_ok nc nx ny E S holds goals moore plus_one).
Local Notation round_ok := (round_ok nc nx ny E S holds goals moore plus_one).
Local Notation cp := (cpre_spec nx ny moore plus_one E S).
Local Notation rg := (rg H G).
Local Notation rh := (rh H G).
Local Notation rgp := (rgp H G).
Local Notation rhp := (rhp H G).
Local Notation none := (length holds).
Local Notation n := (length goals).

(* state predicates inside a structured list of iterates *)
Lemma rounds_spred_z zp zk yki xkijr :
  rounds_ok zp zk yki xkijr -> forall z, In z zk -> spred z.
Proof.
  intros Ho. induction Ho as [zp|zp z0 zs yi yis xijr xs Hr Ho IH]; intros z Hz; [destruct Hz|].
  destruct Hz as [<-|Hz]; [apply Hr|apply IH, Hz].
Qed.

Lemma rounds_nth zp zk yki xkijr k xijr :
  rounds_ok zp zk yki xkijr -> nth_error xkijr k = Some xijr ->
  exists zp' z yi, round_ok zp' z yi xijr.
Proof.
  intros Ho. revert k. induction Ho as [zp|zp z0 zs yi yis xijr0 xs Hr Ho IH]; intros k Hk.
  - destruct k; discriminate.
  - destruct k as [|k]; cbn [nth_error] in Hk.
    + injection Hk as <-. exists zp, z0, yi. exact Hr.
    + apply (IH k Hk).
Qed.

Section AnyIterates.
Variables (zk : list bdd) (yki : list (list bdd)) (xkijr : list (list (list (list bdd)))).
Hypothesis Hro : rounds_ok bfalse zk yki xkijr.
Local Notation A := (rabin_action nc nx ny H G (L E) (L S) (map L holds) (map L goals)
                       moore plus_one (map L zk) (map (map L) yki)
                       (map (map (map (map L))) xkijr)).
Local Notation lvl := (lvl zk).
Local Notation zprev := (zprev zk).
Local Notation xr_at := (xr_at xkijr).
Local Notation xrank := (xrank xkijr).

Lemma xr_at_spred k h j x : In x (xr_at k h j) -> spred x.
Proof.
  unfold RabinLive1.xr_at.
  destruct (nth_error xkijr k) as [xijr|] eqn:Ek; [|intros []].
  destruct (nth_error xijr h) as [xjr|] eqn:Eh; [|intros []].
  destruct (nth_error xjr j) as [xr|] eqn:Ej; [|intros []].
  intros Hx.
  destruct (rounds_nth _ _ _ _ k xijr Hro Ek) as [zp' [z [yi Hr]]].
  destruct (round_xi nc nx ny E S holds goals moore plus_one _ _ _ _ h xjr Hr Eh)
    as [_ [y [P [_ [_ [_ [_ [_ [_ Hall]]]]]]]]].
  destruct (Hall xr (nth_error_In _ _ Ej)) as [_ Hxs]. apply (Hxs x Hx).
Qed.

(* an infinite closed-loop behaviour: sigma i is the i-th step (current and
   next values); the environment keeps its action at every step *)
Record rbehaviour_of (sigma : nat -> V) : Prop := {
  rb_inr : forall i, inrE (sigma i);
  rb_act : forall i, A (sigma i) = true;
  rb_env : forall i, L E (sigma i) = true;
  rb_link : forall i, vc (sigma (Datatypes.S i)) = vc (sigma i) /\
                      vx (sigma (Datatypes.S i)) = vxp (sigma i) /\
                      vy (sigma (Datatypes.S i)) = vyp (sigma i) }.

Variable sigma : nat -> V.
Hypothesis Hb : rbehaviour_of sigma.

Local Notation st := (fun i => bv M (sigma i)).

Lemma spred_next u i : spred u -> u (bv M (nextpt (sigma i))) = u (bv M (sigma (Datatypes.S i))).
Proof.
  intros Hu. destruct (rb_link sigma Hb i) as [H1 [H2 H3]].
  rewrite (Hu (bv M (nextpt (sigma i)))), (Hu (bv M (sigma (Datatypes.S i)))).
  unfold bv, nextpt. cbn [vc vx vy vxp vyp]. rewrite H1, H2, H3. reflexivity.
Qed.

Lemma fidx_next l i :
  (forall b, In b l -> spred b) ->
  fidx l (bv M (nextpt (sigma i))) = fidx l (bv M (sigma (Datatypes.S i))).
Proof.
  intros Hl. induction l as [|b l IH]; [reflexivity|]. cbn [fidx].
  rewrite (spred_next b i (Hl b (or_introl eq_refl))), IH; [reflexivity|].
  intros c Hc. apply Hl. right. exact Hc.
Qed.

Lemma lvl_next i : lvl (bv M (nextpt (sigma i))) = lvl (bv M (sigma (Datatypes.S i))).
Proof. apply fidx_next. apply (rounds_spred_z _ _ _ _ Hro). Qed.

Lemma xrank_next k h j i :
  xrank k h j (bv M (nextpt (sigma i))) = xrank k h j (bv M (sigma (Datatypes.S i))).
Proof. apply fidx_next. intros b Hin. apply (xr_at_spred k h j b Hin). Qed.

Lemma cp_spred' T : spred (cp T).
Proof. intros v. unfold cpre_spec, phi. reflexivity. Qed.

Lemma rh_next i : rh (sigma (Datatypes.S i)) = rhp (sigma i).
Proof. unfold TransducerModel.rh, TransducerModel.rhp. destruct (rb_link sigma Hb i) as [_ [_ H3]]. rewrite H3. reflexivity. Qed.
Lemma rg_next i : rg (sigma (Datatypes.S i)) = rgp (sigma i).
Proof. unfold TransducerModel.rg, TransducerModel.rgp. destruct (rb_link sigma Hb i) as [_ [_ H3]]. rewrite H3. reflexivity. Qed.

Lemma facts i : rfact nx ny E S holds goals moore plus_one H G zk xkijr (sigma i).
Proof.
  apply (rabin_step_facts nc nx ny E S holds goals moore plus_one H G zk yki xkijr Hro);
    [apply (rb_inr sigma Hb)|apply (rb_act sigma Hb)|apply (rb_env sigma Hb)].
Qed.

(* the measure that settles level and "index chosen" *)
Definition flag (i : nat) : nat := if Nat.eqb (rh (sigma i)) none then 1 else 0.
Definition meas (i : nat) : nat := 2 * lvl (st i) + flag i.

(* what holds at a step that does not lower the measure *)
Definition quiet (i : nat) : Prop :=
  rh (sigma i) < none /\ rh (sigma (Datatypes.S i)) = rh (sigma i) /\
  lvl (st (Datatypes.S i)) <= lvl (st i) /\ rg (sigma i) < n /\
  cp (zprev (lvl (st i))) (st i) = false /\
  (exists P, nth_error holds (rh (sigma i)) = Some P /\
     cp (zprev (lvl (st i))) (st (Datatypes.S i)) || P (st (Datatypes.S i)) = true) /\
  ((rg (sigma (Datatypes.S i)) = rg (sigma i) /\
    xrank (lvl (st i)) (rh (sigma i)) (rg (sigma i)) (st (Datatypes.S i)) <
      xrank (lvl (st i)) (rh (sigma i)) (rg (sigma i)) (st i)) \/
   (rg (sigma (Datatypes.S i)) = (rg (sigma i) + 1) mod n /\
    exists R, nth_error goals (rg (sigma i)) = Some R /\ R (st i) = true)).

Lemma flag_le1 i : flag i <= 1.
Proof. unfold flag. destruct (Nat.eqb _ _); lia. Qed.

Lemma meas_step i : meas (Datatypes.S i) < meas i \/ (meas (Datatypes.S i) <= meas i /\ quiet i).
Proof.
  unfold meas.
  destruct (facts i) as [F1 F2|F1 F2 F3|P F1 F2 F3 F4 F5 F6 F7 F8 F9|P R F1 F2 F3 F4 F5 F6 F7 F8 F9];
    cbn beta in *.
  - left. rewrite lvl_next in F1. pose proof (flag_le1 (Datatypes.S i)). lia.
  - left. rewrite lvl_next in F1. unfold flag. rewrite rh_next.
    apply Nat.eqb_eq in F2. rewrite F2.
    assert (Hne : Nat.eqb (rhp (sigma i)) none = false) by (apply Nat.eqb_neq; lia).
    rewrite Hne. lia.
  - right. rewrite lvl_next in F5. rewrite xrank_next in F9.
    rewrite (spred_next _ i (cp_spred' _)) in F8.
    assert (SP : spred P) by (rewrite Forall_forall in Sh; apply Sh, (nth_error_In _ _ F7)).
    rewrite (spred_next P i SP) in F8.
    assert (Hf : flag i = 0) by (unfold flag; assert (Hne : Nat.eqb (rh (sigma i)) none = false) by (apply Nat.eqb_neq; lia); rewrite Hne; reflexivity).
    assert (Hf' : flag (Datatypes.S i) = 0).
    { unfold flag. rewrite rh_next, F2.
      assert (Hne : Nat.eqb (rh (sigma i)) none = false) by (apply Nat.eqb_neq; lia).
      rewrite Hne. reflexivity. }
    split; [lia|]. unfold quiet. rewrite rh_next, rg_next.
    split; [exact F1|]. split; [exact F2|]. split; [exact F5|]. split; [exact F4|].
    split; [exact F6|]. split; [exists P; auto|]. left. auto.
  - right. rewrite lvl_next in F6.
    rewrite (spred_next _ i (cp_spred' _)) in F9.
    assert (SP : spred P) by (rewrite Forall_forall in Sh; apply Sh, (nth_error_In _ _ F8)).
    rewrite (spred_next P i SP) in F9.
    assert (Hf : flag i = 0) by (unfold flag; assert (Hne : Nat.eqb (rh (sigma i)) none = false) by (apply Nat.eqb_neq; lia); rewrite Hne; reflexivity).
    assert (Hf' : flag (Datatypes.S i) = 0).
    { unfold flag. rewrite rh_next, F2.
      assert (Hne : Nat.eqb (rh (sigma i)) none = false) by (apply Nat.eqb_neq; lia).
      rewrite Hne. reflexivity. }
    assert (Hlt : rg (sigma i) < n) by (apply nth_error_Some; congruence).
    split; [lia|]. unfold quiet. rewrite rh_next, rg_next.
    split; [exact F1|]. split; [exact F2|]. split; [exact F6|]. split; [exact Hlt|].
    split; [exact F7|]. split; [exists P; auto|]. right. split; [exact F3|]. exists R. auto.
Qed.

Theorem rabin_live_ro :
  (exists P, In P holds /\ exists N, forall i, N <= i -> P (st i) = true) /\
  (forall j R, nth_error goals j = Some R -> forall N, exists i, N <= i /\ R (st i) = true).
Proof.
  (* the measure settles *)
  destruct (eventually_constant 1 Nat.lt_0_1 meas 0) as [N1 [_ Hconst]].
  { intros i _. destruct (meas_step i) as [Hlt|[Hle _]]; lia. }
  assert (Hq : forall i, N1 <= i -> quiet i).
  { intros i Hi. destruct (meas_step i) as [Hlt|[_ Hq]]; [|exact Hq].
    rewrite (Hconst i Hi), (Hconst (Datatypes.S i)) in Hlt by lia. lia. }
  set (h := rh (sigma N1)). set (k := lvl (st N1)).
  assert (Hflag0 : forall i, N1 <= i -> flag i = 0).
  { intros i Hi. destruct (Hq i Hi) as [Hlt _]. unfold flag.
    assert (Hne : Nat.eqb (rh (sigma i)) none = false) by (apply Nat.eqb_neq; lia).
    rewrite Hne. reflexivity. }
  assert (Hh : forall i, N1 <= i -> rh (sigma i) = h).
  { intros i Hi. induction Hi as [|i Hi IH]; [reflexivity|].
    destruct (Hq i Hi) as [_ [Hs _]]. rewrite Hs. exact IH. }
  assert (Hk : forall i, N1 <= i -> lvl (st i) = k).
  { intros i Hi. pose proof (Hconst i Hi) as Hc. unfold meas in Hc.
    rewrite (Hflag0 i Hi), (Hflag0 N1 (le_n _)) in Hc. unfold k. cbn beta in *. lia. }
  assert (Hhlt : h < none) by (destruct (Hq N1 (le_n _)) as [Hlt _]; exact Hlt).
  destruct (nth_error holds h) as [P|] eqn:EP; [|apply nth_error_None in EP; lia].
  split.
  - (* persistence *)
    exists P. split; [apply (nth_error_In _ _ EP)|]. exists (Datatypes.S N1).
    intros i Hi. destruct i as [|i]; [lia|]. assert (Hi' : N1 <= i) by lia.
    destruct (Hq i Hi') as [_ [_ [_ [_ [_ [[P' [EP' Ht]] _]]]]]].
    rewrite (Hh i Hi'), EP in EP'. injection EP' as <-.
    destruct (Hq (Datatypes.S i) ltac:(lia)) as [_ [_ [_ [_ [Hsrc _]]]]].
    cbn beta in *. rewrite (Hk i Hi') in Ht. rewrite (Hk (Datatypes.S i) ltac:(lia)) in Hsrc.
    rewrite Hsrc in Ht. exact Ht.
  - (* recurrence *)
    assert (Hn : 0 < n) by (destruct (Hq N1 (le_n _)) as [_ [_ [_ [Hlt _]]]]; lia).
    set (c := fun i => rg (sigma (N1 + i))).
    set (Sw := fun i => (exists R, nth_error goals (c i) = Some R /\ R (st (N1 + i)) = true) /\
                        c (Datatypes.S i) = (c i + 1) mod n).
    set (Ds := fun i => xrank k h (c i) (st (N1 + Datatypes.S i)) < xrank k h (c i) (st (N1 + i)) /\
                        c (Datatypes.S i) = c i).
    set (St := fun _ : nat => False).
    assert (Hc : forall i, c i < n).
    { intros i. destruct (Hq (N1 + i) ltac:(lia)) as [_ [_ [_ [Hlt _]]]]. exact Hlt. }
    assert (Hkinds : forall i, Sw i \/ Ds i \/ St i).
    { intros i. assert (Hi : N1 <= N1 + i) by lia.
      destruct (Hq (N1 + i) Hi) as [_ [_ [_ [_ [_ [_ Hcase]]]]]].
      rewrite (Hk _ Hi), (Hh _ Hi) in Hcase. unfold Sw, Ds, c.
      rewrite Nat.add_succ_r. destruct Hcase as [[C1 C2]|[C1 C2]]; [right; left|left]; auto. }
    destruct (live_dichotomy n Hn c Hc Sw Ds St Hkinds) with (m := fun j i => xrank k h j (st (N1 + i)))
      as [[N [N2 [_ Hstay]]]|Hcover].
    + intros i [_ Hs]. exact Hs.
    + intros i [_ Hs]. exact Hs.
    + intros i [].
    + intros i [Hs _]. exact Hs.
    + intros i [].
    + destruct (Hstay N2 (le_n _)) as [[] _].
    + intros j R Hj N. assert (Hjn : j < n) by (apply nth_error_Some; congruence).
      destruct (Hcover j Hjn N) as [i [Hi [[[R' [HR' Hst]] _] Hcj]]].
      exists (N1 + i). split; [lia|]. rewrite Hcj, Hj in HR'. injection HR' as <-. exact Hst.
Qed.

End AnyIterates.

(* ---- the generated solver ------------------------------------------------- *)
Variable fuel : nat.
Hypothesis Hfuel : NV nc nx ny <= fuel.
Hypothesis Sg : Forall spred goals.

Local Notation solve := (Gr1Gen.solve_rabin_game nc nx ny E S holds goals moore plus_one).

Definition rbehaviour (sigma : nat -> V) : Prop :=
  rbehaviour_of (fst (fst (solve fuel))) (snd (fst (solve fuel))) (snd (solve fuel)) sigma.

Theorem rabin_impl_live sigma :
  rbehaviour sigma ->
  (exists P, In P holds /\ exists N, forall i, N <= i -> P (bv M (sigma i)) = true) /\
  (forall j R, nth_error goals j = Some R ->
     forall N, exists i, N <= i /\ R (bv M (sigma i)) = true).
Proof.
  intros Hb.
  apply (rabin_live_ro _ _ _
           (solve_rounds_ok nc nx ny E S holds goals moore plus_one fuel Hfuel Sh Sg) sigma Hb).
Qed.

End Live2.
