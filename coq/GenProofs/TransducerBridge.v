(* The transducer constructions TRANSLATED from gr1.make_streett_transducer /
   make_rabin_transducer (gen/TransducerGen.v, tie T) are the hand-structured
   models of TransducerModel.v that the C02 / C05 theorems talk about,
   composed with the generated is_realizable and _make_init.  Leibniz
   equalities, by conversion (plus one arithmetic rewrite for Rabin): a
   change of the construction in gr1.py that alters the translated term
   breaks these lemmas. *)
From Coq Require Import String List Bool Arith Lia.
Import ListNotations.
From Omega Require Import L4.Arena.
From OmegaGen Require Import FixpointGen Gr1Gen TransducerGen.
From OmegaGP Require Import TransducerModel.

(* automaton fields the translated constructions read, by name *)
Example reads_pinned_transducers :
  (StreettGen.make_streett_transducer_reads =
    ["action[env]"; "action[sys]"; "init[env]"; "init[sys]"; "moore"; "plus_one";
     "varlist[env']"; "win[<>[]]"; "win[[]<>]"] /\
   RabinGen.make_rabin_transducer_reads =
    ["action[env]"; "action[sys]"; "init[env]"; "init[sys]"; "moore"; "plus_one";
     "varlist[env']"; "win[<>[]]"; "win[[]<>]"])%string.
Proof. split; reflexivity. Qed.

Section Bridge.
Variables nc nx ny : nat.
Variables E S EI SI : bdd.
Variables holds goals : list bdd.
Variables moore plus_one : bool.
Variable qinit : qinit_t.

Section Streett.
Variable G : nat.
Local Notation nyE := (ny * G).
Local Notation real := (Gr1Gen.is_realizable nc nx nyE EI SI plus_one qinit).
Local Notation mkinit := (Gr1Gen.make_init nc nx nyE EI SI plus_one qinit).
Local Notation action := (streett_action nc nx ny G E S holds goals moore plus_one).

Definition streett_construction (fuel : nat) (z : bdd) (yij : list (list bdd))
    (xijk : list (list (list bdd))) : option (bdd * bdd) :=
  match real fuel z with
  | Some true =>
    if Nat.leb 1 (List.length goals) then
      let u := action z yij xijk in
      if negb (beq nc nx nyE u bfalse) then
        match mkinit fuel (streett_init_count nc nx ny G) z with
        | Some i => Some (u, i)
        | None => None
        end
      else None
    else None
  | _ => None
  end.

Theorem streett_generated_is_model fuel z yij xijk :
  StreettGen.make_streett_transducer nc nx ny G E S EI SI holds goals moore
    plus_one qinit fuel z yij xijk
  = streett_construction fuel z yij xijk.
Proof. reflexivity. Qed.

Theorem streett_generated_some fuel z yij xijk a i :
  StreettGen.make_streett_transducer nc nx ny G E S EI SI holds goals moore
    plus_one qinit fuel z yij xijk = Some (a, i) ->
  a = action z yij xijk /\
  mkinit fuel (streett_init_count nc nx ny G) z = Some i /\
  real fuel z = Some true /\ 1 <= List.length goals /\
  beq nc nx nyE a bfalse = false.
Proof.
  rewrite streett_generated_is_model. unfold streett_construction.
  destruct (real fuel z) as [[|]|]; try discriminate.
  destruct (Nat.leb 1 (List.length goals)) eqn:Hg; [|discriminate].
  cbv zeta. destruct (beq nc nx nyE (action z yij xijk) bfalse) eqn:Hb;
    cbn [negb]; [discriminate|].
  destruct (mkinit fuel _ z) as [i0|]; [|discriminate].
  intros H. inversion H. subst. apply Nat.leb_le in Hg. repeat split; auto.
Qed.

End Streett.

Section Rabin.
Variables H G : nat.
Local Notation nyE := (ny * (H * G)).
Local Notation real := (Gr1Gen.is_realizable nc nx nyE EI SI plus_one qinit).
Local Notation mkinit := (Gr1Gen.make_init nc nx nyE EI SI plus_one qinit).
Local Notation action := (rabin_action nc nx ny H G E S holds goals moore plus_one).

Definition rabin_construction (fuel : nat) (zk : list bdd) (yki : list (list bdd))
    (xkijr : list (list (list (list bdd)))) : option (bdd * bdd) :=
  let winning := last zk bfalse in
  match real fuel winning with
  | Some true =>
    if Nat.leb 1 (List.length holds) then
      if Nat.leb 1 (List.length goals) then
        let u := action zk yki xkijr in
        if negb (beq nc nx nyE u bfalse) then
          match mkinit fuel (rabin_init_count nc nx ny H G holds) winning with
          | Some i => Some (u, i)
          | None => None
          end
        else None
      else None
    else None
  | _ => None
  end.

Theorem rabin_generated_is_model fuel zk yki xkijr :
  RabinGen.make_rabin_transducer nc nx ny H G E S EI SI holds goals moore
    plus_one qinit fuel zk yki xkijr
  = rabin_construction fuel zk yki xkijr.
Proof.
  unfold RabinGen.make_rabin_transducer, rabin_construction. cbv zeta.
  destruct (real fuel (last zk bfalse)) as [[|]|]; try reflexivity.
  destruct (Nat.leb 1 (List.length holds)) eqn:Hh; [|reflexivity].
  apply Nat.leb_le in Hh. rewrite (Nat.sub_add 1 (List.length holds) Hh).
  destruct (Nat.leb 1 (List.length goals)); [|reflexivity].
  pose (K := fun u : bdd =>
    if negb (beq nc nx nyE u bfalse) then
      match mkinit fuel (rabin_init_count nc nx ny H G holds) (last zk bfalse) with
      | Some i => Some (u, i)
      | None => None
      end
    else None).
  match goal with |- ?L = _ => change (L = K (action zk yki xkijr)) end.
  rewrite <- rabin_action_k_eq. reflexivity.
Qed.

Theorem rabin_generated_some fuel zk yki xkijr a i :
  RabinGen.make_rabin_transducer nc nx ny H G E S EI SI holds goals moore
    plus_one qinit fuel zk yki xkijr = Some (a, i) ->
  a = action zk yki xkijr /\
  mkinit fuel (rabin_init_count nc nx ny H G holds) (last zk bfalse) = Some i /\
  real fuel (last zk bfalse) = Some true /\
  1 <= List.length holds /\ 1 <= List.length goals /\
  beq nc nx nyE a bfalse = false.
Proof.
  rewrite rabin_generated_is_model. unfold rabin_construction. cbv zeta.
  destruct (real fuel (last zk bfalse)) as [[|]|]; try discriminate.
  destruct (Nat.leb 1 (List.length holds)) eqn:Hh; [|discriminate].
  destruct (Nat.leb 1 (List.length goals)) eqn:Hg; [|discriminate].
  destruct (beq nc nx nyE (action zk yki xkijr) bfalse) eqn:Hb;
    cbn [negb]; [discriminate|].
  destruct (mkinit fuel _ _) as [i0|]; [|discriminate].
  intros H0. inversion H0. subst. apply Nat.leb_le in Hg, Hh. repeat split; auto.
Qed.

End Rabin.
End Bridge.
