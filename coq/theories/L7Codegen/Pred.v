(* L7 / Pred: BDDs "by meaning" over a fixed list of n bits.

   A BDD over the declared bits b_0 .. b_(n-1) is modelled by the Boolean
   function it denotes on assignments [asg = list bool] (position i = value
   of bit i).  The operations of `dd` used by omega/symbolic/functions.py
   (apply, exist, let with a constant / with a BDD, support, == false) are
   defined by meaning.  Every operation tabulates its result into a binary
   tree ([memo]) so that vm_compute costs what a truth-table algorithm costs;
   [memo_id] (PredFacts.v) shows tabulation never changes the function, for
   assignments of any length.  No proofs here. *)
From Coq Require Import List Bool Arith NArith.
Import ListNotations.

Definition asg := list bool.
Definition pred := asg -> bool.
Definition var := nat.

Fixpoint upd (a : asg) (i : var) (b : bool) : asg :=
  match a, i with
  | [], _ => []
  | _ :: r, O => b :: r
  | x :: r, S k => x :: upd r k b
  end.

Definition get (a : asg) (i : var) : bool := nth i a false.

(* --- tabulation --------------------------------------------------------- *)
Inductive tree := Leaf (b : bool) | Node (lo hi : tree).

Fixpoint tabulate (n : nat) (p : pred) : tree :=
  match n with
  | O => Leaf (p [])
  | S k => Node (tabulate k (fun a => p (false :: a)))
                (tabulate k (fun a => p (true :: a)))
  end.

Fixpoint lookup (t : tree) (a : asg) : option bool :=
  match t, a with
  | Leaf b, [] => Some b
  | Node lo hi, x :: r => lookup (if x then hi else lo) r
  | _, _ => None
  end.

Definition memo (n : nat) (p : pred) : pred :=
  let t := tabulate n p in
  fun a => match lookup t a with Some b => b | None => p a end.

(* all assignments to n bits *)
Fixpoint all_asg (n : nat) : list asg :=
  match n with
  | O => [[]]
  | S k => let r := all_asg k in map (cons false) r ++ map (cons true) r
  end.

Section Pred.
Variable n : nat.

Definition ptrue : pred := fun _ => true.
Definition pfalse : pred := fun _ => false.
Definition pand (p q : pred) : pred := memo n (fun a => p a && q a).
Definition por (p q : pred) : pred := memo n (fun a => p a || q a).
Definition pnot (p : pred) : pred := memo n (fun a => negb (p a)).

(* bdd.let({y: b}, p) for a constant b *)
Definition cofactor (p : pred) (y : var) (b : bool) : pred :=
  memo n (fun a => p (upd a y b)).
(* bdd.let({y: g}, p) for a BDD g (composition) *)
Definition subst (p : pred) (y : var) (g : pred) : pred :=
  memo n (fun a => p (upd a y (g a))).
(* bdd.exist([y], p) *)
Definition exist1 (y : var) (p : pred) : pred :=
  memo n (fun a => p (upd a y true) || p (upd a y false)).
(* bdd.exist(ys, p) *)
Definition exist (ys : list var) (p : pred) : pred :=
  fold_right exist1 p ys.

(* p == bdd.false  (canonicity: semantic emptiness over the declared bits) *)
Definition is_false (p : pred) : bool :=
  forallb (fun a => negb (p a)) (all_asg n).
Definition peq (p q : pred) : bool :=
  forallb (fun a => eqb (p a) (q a)) (all_asg n).

(* y in bdd.support(p) *)
Definition depends (p : pred) (y : var) : bool :=
  existsb (fun a => xorb (p (upd a y true)) (p (upd a y false))) (all_asg n).
Definition support (p : pred) : list var := filter (depends p) (seq 0 n).

End Pred.

(* --- literal truth tables (tie H) --------------------------------------
   A table is a number whose bit  idx(a) = sum a_i 2^i  is the value at a. *)
Fixpoint idx (a : asg) : N :=
  match a with
  | [] => 0%N
  | b :: r => ((if b then 1 else 0) + 2 * idx r)%N
  end.
Definition of_table (n : nat) (t : N) : pred :=
  memo n (fun a => N.testbit t (idx a)).
Definition agrees_table (n : nat) (p : pred) (t : N) : bool :=
  forallb (fun a => eqb (p a) (N.testbit t (idx a))) (all_asg n).
(* p and q agree wherever c holds *)
Definition agree_on (n : nat) (c p q : pred) : bool :=
  forallb (fun a => implb (c a) (eqb (p a) (q a))) (all_asg n).
Definition same_set (xs ys : list nat) : bool :=
  forallb (fun x => existsb (Nat.eqb x) ys) xs &&
  forallb (fun y => existsb (Nat.eqb y) xs) ys.
