(* L4Enum / EnumCode: the CODE-LEVEL model of omega/games/enumeration.py:
   the functions action_to_steps, _action_to_steps, _select_candidate_nodes,
   _primed_vars_per_quantifier, _init_search, _forall_init, _exist_init,
   _forall_exist_init, _exist_forall_init, _find_node, _add_new_node,
   _node_tuple, statement by statement, over the arena algebra of
   EnumArena.v, with the loop bodies as named definitions.

   This file is the structured twin of coq/gen/GamesEnumGen.v: on every run
   the translator regenerates GamesEnumGen.v from the current source and
   GenProofs/GamesEnumBridge.v proves, by conversion, that each generated
   function EQUALS the function of the same name here (c_ prefix).
   EnumCodeProofs.v relates this model to the abstract worklist model
   EnumModel.v by a simulation.  No proofs here. *)
From Coq Require Import List Bool Arith String.
From Omega Require Import L4Enum.EnumArena.
Import ListNotations.

Section Code.
Variables nx ny : nat.
Variable pick : bdd -> list var -> option asg.
Variable pick_iter : bdd -> list var -> list asg.

(* the state of the loops: (g, umap, visited, queue) in the initial searches,
   (umap, g, queue, visited) in the worklist *)
Definition init_state := (nxgraph * list (key * nat) * bdd * list nat)%type.
Definition work_state := (list (key * nat) * nxgraph * list nat * bdd)%type.

Definition c_node_tuple (v_d : asg) (v_keys : list var) : option key :=
  m_bind (m_map (fun v_k => m_bind (dict_get var_eqb v_k v_d) (fun t1 => Some t1)) v_keys) (fun t2 =>
  Some t2).

Definition c_find_node (v_d : asg) (v_umap : list (key * nat)) (v_keys : list var) : option nat :=
  m_bind (c_node_tuple v_d v_keys) (fun v_key =>
  m_assert (dict_has key_eqb v_key v_umap) (
  m_bind (dict_get key_eqb v_key v_umap) (fun v_u =>
  Some v_u))).

Definition c_add_new_node (v_d : asg) (v_g : nxgraph) (v_queue : list nat)
    (v_umap : list (key * nat)) (v_keys : list var)
    : option (nat * nxgraph * list nat * list (key * nat)) :=
  let v_u := nx_len v_g in
  m_assert (negb (nx_has_node v_g v_u)) (
  let v_g := nx_add_node v_g v_u v_d in
  m_bind (c_node_tuple v_d v_keys) (fun v_key =>
  m_assert (negb (dict_has key_eqb v_key v_umap)) (
  let v_umap := dict_set key_eqb v_key v_u v_umap in
  let v_queue := v_queue ++ [v_u] in
  Some (v_u, v_g, v_queue, v_umap)))).

Definition c_select_candidate_nodes (v_next_nodes v_visited_nodes : bdd)
    (v_aut : automaton) (v_visited : bool) : option (bdd * bool) :=
  let v_u := v_next_nodes in
  let v_v := v_visited_nodes in
  if v_visited then
    let v_v := band nx ny v_v v_u in
    if bdd_eqb v_v (bfalse nx ny) then
      let v_v := v_u in
      m_assert (negb (bdd_eqb v_v (bfalse nx ny))) (Some (v_v, false))
    else
      m_assert (negb (bdd_eqb v_v (bfalse nx ny))) (Some (v_v, true))
  else
    let v_v := band nx ny v_u (bnot nx ny v_v) in
    if bdd_eqb v_v (bfalse nx ny) then
      let v_v := v_u in
      m_assert (negb (bdd_eqb v_v (bfalse nx ny))) (Some (v_v, true))
    else
      m_assert (negb (bdd_eqb v_v (bfalse nx ny))) (Some (v_v, false)).

Definition c_primed_vars_per_quantifier (v_varlist : list (string * list var))
    : option (list (string * list var)) :=
  m_assert (dict_has String.eqb "env"%string v_varlist) (
  m_assert (dict_has String.eqb "sys"%string v_varlist) (
  m_bind (dict_get String.eqb "env"%string v_varlist) (fun t1 =>
  m_bind (m_map (fun v_var => m_bind (stx_prime v_var) (fun t2 => Some t2)) t1) (fun t3 =>
  m_bind (dict_get String.eqb "sys"%string v_varlist) (fun t4 =>
  m_bind (m_map (fun v_var => m_bind (stx_prime v_var) (fun t5 => Some t5)) t4) (fun t6 =>
  Some [("env"%string, t3); ("sys"%string, t6)])))))).

(* ---- the four initial searches ------------------------------------------ *)
(* what every search does with an initial assignment d *)
Definition c_init_add (v_aut : automaton) (v_keys : list var) (st : init_state)
    (v_d : asg) : option init_state :=
  let '(v_g, v_umap, v_visited, v_queue) := st in
  m_bind (c_add_new_node v_d v_g v_queue v_umap v_keys) (fun '(t5, v_g, v_queue, v_umap) =>
  let v_visited := add_to_visited nx ny v_d v_visited v_aut in
  Some (v_g, v_umap, v_visited, v_queue)).

Definition init_result := ((list nat * bdd) * nxgraph * list (key * nat))%type.

Definition c_forall_init (v_g : nxgraph) (v_aut : automaton)
    (v_umap : list (key * nat)) (v_keys : list var) : option init_result :=
  m_bind (dict_get String.eqb "env"%string (a_init v_aut)) (fun v_env_init =>
  m_bind (dict_get String.eqb "sys"%string (a_init v_aut)) (fun v_sys_init =>
  m_assert (negb (bdd_eqb v_env_init (bfalse nx ny))) (
  m_bind (dict_get String.eqb "env"%string (a_varlist v_aut)) (fun t3 =>
  m_bind (dict_get String.eqb "sys"%string (a_varlist v_aut)) (fun t4 =>
  let v_init_iter := pick_iter (band nx ny v_env_init v_sys_init) (t3 ++ t4) in
  m_bind (m_for (c_init_add v_aut v_keys) v_init_iter (v_g, v_umap, bfalse nx ny, []))
    (fun '(v_g, v_umap, v_visited, v_queue) =>
  Some ((v_queue, v_visited), v_g, v_umap))))))).

Definition c_exist_init (v_g : nxgraph) (v_aut : automaton)
    (v_umap : list (key * nat)) (v_keys : list var) : option init_result :=
  m_bind (dict_get String.eqb "sys"%string (a_init v_aut)) (fun v_sys_init =>
  m_assert (negb (bdd_eqb v_sys_init (bfalse nx ny))) (
  m_bind (dict_get String.eqb "env"%string (a_varlist v_aut)) (fun t2 =>
  m_bind (dict_get String.eqb "sys"%string (a_varlist v_aut)) (fun t3 =>
  m_bind (pick v_sys_init (t2 ++ t3)) (fun v_d =>
  m_bind (c_add_new_node v_d v_g [] v_umap v_keys) (fun '(t5, v_g, v_queue, v_umap) =>
  let v_visited := add_to_visited nx ny v_d (bfalse nx ny) v_aut in
  Some ((v_queue, v_visited), v_g, v_umap))))))).

Definition c_forall_exist_body (v_aut : automaton) (v_keys : list var)
    (v_env_init v_sys_init : bdd) (st : init_state) (v_env_0 : asg)
    : option init_state :=
  let '(v_g, v_umap, v_visited, v_queue) := st in
  let v_u := blet nx ny v_env_0 v_sys_init in
  m_bind (dict_get String.eqb "sys"%string (a_varlist v_aut)) (fun t5 =>
  m_bind (pick v_u t5) (fun v_sys_0 =>
  let v_d := dict_update var_eqb v_env_0 v_sys_0 in
  let v_u := blet nx ny v_d v_env_init in
  m_assert (bdd_eqb v_u (btrue nx ny)) (
  m_bind (c_add_new_node v_d v_g v_queue v_umap v_keys) (fun '(t7, v_g, v_queue, v_umap) =>
  let v_visited := add_to_visited nx ny v_d v_visited v_aut in
  Some (v_g, v_umap, v_visited, v_queue))))).

Definition c_forall_exist_init (v_g : nxgraph) (v_aut : automaton)
    (v_umap : list (key * nat)) (v_keys : list var) : option init_result :=
  m_bind (dict_get String.eqb "env"%string (a_init v_aut)) (fun v_env_init =>
  m_bind (dict_get String.eqb "sys"%string (a_init v_aut)) (fun v_sys_init =>
  m_assert (negb (bdd_eqb v_env_init (bfalse nx ny))) (
  m_assert (negb (bdd_eqb v_sys_init (bfalse nx ny))) (
  m_bind (dict_get String.eqb "sys"%string (a_varlist v_aut)) (fun t3 =>
  let v_only_env_init := bexist nx ny t3 v_env_init in
  m_bind (dict_get String.eqb "env"%string (a_varlist v_aut)) (fun t4 =>
  let v_env_iter := pick_iter v_only_env_init t4 in
  m_bind (m_for (c_forall_exist_body v_aut v_keys v_env_init v_sys_init)
            v_env_iter (v_g, v_umap, bfalse nx ny, []))
    (fun '(v_g, v_umap, v_visited, v_queue) =>
  Some ((v_queue, v_visited), v_g, v_umap)))))))).

Definition c_exist_forall_body (v_aut : automaton) (v_keys : list var)
    (v_env_init : bdd) (v_sys_0 : asg) (st : init_state) (v_env_0 : asg)
    : option init_state :=
  let '(v_g, v_umap, v_visited, v_queue) := st in
  let v_d := dict_update var_eqb v_env_0 v_sys_0 in
  let v_u := blet nx ny v_d v_env_init in
  m_assert (bdd_eqb v_u (btrue nx ny)) (
  m_bind (c_add_new_node v_d v_g v_queue v_umap v_keys) (fun '(t7, v_g, v_queue, v_umap) =>
  let v_visited := add_to_visited nx ny v_d v_visited v_aut in
  Some (v_g, v_umap, v_visited, v_queue))).

Definition c_exist_forall_init (v_g : nxgraph) (v_aut : automaton)
    (v_umap : list (key * nat)) (v_keys : list var) : option init_result :=
  m_bind (dict_get String.eqb "env"%string (a_init v_aut)) (fun v_env_init =>
  m_bind (dict_get String.eqb "sys"%string (a_init v_aut)) (fun v_sys_init =>
  m_assert (negb (bdd_eqb v_env_init (bfalse nx ny))) (
  m_assert (negb (bdd_eqb v_sys_init (bfalse nx ny))) (
  m_bind (dict_get String.eqb "env"%string (a_varlist v_aut)) (fun t3 =>
  let v_u := bforall nx ny t3 v_sys_init in
  m_assert (negb (bdd_eqb v_u (bfalse nx ny))) (
  m_bind (dict_get String.eqb "sys"%string (a_varlist v_aut)) (fun t4 =>
  m_bind (pick v_u t4) (fun v_sys_0 =>
  m_bind (dict_get String.eqb "env"%string (a_varlist v_aut)) (fun t6 =>
  let v_env_iter := pick_iter v_env_init t6 in
  m_bind (m_for (c_exist_forall_body v_aut v_keys v_env_init v_sys_0)
            v_env_iter (v_g, v_umap, bfalse nx ny, []))
    (fun '(v_g, v_umap, v_visited, v_queue) =>
  Some ((v_queue, v_visited), v_g, v_umap))))))))))).

Definition c_init_search (v_g : nxgraph) (v_aut : automaton)
    (v_umap : list (key * nat)) (v_keys : list var) (v_qinit : string)
    : option init_result :=
  if String.eqb v_qinit "\A \E"%string then
    m_bind (c_forall_exist_init v_g v_aut v_umap v_keys) (fun '(t1, v_g, v_umap) =>
    let '(v_queue, v_visited) := t1 in
    Some ((v_queue, v_visited), v_g, v_umap))
  else if String.eqb v_qinit "\A \A"%string then
    m_bind (c_forall_init v_g v_aut v_umap v_keys) (fun '(t2, v_g, v_umap) =>
    let '(v_queue, v_visited) := t2 in
    Some ((v_queue, v_visited), v_g, v_umap))
  else if String.eqb v_qinit "\E \E"%string then
    m_bind (c_exist_init v_g v_aut v_umap v_keys) (fun '(t3, v_g, v_umap) =>
    let '(v_queue, v_visited) := t3 in
    Some ((v_queue, v_visited), v_g, v_umap))
  else if String.eqb v_qinit "\E \A"%string then
    m_bind (c_exist_forall_init v_g v_aut v_umap v_keys) (fun '(t4, v_g, v_umap) =>
    let '(v_queue, v_visited) := t4 in
    Some ((v_queue, v_visited), v_g, v_umap))
  else None.

(* ---- the worklist ---------------------------------------------------------- *)
(* one next environment assignment at the popped node *)
Definition c_env_body (v_aut : automaton) (v_keys : list var)
    (v_unprime_vars : list (var * var)) (v_node : nat) (v_sys : bdd)
    (st : work_state) (v_next_env : asg) : option work_state :=
  let '(v_umap, v_g, v_queue, v_visited) := st in
  let v_u := blet nx ny v_next_env v_sys in
  let v_u := brename nx ny v_unprime_vars v_u in
  m_bind (m_map (fun '(v_var, v_value) =>
            m_bind (dict_get var_eqb v_var v_unprime_vars) (fun t14 => Some (t14, v_value)))
          v_next_env) (fun t15 =>
  let v_env_values := dict_of_items var_eqb t15 in
  let v_v := blet nx ny v_env_values v_visited in
  m_bind (c_select_candidate_nodes v_u v_v v_aut true) (fun t16 =>
  let '(v_v, v_remain) := t16 in
  m_bind (dict_get String.eqb "sys"%string (a_varlist v_aut)) (fun t17 =>
  m_bind (pick v_v t17) (fun v_sys_values =>
  let v_d := dict_update var_eqb v_env_values v_sys_values in
  let v_u := blet nx ny v_d v_visited in
  m_assert (bdd_eqb v_u (btrue nx ny) || bdd_eqb v_u (bfalse nx ny)) (
  m_assert (Bool.eqb v_remain (bdd_eqb v_u (btrue nx ny))) (
  if v_remain then
    m_bind (c_find_node v_d v_umap v_keys) (fun v_next_node =>
    let v_g := nx_add_edge v_g v_node v_next_node in
    Some (v_umap, v_g, v_queue, v_visited))
  else
    m_bind (c_add_new_node v_d v_g v_queue v_umap v_keys) (fun '(t20, v_g, v_queue, v_umap) =>
    let v_next_node := t20 in
    let v_visited := add_to_visited nx ny v_d v_visited v_aut in
    let v_g := nx_add_edge v_g v_node v_next_node in
    Some (v_umap, v_g, v_queue, v_visited)))))))).

(* one turn of `while queue:` *)
Definition c_while_body (v_aut : automaton) (v_keys v_varnames : list var)
    (v_unprime_vars : list (var * var)) (v_primed_vars : list (string * list var))
    (st : work_state) : option work_state :=
  let '(v_umap, v_g, v_queue, v_visited) := st in
  m_bind (py_pop v_queue) (fun '(v_queue, v_node) =>
  m_bind (nx_node_attrs v_g v_node) (fun v_values =>
  m_assert (set_eqb var_eqb (map fst v_values) v_varnames) (
  m_bind (dict_get String.eqb "env"%string (a_action v_aut)) (fun t11 =>
  let v_u := blet nx ny v_values t11 in
  m_bind (dict_get String.eqb "env"%string v_primed_vars) (fun t12 =>
  let v_env_iter := pick_iter v_u t12 in
  m_bind (dict_get String.eqb "sys"%string (a_action v_aut)) (fun v_u =>
  m_assert (negb (bdd_eqb v_u (bfalse nx ny))) (
  let v_sys := blet nx ny v_values v_u in
  m_assert (negb (bdd_eqb v_sys (bfalse nx ny))) (
  m_bind (m_for (c_env_body v_aut v_keys v_unprime_vars v_node v_sys)
            v_env_iter (v_umap, v_g, v_queue, v_visited))
    (fun '(v_umap, v_g, v_queue, v_visited) =>
  Some (v_umap, v_g, v_queue, v_visited)))))))))).

Definition c_while_cond (st : work_state) : bool :=
  let '(v_umap, v_g, v_queue, v_visited) := st in negb (is_nil v_queue).

Definition c_action_to_steps_ (fuel : nat) (v_aut : automaton) (v_qinit : string)
    : option nxgraph :=
  m_bind (dict_get String.eqb "sys"%string (a_action v_aut)) (fun t1 =>
  m_assert (negb (bdd_eqb t1 (bfalse nx ny))) (
  m_bind (c_primed_vars_per_quantifier (a_varlist v_aut)) (fun v_primed_vars =>
  m_bind (dict_get String.eqb "env"%string (a_varlist v_aut)) (fun t3 =>
  m_bind (dict_get String.eqb "sys"%string (a_varlist v_aut)) (fun t4 =>
  let v_vrs := set_union var_eqb t3 t4 in
  m_bind (m_map (fun v_var => m_bind (stx_prime v_var) (fun t5 => Some (t5, v_var))) v_vrs) (fun t6 =>
  let v_unprime_vars := dict_of_items var_eqb t6 in
  let v_keys := v_vrs in
  m_bind (c_init_search nx_empty v_aut [] v_keys v_qinit) (fun '(t7, v_g, v_umap) =>
  let '(v_queue, v_visited) := t7 in
  let v_g := nx_set_initial v_g v_queue in
  let v_varnames := v_keys in
  m_bind (m_while fuel c_while_cond
            (c_while_body v_aut v_keys v_varnames v_unprime_vars v_primed_vars)
            (v_umap, v_g, v_queue, v_visited))
    (fun '(v_umap, v_g, v_queue, v_visited) =>
  Some v_g)))))))).

Definition c_action_to_steps (fuel : nat) (v_aut : automaton)
    (v_env v_sys v_qinit : string) : option nxgraph :=
  let v__aut := set_moore v_aut (a_moore v_aut) in
  m_bind (dict_get String.eqb v_env (a_varlist v_aut)) (fun t1 =>
  m_bind (dict_get String.eqb v_sys (a_varlist v_aut)) (fun t2 =>
  let v__aut := set_varlist v__aut (dict_update String.eqb (a_varlist v__aut) [("env"%string, t1); ("sys"%string, t2)]) in
  m_bind (dict_get String.eqb v_env (a_init v_aut)) (fun t3 =>
  m_bind (dict_get String.eqb v_sys (a_init v_aut)) (fun t4 =>
  let v__aut := set_init v__aut (dict_update String.eqb (a_init v__aut) [("env"%string, t3); ("sys"%string, t4)]) in
  m_bind (dict_get String.eqb v_env (a_action v_aut)) (fun t5 =>
  m_bind (dict_get String.eqb v_sys (a_action v_aut)) (fun t6 =>
  let v__aut := set_action v__aut (dict_update String.eqb (a_action v__aut) [("env"%string, t5); ("sys"%string, t6)]) in
  m_bind (prime_varlists v__aut) (fun v__aut =>
  m_bind (c_action_to_steps_ fuel v__aut v_qinit) (fun t8 =>
  Some t8)))))))).

End Code.
