"""Input generators and tree conversion for C16 (tie H).

Sentences are generated from the operator table extracted from the source
(`syntax_tables.extract`), as the yield of a random *surface* tree: atoms,
prefix/postfix/infix operators, explicit parentheses and the documented
special forms.  No parentheses are added except the explicit ones, so the
parser under test (and its model) decide the grouping.  A sentence is a list
of abstract tokens `(toktype, spelling-class)`; rendering picks a spelling
for each token and a separator (blank, newline, comment, nothing) between
tokens.
"""
from vlib.syntax_tables import qs

NAMES = ['a', 'b', 'c', 'x', 'y', 'p', 'q', 'foo', 'x1', '_z', 'Xa', 'Uu',
         'nexty', 'true1', 'iteX', 'IFF', 'V1', 'in_', 'SS']
NUMS = ['0', '1', '2', '3', '10', '42', '007']


# ----------------------------------------------------------------- tables
class Ops:
    """Operator sets of the grammar, from the extracted tables."""

    def __init__(self, tables):
        L, P = tables['lexer'], tables['parser']
        self.tables = tables
        # toktype -> list of spellings (what one can write in a formula)
        self.spell = {}
        self.norm = {}
        for r in L['rules']:
            if r['kind'] == 'RLit' and r['emit']:
                self.spell.setdefault(r['type'], []).extend(r['alts'])
                self.norm[r['type']] = r['norm']
        for word, ty in L['reserved'].items():
            self.spell.setdefault(ty, []).append(word)
        for word, val in L['values'].items():
            ty = L['reserved'].get(val)
            if ty:
                self.spell.setdefault(ty, []).append(word)
        self.binary, self.prefix, self.postfix = [], [], []
        for p in P['productions']:
            if p['lhs'] != 'expr':
                continue
            rhs = p['rhs']
            if (len(rhs) == 3 and rhs[0] == 'expr' and rhs[2] == 'expr'
                    and p['node'] in ('Binary', 'Comparator', 'Arithmetic')):
                self.binary.append(rhs[1])
            elif (len(rhs) == 2 and rhs[1] == 'expr' and rhs[0] != 'expr'
                  and p['node'] == 'Unary'):
                self.prefix.append(rhs[0])
            elif (len(rhs) == 2 and rhs[0] == 'expr' and rhs[1] != 'expr'
                  and p['node'] == 'Unary'):
                self.postfix.append(rhs[1])
        rhs_all = {tuple(p['rhs']) for p in P['productions']}
        # documented special forms present in the grammar
        self.has = dict(
            ite=('ITE', 'LPAREN', 'expr', 'COMMA', 'expr', 'COMMA', 'expr',
                 'RPAREN') in rhs_all,
            ifte=('IF', 'expr', 'THEN', 'expr', 'ELSE', 'expr') in rhs_all,
            quant=('FORALL', 'list', 'COLON', 'expr') in rhs_all
            and ('EXISTS', 'list', 'COLON', 'expr') in rhs_all,
            let=('LET', 'defs', 'IN_EXPR', 'expr') in rhs_all,
            rng=('number', 'DOTS', 'number') in rhs_all
            and 'IN' in self.binary,
            string=('DQUOTES', 'NAME', 'DQUOTES') in rhs_all,
            paren=('LPAREN', 'expr', 'RPAREN') in rhs_all,
            neg=('MINUS', 'NUMBER') in rhs_all,
            trunc=('expr', 'TRUNCATE', 'number') in rhs_all)
        # binary operators usable between arbitrary operands
        self.infix = [b for b in self.binary if b != 'IN']
        self.level = {}
        for i, (a, names) in enumerate(P['precedence']):
            for n in names:
                self.level[n] = (i + 1, a)
        self.reserved_words = set(L['reserved']) | set(L['values'])


# ------------------------------------------------------------ surface trees
# a sentence is a list of items; item = ('T', toktype) operator/keyword token
# with free choice of spelling, or ('L', text) a literal lexeme (name, number)
def T(ty):
    return ('T', ty)


def gen_atom(rng, ops, allow_neg=True):
    r = rng.random()
    if r < 0.6:
        return [('L', rng.choice(NAMES))]
    if r < 0.8:
        if allow_neg and ops.has['neg'] and rng.random() < 0.3:
            return [T('MINUS'), ('L', rng.choice(NUMS))]
        return [('L', rng.choice(NUMS))]
    if r < 0.93:
        return [T(rng.choice(['TRUE', 'FALSE']))]
    if ops.has['string']:
        return [T('DQUOTES'), ('L', rng.choice(NAMES[:10])), T('DQUOTES')]
    return [('L', rng.choice(NAMES))]


def gen_number(rng, ops):
    if ops.has['neg'] and rng.random() < 0.3:
        return [T('MINUS'), ('L', rng.choice(NUMS))]
    return [('L', rng.choice(NUMS))]


def gen_sentence(rng, ops, budget, special=0.25):
    """Random sentence of about `budget` tokens (yield of a surface tree)."""
    if budget <= 1:
        return gen_atom(rng, ops)
    r = rng.random()
    if r < 0.50:
        k = rng.randint(1, max(1, budget - 2))
        op = rng.choice(ops.infix)
        return (gen_sentence(rng, ops, k, special) + [T(op)]
                + gen_sentence(rng, ops, budget - 1 - k, special))
    if r < 0.65:
        return [T(rng.choice(ops.prefix))] + gen_sentence(
            rng, ops, budget - 1, special)
    if r < 0.72 and ops.postfix:
        return gen_sentence(rng, ops, budget - 1, special) + [
            T(rng.choice(ops.postfix))]
    if r < 0.84 and ops.has['paren'] and budget >= 3:
        return [T('LPAREN')] + gen_sentence(rng, ops, budget - 2, special) \
            + [T('RPAREN')]
    if rng.random() < special * 4 and budget >= 4:
        return gen_special(rng, ops, budget, special)
    return gen_atom(rng, ops)


def gen_special(rng, ops, budget, special):
    forms = [f for f in ('ite', 'ifte', 'quant', 'let', 'rng', 'trunc')
             if ops.has[f]]
    if not forms:
        return gen_atom(rng, ops)
    f = rng.choice(forms)
    b = max(1, (budget - 4) // 3)
    g = lambda n: gen_sentence(rng, ops, n, special)
    if f == 'ite':
        return ([T('ITE'), T('LPAREN')] + g(b) + [T('COMMA')] + g(b)
                + [T('COMMA')] + g(b) + [T('RPAREN')])
    if f == 'ifte':
        return ([T('IF')] + g(b) + [T('THEN')] + g(b) + [T('ELSE')] + g(b))
    if f == 'quant':
        vs = [('L', rng.choice(NAMES[:6]))]
        if rng.random() < 0.3 and ops.postfix:
            vs.append(T(ops.postfix[0]))
        if rng.random() < 0.4:
            vs += [T('COMMA'), ('L', rng.choice(NAMES[:6]))]
        return ([T(rng.choice(['FORALL', 'EXISTS']))] + vs + [T('COLON')]
                + g(max(1, budget - 3 - len(vs))))
    if f == 'let':
        out = [T('LET'), ('L', rng.choice(['f', 'g', 'h'])), T('DEF')] + g(b)
        if rng.random() < 0.3:
            out += [('L', rng.choice(['f2', 'g2'])), T('DEF')] + g(b)
        return out + [T('IN_EXPR')] + g(b)
    if f == 'trunc':
        # expr <<>> number, unparenthesised: what it captures to its left is
        # decided by the (absent) precedence of TRUNCATE
        return (gen_sentence(rng, ops, max(1, budget - 2), special)
                + [T('TRUNCATE')] + gen_number(rng, ops))
    # expr \in num .. num
    return (gen_sentence(rng, ops, max(1, budget - 4), 0.0) + [T('IN')]
            + gen_number(rng, ops) + [T('DOTS')] + gen_number(rng, ops))


def systematic(ops):
    """Every ordered pair of infix operators, every prefix/infix and
    postfix/infix pair, every pair of prefix operators, once each."""
    a, b, c = ('L', 'a'), ('L', 'b'), ('L', 'c')
    out = []
    for o1 in ops.binary:
        for o2 in ops.binary:
            if 'IN' in (o1, o2):
                continue
            out.append(([a, T(o1), b, T(o2), c], ('bin-bin', o1, o2)))
    if ops.has['rng']:
        one, three = ('L', '1'), ('L', '3')
        for o in ops.infix:
            out.append(([a, T(o), b, T('IN'), one, T('DOTS'), three],
                        ('bin-in', o)))
            out.append(([a, T('IN'), one, T('DOTS'), three, T(o), b],
                        ('in-bin', o)))
        for p in ops.prefix:
            out.append(([T(p), a, T('IN'), one, T('DOTS'), three],
                        ('pre-in', p)))
    if ops.has['trunc']:
        three = ('L', '3')
        for o in ops.infix:
            out.append(([a, T(o), b, T('TRUNCATE'), three], ('bin-trunc', o)))
            out.append(([a, T('TRUNCATE'), three, T(o), b], ('trunc-bin', o)))
        for p in ops.prefix:
            out.append(([T(p), a, T('TRUNCATE'), three], ('pre-trunc', p)))
        for q in ops.postfix:
            out.append(([a, T(q), T('TRUNCATE'), three], ('post-trunc', q)))
    for p in ops.prefix:
        for o in ops.infix:
            out.append(([T(p), a, T(o), b], ('pre-bin', p, o)))
            out.append(([a, T(o), T(p), b], ('bin-pre', o, p)))
            out.append(([a, T(o), T(p), b, T(o), c], ('bin-pre-bin', o, p)))
        for p2 in ops.prefix:
            out.append(([T(p), T(p2), a], ('pre-pre', p, p2)))
        for q in ops.postfix:
            out.append(([T(p), a, T(q)], ('pre-post', p, q)))
    for q in ops.postfix:
        for o in ops.infix:
            out.append(([a, T(o), b, T(q)], ('bin-post', o, q)))
            out.append(([a, T(q), T(o), b], ('post-bin', q, o)))
    return out


# ------------------------------------------------------------------ render
COMMENTS = [' (* c *) ', ' \\* line comment\n', '(* multi\n line *)',
            ' (**) ', '\n(* a * b ) *)\n']
BLANKS = [' ', ' ', ' ', ' ', '  ', '\n', '\t', ' \n ']


def spellings(ops, item):
    if item[0] == 'L':
        return [item[1]]
    return ops.spell[item[1]]


def needs_gap(left, right):
    """Must two adjacent lexemes be separated to stay the same two tokens?
    Decided conservatively: only a few obviously safe adjacencies (a name,
    number, `)` or `'` followed by `)`, `,` or `'`; `(` or `,` followed by
    a name, number or `(`) are written without a blank."""
    if not left or not right:
        return True
    la, rb = left[-1], right[0]
    word = lambda ch: ch.isalnum() or ch == '_'
    if (word(la) or la in ")'") and right in (')', ',', "'"):
        return False
    if left in ('(', ',') and (word(rb) or right == '('):
        return False
    return True


def render(rng, ops, sent, mode='plain'):
    """Sentence -> string.  mode: 'plain' first spelling, single blanks;
    'spell' random spellings; 'ws' random blanks/comments as separators;
    'tight' drops separators where two lexemes cannot merge; 'glued' drops
    them at random anywhere (the result may lex differently or not at
    all - used only to compare the lexer model with the lexer)."""
    parts = []
    for it in sent:
        sp = spellings(ops, it)
        parts.append(sp[0] if mode in ('plain', 'ws', 'tight', 'glued')
                     else rng.choice(sp))
    out = parts[0]
    for prev, cur in zip(parts, parts[1:]):
        if mode == 'ws':
            sep = rng.choice(BLANKS + COMMENTS[:2]) if rng.random() < 0.8 \
                else rng.choice(COMMENTS)
            # a line comment needs the newline it ends with; a comment
            # opener must not merge with the previous lexeme
            if not sep[0].isspace():
                sep = ' ' + sep
        elif mode == 'tight' and not needs_gap(prev, cur) \
                and rng.random() < 0.7:
            sep = ''
        elif mode == 'glued' and rng.random() < 0.5:
            sep = ''
        else:
            sep = ' '
        out += sep + cur
    return out


# ----------------------------------------------------- trees <-> literals
KIND = {'var': 'KVar', 'num': 'KNum', 'bool': 'KBool', 'str': 'KStr',
        'opname': 'KOpname'}
BCLASS = {'Binary': 'CBinary', 'Comparator': 'CComparator',
          'Arithmetic': 'CArithmetic'}


def tup(t):
    """Real syntax tree -> nested tuples (structure, classes, strings)."""
    if isinstance(t, list):
        return ('Lst',) + tuple(tup(x) for x in t)
    if isinstance(t, tuple):        # pairs of `\S` (outside the documented grammar)
        return ('Opr', '<tuple>') + tuple(tup(x) for x in t)
    cls = type(t).__name__
    if hasattr(t, 'operator'):
        kids = tuple(tup(x) for x in t.operands)
        if cls == 'Unary' and len(kids) == 1:
            return ('Un', t.operator, kids[0])
        if cls in BCLASS and len(kids) == 2:
            return ('Bin', cls, t.operator, kids[0], kids[1])
        if cls == 'Operator':
            return ('Opr', t.operator) + kids
        return ('?', cls, t.operator) + kids
    return ('Term', t.type, t.value)


def tree_lit(u):
    k = u[0]
    if k == 'Term':
        return f'(Term {KIND[u[1]]} {qs(u[2])})'
    if k == 'Un':
        return f'(Un {qs(u[1])} {tree_lit(u[2])})'
    if k == 'Bin':
        return (f'(Bin {BCLASS[u[1]]} {qs(u[2])} {tree_lit(u[3])} '
                f'{tree_lit(u[4])})')
    if k == 'Opr':
        return (f'(Opr {qs(u[1])} ['
                + '; '.join(tree_lit(x) for x in u[2:]) + '])')
    if k == 'Lst':
        return '(Lst [' + '; '.join(tree_lit(x) for x in u[1:]) + '])'
    raise ValueError(u)


def opt_tree_lit(u):
    return 'None' if u is None else f'(Some {tree_lit(u)})'


SYN = {'#': '!=', '/=': '!=', '=<': '<='}


def canon(u):
    """Tree up to the synonym classes the lexer does not normalise and the
    spelling of Boolean constants."""
    k = u[0]
    if k == 'Term':
        if u[1] == 'bool':
            return (k, u[1], u[2].upper())
        return u
    if k == 'Un':
        return (k, u[1], canon(u[2]))
    if k == 'Bin':
        return (k, u[1], SYN.get(u[2], u[2]), canon(u[3]), canon(u[4]))
    return u[:2] + tuple(canon(x) for x in u[2:]) if k == 'Opr' \
        else (k,) + tuple(canon(x) for x in u[1:])


# ------------------------------------------------------------- GR(1) shapes
def gen_state_pred(rng, ops, budget, primes=False):
    """Sentence without temporal operators (and without primes unless
    asked); parenthesised so it can be a conjunct."""
    if budget <= 1:
        at = [('L', rng.choice(NAMES[:8]))]
        if primes and rng.random() < 0.4:
            at.append(T('PRIME'))
        return at
    r = rng.random()
    safe_bin = [o for o in ('OR', 'IMPLIES', 'EQUIV', 'EQUALS', 'LT', 'PLUS',
                            'XOR', 'AND') if o in ops.binary]
    if r < 0.55:
        k = rng.randint(1, budget - 1)
        return ([T('LPAREN')] + gen_state_pred(rng, ops, k, primes)
                + [T(rng.choice(safe_bin))]
                + gen_state_pred(rng, ops, budget - k, primes)
                + [T('RPAREN')])
    if r < 0.75 and 'NOT' in ops.prefix:
        return [T('NOT')] + gen_state_pred(rng, ops, budget - 1, primes)
    if r < 0.85 and primes and 'NEXT' in ops.prefix:
        return [T('LPAREN'), T('NEXT')] + gen_state_pred(
            rng, ops, budget - 1, False) + [T('RPAREN')]
    return gen_state_pred(rng, ops, 1, primes)


def nest(rng, parts, op):
    """Join sentences with `op` in a random parenthesisation."""
    parts = list(parts)
    while len(parts) > 1:
        i = rng.randrange(len(parts) - 1)
        joined = parts[i] + [T(op)] + parts[i + 1]
        if rng.random() < 0.5:
            joined = [T('LPAREN')] + joined + [T('RPAREN')]
        parts[i:i + 2] = [joined]
    return parts[0]


def gen_gr1(rng, ops, break_it=False):
    """A GR(1)-shaped conjunction (or a deliberately broken one)."""
    P = lambda s: [T('LPAREN')] + s + [T('RPAREN')]
    sp = lambda: gen_state_pred(rng, ops, rng.randint(1, 4))
    conj = []
    for _ in range(rng.randint(0, 2)):
        conj.append(('init', P(sp())))
    for _ in range(rng.randint(0, 2)):
        conj.append(('safe', [T('ALWAYS')] + P(gen_state_pred(
            rng, ops, rng.randint(1, 4), primes=True))))
    for _ in range(rng.randint(0, 2)):
        conj.append(('rec', [T('ALWAYS'), T('EVENTUALLY')] + P(sp())))
    live = None
    r = rng.random()
    if r < 0.3:
        live = [T('EVENTUALLY'), T('ALWAYS')] + P(sp())
    elif r < 0.7:
        dis = [[T('EVENTUALLY'), T('ALWAYS')] + P(sp())
               for _ in range(rng.randint(1, 2))]
        recs = [[T('ALWAYS'), T('EVENTUALLY')] + P(sp())
                for _ in range(rng.randint(1, 3))]
        grp = nest(rng, recs, 'AND')
        if len(recs) > 1:
            grp = P(grp)
        dis.insert(rng.randrange(len(dis) + 1), grp)
        live = P(nest(rng, dis, 'OR'))
    rng.shuffle(conj)
    if live is not None:
        # the splitter accepts one generalized Streett pair, and only when
        # no persistence has been collected before it: mostly put it last
        # (a recurrence conjunct after it is rejected by the code)
        if rng.random() < 0.75:
            conj.append(('live', live))
        else:
            conj.insert(rng.randrange(len(conj) + 1), ('live', live))
    if not conj:
        conj.append(('init', P(sp())))
    if break_it:
        kind = rng.choice(['dia', 'nested', 'initX', 'two_pers', 'disj',
                           'dia_box_dia', 'box_or', 'until',
                           'pers_prime', 'pers_next', 'rec_prime', 'rec_next',
                           'pers_prime', 'pers_next'])
        s = sp()
        if kind.startswith('pers_'):
            # the only persistence goal: so that nothing else rejects it
            conj = [c for c in conj if c[0] != 'live']
        bad = {
            'dia': [T('EVENTUALLY')] + P(s),
            'nested': [T('ALWAYS')] + P([T('ALWAYS')] + P(s)),
            'initX': P(s + [T('PRIME')]),
            'two_pers': [T('EVENTUALLY'), T('ALWAYS')] + P(s),
            'disj': P(P(s) + [T('OR'), T('ALWAYS'), T('EVENTUALLY')] + P(sp())),
            'dia_box_dia': [T('EVENTUALLY'), T('ALWAYS'), T('EVENTUALLY')]
            + P(s),
            'box_or': P([T('ALWAYS')] + P(s) + [T('OR'), T('ALWAYS')]
                        + P(sp())),
            'until': P(P(s) + [T('UNTIL'), T('ALWAYS')] + P(sp())),
            # a next-state value inside a liveness goal
            'pers_prime': [T('EVENTUALLY'), T('ALWAYS')]
            + P(P(s + [T('PRIME')]) + [T('AND')] + P(sp())),
            'pers_next': [T('EVENTUALLY'), T('ALWAYS')]
            + P([T('NEXT')] + P(s)),
            'rec_prime': [T('ALWAYS'), T('EVENTUALLY')]
            + P(P(s + [T('PRIME')]) + [T('OR')] + P(sp())),
            'rec_next': [T('ALWAYS'), T('EVENTUALLY')]
            + P([T('NEXT')] + P(s)),
        }[kind]
        if kind == 'two_pers':
            conj.append(('bad', [T('EVENTUALLY'), T('ALWAYS')] + P(sp())))
        conj.insert(rng.randrange(len(conj) + 1), ('bad', bad))
    return nest(rng, [c[1] for c in conj], 'AND'), [c[0] for c in conj]
