"""Regenerate gen/ from $OMEGA_REPO and compile a GenProofs/Properties file
with everything it depends on (developer helper).
usage: gp.py [--l4] <relpath>...   (--l4: rebuild theories/L4 first)"""
import glob
import sys
sys.path.insert(0, '/verif/tools')
from vlib import core, gen_games
ctx = core.Ctx('DEV', 'quick', 0)
args = sys.argv[1:]
try:
    with ctx.coq_lock():
        if args and args[0] == '--l4':
            args = args[1:]
            ctx.build_theories([f[len(core.COQ) + 1:] + 'o' for f in sorted(
                glob.glob(core.COQ + '/theories/L4/*.v')
                + glob.glob(core.COQ + '/theories/L4Enum/*.v'))])
        gen_games.ensure_transducers(ctx)
        for f in args:
            ctx.prove_with_deps(f)
    print('ok', len(ctx.obligations), 'obligations')
except core.Broken as b:
    print('BROKEN', b)
    sys.exit(1)
