import os
import sys
from vlib import core
rc = core.main(sys.argv[1:])
sys.stdout.flush()
sys.stderr.flush()
# skip interpreter teardown: dd.autoref prints reference-count diagnostics
# from BDD.__del__ when Function objects are still alive at exit
os._exit(rc or 0)
