(* Proofs about `steps.AutomatonStepper` (model: Stepper.v). *)
From Coq Require Import List Bool String Ascii ZArith Lia.
From Omega Require Import L4Steps.Mangle L4Steps.MangleProofs L4Steps.Stepper.
Import ListNotations.
Open Scope string_scope.

(* ------------------------------------------------------------ vocabulary *)
Definition agree_on (xs : list string) (v w : val) : Prop :=
  forall x, In x xs -> v x = w x.

(* every declared identifier has a value from its declared range *)
Definition in_dom (ds : decls) (v : val) : Prop :=
  forall x dom, In (x, dom) ds -> In (v x) dom.

(* the predicate reads only declared identifiers *)
Definition reads_only (ds : decls) (u : pred) : Prop :=
  forall v w, agree_on (names ds) v w -> u v = u w.

Definition wf_decls (ds : decls) : Prop :=
  NoDup (names ds) /\ forall x dom, In (x, dom) ds -> dom <> [].

(* every entry of a state dictionary is a declared identifier with a value
   of its range *)
Definition state_ok (ds : decls) (state : dict) : Prop :=
  forall k z, In (k, z) state -> exists dom, In (k, dom) ds /\ In z dom.

(* ------------------------------------------------------------- utilities *)
Lemma In_names : forall (ds : decls) x dom, In (x, dom) ds -> In x (names ds).
Proof. intros. unfold names. change x with (fst (x, dom)). apply in_map, H. Qed.

Lemma names_In : forall (ds : decls) x, In x (names ds) -> exists dom, In (x, dom) ds.
Proof.
  intros ds x H. unfold names in H. apply in_map_iff in H.
  destruct H as [[y dom] [E H]]. simpl in E. subst. eauto.
Qed.

Lemma decl_unique : forall (ds : decls) x d1 d2,
  NoDup (names ds) -> In (x, d1) ds -> In (x, d2) ds -> d1 = d2.
Proof.
  induction ds as [|[y d] ds IH]; simpl; intros x d1 d2 ND H1 H2; [contradiction|].
  inversion ND as [|? ? Hn ND']; subst.
  destruct H1 as [H1|H1]; destruct H2 as [H2|H2].
  - congruence.
  - injection H1 as -> ->. exfalso. apply Hn. eapply In_names, H2.
  - injection H2 as -> ->. exfalso. apply Hn. eapply In_names, H1.
  - eapply IH; eauto.
Qed.

Lemma NoDup_names_filter : forall (f : string * list Z -> bool) (ds : decls),
  NoDup (names ds) -> NoDup (names (filter f ds)).
Proof.
  induction ds as [|[x d] ds IH]; simpl; intros ND; [constructor|].
  inversion ND as [|? ? Hn ND']; subst.
  destruct (f (x, d)); simpl; [|apply IH, ND'].
  constructor; [|apply IH, ND'].
  intros H. apply Hn. apply names_In in H. destruct H as [dom H].
  apply filter_In in H. eapply In_names, (proj1 H).
Qed.

Lemma wf_filter : forall f ds, wf_decls ds -> wf_decls (filter f ds).
Proof.
  intros f ds [ND NE]. split.
  - apply NoDup_names_filter, ND.
  - intros x dom H. apply filter_In in H. eapply NE, (proj1 H).
Qed.

Lemma in_dom_filter : forall f ds v, in_dom ds v -> in_dom (filter f ds) v.
Proof. intros f ds v H x dom Hx. apply filter_In in Hx. apply H, (proj1 Hx). Qed.

Lemma dflt_in_dom : forall ds, wf_decls ds -> in_dom ds (dflt ds).
Proof.
  induction ds as [|[y d] ds IH]; intros [ND NE] x dom H; simpl in *; [contradiction|].
  inversion ND as [|? ? Hn ND']; subst.
  destruct H as [H|H].
  - injection H as -> ->. rewrite String.eqb_refl.
    assert (dom <> []) by (eapply NE; left; reflexivity).
    destruct dom; [congruence|left; reflexivity].
  - destruct (String.eqb x y) eqn:E.
    + apply String.eqb_eq in E. subst. exfalso. apply Hn. eapply In_names, H.
    + apply IH; [|exact H]. split; [exact ND'|].
      intros x0 d0 H0. eapply NE. right. exact H0.
Qed.

(* ---------------------------------------------------------- enumeration *)
Definition tab (ds : decls) (v : val) : dict :=
  map (fun xd => (fst xd, v (fst xd))) ds.

Lemma keys_tab : forall ds v, keys (tab ds v) = names ds.
Proof. intros. unfold keys, tab, names. rewrite map_map. reflexivity. Qed.

Lemma tab_in_dicts : forall ds v, in_dom ds v -> In (tab ds v) (dicts ds).
Proof.
  induction ds as [|[x d] ds IH]; intros v H; simpl.
  - left. reflexivity.
  - apply in_flat_map. exists (v x). split.
    + apply H. left. reflexivity.
    + apply in_map. apply IH. intros y dom Hy. apply H. right. exact Hy.
Qed.

Lemma lookup_tab : forall ds v x,
  lookup x (tab ds v) = if mem x (names ds) then Some (v x) else None.
Proof.
  induction ds as [|[y d] ds IH]; intros v x; simpl; [reflexivity|].
  destruct (String.eqb x y) eqn:E; simpl.
  - apply String.eqb_eq in E. subst. reflexivity.
  - apply IH.
Qed.

Lemma dicts_keys : forall ds d, In d (dicts ds) -> keys d = names ds.
Proof.
  induction ds as [|[x dom] ds IH]; simpl; intros d H.
  - destruct H as [<-|[]]. reflexivity.
  - apply in_flat_map in H. destruct H as [z [Hz H]].
    apply in_map_iff in H. destruct H as [d' [<- H]]. simpl. f_equal. apply IH, H.
Qed.

Lemma dicts_vals : forall ds d x z,
  In d (dicts ds) -> In (x, z) d -> exists dom, In (x, dom) ds /\ In z dom.
Proof.
  induction ds as [|[y dom] ds IH]; simpl; intros d x z H Hx.
  - destruct H as [<-|[]]. contradiction.
  - apply in_flat_map in H. destruct H as [a [Ha H]].
    apply in_map_iff in H. destruct H as [d' [<- H]].
    destruct Hx as [Hx|Hx].
    + injection Hx as <- <-. exists dom. split; [left; reflexivity|exact Ha].
    + destruct (IH _ _ _ H Hx) as [dom' [A B]]. exists dom'. split; [right; exact A|exact B].
Qed.

Lemma override_in_dom : forall ds v d,
  NoDup (names ds) -> in_dom ds v ->
  (forall x z, In (x, z) d -> exists dom, In (x, dom) ds /\ In z dom) ->
  in_dom ds (override v d).
Proof.
  intros ds v d ND Hv Hd x dom Hx. unfold override.
  destruct (lookup x d) as [z|] eqn:L.
  - apply lookup_In in L. destruct (Hd _ _ L) as [dom' [A B]].
    rewrite (decl_unique ds x dom dom' ND Hx A). exact B.
  - apply Hv, Hx.
Qed.

(* --------------------------------------------------------------- support *)
Lemma In_support : forall ds u x dom,
  In (x, dom) ds -> depends ds u x dom = true -> In x (support ds u).
Proof.
  intros ds u x dom H D. unfold support.
  eapply In_names. apply filter_In. split; [exact H|exact D].
Qed.

Lemma support_names : forall ds u x, In x (support ds u) -> In x (names ds).
Proof.
  intros ds u x H. unfold support in H. apply names_In in H.
  destruct H as [dom H]. apply filter_In in H. eapply In_names, (proj1 H).
Qed.

Lemma upd_agree : forall xs v w x a,
  agree_on xs v w -> agree_on xs (upd v x a) (upd w x a).
Proof.
  intros xs v w x a H y Hy. unfold upd. destruct (String.eqb y x); [reflexivity|apply H, Hy].
Qed.

Lemma override_tab_agree : forall ds base m,
  agree_on (names ds) (override base (tab ds m)) m.
Proof.
  intros ds base m x Hx. unfold override. rewrite lookup_tab.
  apply mem_In in Hx. rewrite Hx. reflexivity.
Qed.

(* a variable outside the support can be changed without changing the value *)
Lemma nodep_upd : forall ds u x dom,
  reads_only ds u -> depends ds u x dom = false ->
  forall m a, in_dom ds m -> In a dom -> u (upd m x a) = u m.
Proof.
  intros ds u x dom RO D m a Hm Ha.
  unfold depends in D.
  assert (T := tab_in_dicts ds m Hm).
  set (v0 := override (dflt ds) (tab ds m)).
  assert (AG : agree_on (names ds) v0 m) by apply override_tab_agree.
  assert (X : xorb (u (upd v0 x a)) (u v0) = false).
  { destruct (xorb (u (upd v0 x a)) (u v0)) eqn:E; [|reflexivity].
    exfalso. rewrite <- not_true_iff_false in D. apply D.
    apply existsb_exists. exists (tab ds m). split; [exact T|].
    apply existsb_exists. exists a. split; [exact Ha|exact E]. }
  rewrite <- (RO v0 m AG).
  rewrite <- (RO (upd v0 x a) (upd m x a)) by (apply upd_agree, AG).
  destruct (u (upd v0 x a)), (u v0); simpl in X; congruence.
Qed.

Definition mix (l : decls) (v w : val) : val :=
  fun y => if mem y (names l) then w y else v y.

Lemma mix_in_dom : forall ds l v w, in_dom ds v -> in_dom ds w -> in_dom ds (mix l v w).
Proof.
  intros ds l v w Hv Hw x dom H. unfold mix.
  destruct (mem x (names l)); [apply Hw|apply Hv]; exact H.
Qed.

Lemma everywhere_agree : forall ds u v w, reads_only ds u -> (forall y, v y = w y) -> u v = u w.
Proof. intros ds u v w RO H. apply RO. intros y _. apply H. Qed.

Theorem support_sound : forall ds u v w,
  reads_only ds u -> in_dom ds v -> in_dom ds w ->
  agree_on (support ds u) v w -> u v = u w.
Proof.
  intros ds u v w RO Hv Hw AG.
  assert (STEP : forall l, incl l ds -> u (mix l v w) = u v).
  { induction l as [|[x dom] l IH]; intros INC.
    - apply (everywhere_agree ds); [exact RO|]. intros y. reflexivity.
    - assert (INC' : incl l ds) by (intros e He; apply INC; right; exact He).
      assert (Hx : In (x, dom) ds) by (apply INC; left; reflexivity).
      rewrite <- (IH INC').
      assert (E : forall y, mix ((x, dom) :: l) v w y = upd (mix l v w) x (w x) y).
      { intros y. unfold mix, upd. simpl.
        destruct (String.eqb y x) eqn:E; simpl.
        - apply String.eqb_eq in E. subst. reflexivity.
        - reflexivity. }
      rewrite (everywhere_agree ds u _ _ RO E).
      destruct (depends ds u x dom) eqn:D.
      + assert (S : In x (support ds u)) by (eapply In_support; eauto).
        apply (everywhere_agree ds); [exact RO|].
        intros y. unfold upd. destruct (String.eqb y x) eqn:E2; [|reflexivity].
        apply String.eqb_eq in E2. subst y. unfold mix.
        destruct (mem x (names l)); [reflexivity|]. symmetry. apply AG, S.
      + apply (nodep_upd ds u x dom RO D).
        * apply mix_in_dom; assumption.
        * apply Hw, Hx. }
  rewrite <- (STEP ds (incl_refl ds)).
  apply RO. intros y Hy. unfold mix. apply mem_In in Hy. rewrite Hy. reflexivity.
Qed.

(* ------------------------------------------------------------- priming *)
Lemma is_primed_drop_last : forall x, is_primed x = true -> x = drop_last x ++ "'".
Proof.
  induction x as [|c x IH]; simpl; [discriminate|].
  destruct x as [|c' x'].
  - intros H. apply Ascii.eqb_eq in H. subst. reflexivity.
  - intros H. simpl. f_equal. apply IH, H.
Qed.

Lemma unprime_prime : forall x s, unprime x = Some s -> x = prime s.
Proof.
  intros x s H. unfold unprime in H.
  destruct (is_primed x) eqn:P; [|discriminate].
  destruct (is_primed (drop_last x)); [discriminate|].
  injection H as <-. apply is_primed_drop_last, P.
Qed.

Lemma prime_inj : forall a b, prime a = prime b -> a = b.
Proof.
  unfold prime. induction a as [|c a IH]; destruct b as [|d b]; simpl; intros H.
  - reflexivity.
  - injection H as _ H. destruct b; discriminate.
  - injection H as _ H. destruct a; discriminate.
  - injection H as -> H. f_equal. apply IH, H.
Qed.

Lemma is_primed_prime : forall x, is_primed (prime x) = true.
Proof.
  unfold prime. induction x as [|c x IH]; simpl; [reflexivity|].
  destruct (x ++ "'") eqn:E; [destruct x; discriminate|exact IH].
Qed.

Lemma dset_lookup : forall s k z d,
  lookup s (dset k z d) = if String.eqb s k then Some z else lookup s d.
Proof.
  induction d as [|[k' v'] d IH]; simpl.
  - destruct (String.eqb s k); reflexivity.
  - destruct (String.eqb k k') eqn:E; simpl.
    + apply String.eqb_eq in E. subst k'. destruct (String.eqb s k); reflexivity.
    + destruct (String.eqb s k') eqn:E2.
      * apply String.eqb_eq in E2. subst k'.
        destruct (String.eqb s k) eqn:E3; [|reflexivity].
        apply String.eqb_eq in E3. subst. rewrite String.eqb_refl in E. discriminate.
      * exact IH.
Qed.

Lemma unprime_acc_keep : forall p acc r s,
  unprime_acc p acc = Ok r ->
  (forall x, In x (keys p) -> unprime x <> Some s) ->
  lookup s r = lookup s acc.
Proof.
  induction p as [|[k z] p IH]; simpl; intros acc r s H N.
  - injection H as <-. reflexivity.
  - destruct (unprime k) as [s0|] eqn:U; [|discriminate].
    rewrite (IH _ _ s H) by (intros x Hx; apply N; right; exact Hx).
    rewrite dset_lookup. destruct (String.eqb s s0) eqn:E; [|reflexivity].
    apply String.eqb_eq in E. subst s0. exfalso. apply (N k); [left; reflexivity|exact U].
Qed.

Lemma unprime_acc_lookup : forall p acc r x z,
  unprime_acc p acc = Ok r -> NoDup (keys p) -> lookup x p = Some z ->
  exists s, unprime x = Some s /\ lookup s r = Some z.
Proof.
  induction p as [|[k z0] p IH]; simpl; intros acc r x z H ND L; [discriminate|].
  inversion ND as [|? ? Hn ND']; subst.
  destruct (unprime k) as [s0|] eqn:U; [|discriminate].
  destruct (String.eqb x k) eqn:E.
  - apply String.eqb_eq in E. subst x. injection L as <-.
    exists s0. split; [exact U|].
    rewrite (unprime_acc_keep _ _ _ s0 H).
    + rewrite dset_lookup, String.eqb_refl. reflexivity.
    + intros x Hx U2. apply unprime_prime in U. apply unprime_prime in U2.
      subst. contradiction.
  - eapply IH; eauto.
Qed.

Lemma unprime_acc_total : forall p acc,
  (forall k, In k (keys p) -> unprime k <> None) ->
  exists r, unprime_acc p acc = Ok r.
Proof.
  induction p as [|[k z] p IH]; simpl; intros acc H; [eauto|].
  destruct (unprime k) eqn:U.
  - apply IH. intros k' Hk. apply H. right. exact Hk.
  - exfalso. apply (H k); [left; reflexivity|exact U].
Qed.

(* ------------------------------------------------------------- cofactor *)
Lemma free_decls_spec : forall ds state x dom,
  In (x, dom) (free_decls ds state) <-> In (x, dom) ds /\ ~ In x (keys state).
Proof.
  intros. unfold free_decls. rewrite filter_In. simpl.
  rewrite negb_true_iff, mem_false. reflexivity.
Qed.

Lemma override_state_agree : forall ds state v w,
  agree_on (names (free_decls ds state)) v w ->
  agree_on (names ds) (override v state) (override w state).
Proof.
  intros ds state v w AG x Hx. unfold override.
  destruct (lookup x state) eqn:L; [reflexivity|].
  apply AG. apply names_In in Hx. destruct Hx as [dom Hx].
  eapply In_names. apply free_decls_spec. split; [exact Hx|].
  apply lookup_None, L.
Qed.

Lemma let_reads_only : forall ds state u,
  reads_only ds u -> reads_only (free_decls ds state) (let_ state u).
Proof.
  intros ds state u RO v w AG. unfold let_. apply RO.
  apply override_state_agree, AG.
Qed.

Lemma state_ok_in_dom : forall ds state v,
  NoDup (names ds) -> in_dom ds v -> state_ok ds state ->
  in_dom ds (override v state).
Proof. intros. apply override_in_dom; assumption. Qed.

(* [in_dom] of the free identifiers is enough for the cofactor *)
Lemma in_dom_free_override : forall ds state v,
  NoDup (names ds) -> in_dom (free_decls ds state) v -> state_ok ds state ->
  in_dom ds (override v state).
Proof.
  intros ds state v ND Hv SO x dom Hx. unfold override.
  destruct (lookup x state) as [z|] eqn:L.
  - apply lookup_In in L. destruct (SO _ _ L) as [dom' [A B]].
    rewrite (decl_unique ds x dom dom' ND Hx A). exact B.
  - apply Hv. apply free_decls_spec. split; [exact Hx|]. apply lookup_None, L.
Qed.

Lemma restrict_In : forall ds xs x dom,
  In (x, dom) (restrict_decls ds xs) <-> In (x, dom) ds /\ In x xs.
Proof.
  intros. unfold restrict_decls. rewrite filter_In. simpl. rewrite mem_In. reflexivity.
Qed.

Lemma filter_nil : forall (A : Type) (f : A -> bool) l,
  (forall x, In x l -> f x = false) -> filter f l = [].
Proof.
  induction l as [|a l IH]; simpl; intros H; [reflexivity|].
  rewrite H by (left; reflexivity). apply IH. intros; apply H; right; assumption.
Qed.

(* =========================================================== the theorems *)
Section StepperFacts.
Variable pick : list dict -> option dict.
Hypothesis pick_in : forall l a, pick l = Some a -> In a l.
Hypothesis pick_none : forall l, pick l = None -> l = [].

Variable A : automaton.
Let ds := a_decls A.
Hypothesis WF : wf_decls ds.
(* primed identifiers are declared with exactly one quote *)
Hypothesis PR : forall x, In x (names ds) -> is_primed x = true -> unprime x <> None.

Lemma pick_nil : pick [] = None.
Proof. destruct (pick []) eqn:E; [|reflexivity]. apply pick_in in E. contradiction. Qed.

Section Step.
Hypothesis RO : reads_only ds (a_action A).
Variable state : dict.
Hypothesis SO : state_ok ds state.

Let u := let_ state (a_action A).
Let free := free_decls ds state.
Let vrs := restrict_decls ds (support free u ++ map prime (a_impl A))%list.

Lemma vrs_incl : forall x dom, In (x, dom) vrs -> In (x, dom) ds.
Proof. intros x dom H. apply restrict_In in H. tauto. Qed.

Lemma wf_free : wf_decls free.
Proof. apply wf_filter, WF. Qed.

Lemma u_reads : reads_only free u.
Proof. apply let_reads_only, RO. Qed.

Lemma cand_in_dom : forall p, In p (dicts vrs) -> in_dom ds (override (dflt ds) p).
Proof.
  intros p Hp. apply override_in_dom.
  - apply WF.
  - apply dflt_in_dom, WF.
  - intros x z Hx. destruct (dicts_vals _ _ _ _ Hp Hx) as [dom [A1 B]].
    exists dom. split; [apply vrs_incl, A1|exact B].
Qed.

Lemma support_in_keys : forall p x,
  In p (dicts vrs) -> In x (support free u) -> In x (keys p).
Proof.
  intros p x Hp Hx. rewrite (dicts_keys _ _ Hp).
  assert (Hn := support_names _ _ _ Hx). apply names_In in Hn. destruct Hn as [dom Hd].
  eapply In_names. apply restrict_In. split.
  - apply free_decls_spec in Hd. exact (proj1 Hd).
  - apply in_or_app. left. exact Hx.
Qed.

(* the value of the cofactor is determined by the picked assignment *)
Lemma cand_determines : forall p v,
  In p (dicts vrs) -> in_dom ds v ->
  (forall x z, lookup x p = Some z -> v x = z) ->
  u v = u (override (dflt ds) p).
Proof.
  intros p v Hp Hv AG.
  apply (support_sound free u); [apply u_reads| | |].
  - apply in_dom_filter, Hv.
  - apply in_dom_filter, cand_in_dom, Hp.
  - intros x Hx. unfold override.
    assert (K := support_in_keys p x Hp Hx).
    destruct (lookup x p) as [z|] eqn:L.
    + apply AG, L.
    + apply lookup_None in L. contradiction.
Qed.

Lemma NoDup_keys_cand : forall p, In p (dicts vrs) -> NoDup (keys p).
Proof.
  intros p Hp. rewrite (dicts_keys _ _ Hp). apply NoDup_names_filter, WF.
Qed.

(* --- (a) returned values cover the implementation variables and, read as
       next values together with the state, satisfy the action ----------- *)
Theorem step_ok_sound : forall r,
  step pick A state = Ok r ->
  (forall x, In x (a_impl A) -> In (prime x) (names ds) -> In x (keys r)) /\
  (forall v, in_dom ds v ->
     (forall s z, lookup s r = Some z -> v (prime s) = z) ->
     a_action A (override v state) = true).
Proof.
  intros r H. unfold step, step_core in H. fold ds in H.
  destruct (negb (forallb _ (support ds (a_action A)))); [discriminate|].
  destruct (negb (forallb _ (keys state))); [discriminate|].
  fold u free vrs in H.
  destruct (pick (candidates ds vrs u)) as [p|] eqn:P; [|discriminate].
  apply pick_in in P. unfold candidates in P. apply filter_In in P.
  destruct P as [Hp Hu].
  assert (ND := NoDup_keys_cand p Hp).
  split.
  - intros x Hi Hn.
    assert (K : In (prime x) (keys p)).
    { rewrite (dicts_keys _ _ Hp). apply names_In in Hn. destruct Hn as [dom Hd].
      eapply In_names. apply restrict_In. split; [exact Hd|].
      apply in_or_app. right. apply in_map, Hi. }
    destruct (lookup (prime x) p) as [z|] eqn:L;
      [|apply lookup_None in L; contradiction].
    destruct (unprime_acc_lookup _ _ _ _ _ H ND L) as [s [U Ls]].
    apply unprime_prime in U. apply prime_inj in U. subst s.
    apply lookup_In in Ls. change x with (fst (x, z)). apply in_map, Ls.
  - intros v Hv AG. change (u v = true). rewrite <- Hu.
    apply cand_determines; [exact Hp|exact Hv|].
    intros x z L.
    destruct (unprime_acc_lookup _ _ _ _ _ H ND L) as [s [U Ls]].
    apply unprime_prime in U. subst x. apply AG, Ls.
Qed.

(* the unprimed identifiers in the support of the action are assigned *)
Definition support_assigned : Prop :=
  forall x, In x (support ds (a_action A)) -> is_primed x = false -> In x (keys state).

Lemma checks_pass : support_assigned ->
  negb (forallb (fun x => is_primed x || mem x (keys state))
          (support ds (a_action A))) = false /\
  negb (forallb (fun k => mem k (names ds)) (keys state)) = false.
Proof.
  intros SA. split; apply negb_false_iff, forallb_forall.
  - intros x Hx. destruct (is_primed x) eqn:P; [reflexivity|].
    simpl. apply mem_In, SA; assumption.
  - intros k Hk. apply mem_In. unfold keys in Hk. apply in_map_iff in Hk.
    destruct Hk as [[k' z] [E Hk]]. simpl in E. subst k'.
    destruct (SO _ _ Hk) as [dom [A1 _]]. eapply In_names, A1.
Qed.

(* after the cofactor only primed identifiers remain in the support *)
Lemma free_support_primed : support_assigned ->
  forall x, In x (support free u) -> is_primed x = true.
Proof.
  intros SA x Hx. destruct (is_primed x) eqn:P; [reflexivity|]. exfalso.
  unfold support in Hx. apply names_In in Hx. destruct Hx as [dom Hx].
  apply filter_In in Hx. destruct Hx as [Hf D]. simpl in D.
  apply free_decls_spec in Hf. destruct Hf as [Hd Hk].
  assert (NS : ~ In x (support ds (a_action A))) by (intros S; apply Hk, SA; assumption).
  assert (ND : depends ds (a_action A) x dom = false).
  { destruct (depends ds (a_action A) x dom) eqn:E; [|reflexivity].
    exfalso. apply NS. eapply In_support; eauto. }
  unfold depends in D. apply existsb_exists in D. destruct D as [d [Hd' D]].
  apply existsb_exists in D. destruct D as [a [Ha D]].
  set (v0 := override (dflt free) d) in D.
  assert (IN0 : in_dom free v0).
  { apply override_in_dom.
    - apply wf_free.
    - apply dflt_in_dom, wf_free.
    - intros y z Hy. eapply dicts_vals; eauto. }
  assert (E1 : u (upd v0 x a) = a_action A (upd (override v0 state) x a)).
  { unfold u, let_. apply (everywhere_agree ds); [exact RO|].
    intros y. unfold override, upd.
    destruct (lookup y state) eqn:L; [|reflexivity].
    destruct (String.eqb y x) eqn:E; [|reflexivity].
    apply String.eqb_eq in E. subst y. exfalso. apply Hk.
    apply lookup_In in L. change x with (fst (x, z)). apply in_map, L. }
  assert (E2 : a_action A (upd (override v0 state) x a) = a_action A (override v0 state)).
  { apply (nodep_upd ds _ x dom RO ND); [|exact Ha].
    apply in_dom_free_override; [apply WF|exact IN0|exact SO]. }
  rewrite E1, E2 in D. unfold u, let_ in D. rewrite xorb_nilpotent in D. discriminate.
Qed.

Lemma cand_unprimable : support_assigned ->
  forall p, In p (dicts vrs) -> forall k, In k (keys p) -> unprime k <> None.
Proof.
  intros SA p Hp k Hk. rewrite (dicts_keys _ _ Hp) in Hk.
  apply names_In in Hk. destruct Hk as [dom Hk]. apply restrict_In in Hk.
  destruct Hk as [Hd Hx]. apply PR; [eapply In_names, Hd|].
  apply in_app_or in Hx. destruct Hx as [Hx|Hx].
  - apply free_support_primed; assumption.
  - apply in_map_iff in Hx. destruct Hx as [s [<- _]]. apply is_primed_prime.
Qed.

(* --- (b) enabled: some values are returned ------------------------------ *)
Theorem step_enabled : support_assigned ->
  (exists v, in_dom ds v /\ a_action A (override v state) = true) ->
  exists r, step pick A state = Ok r.
Proof.
  intros SA [v [Hv Hact]]. unfold step, step_core. fold ds.
  destruct (checks_pass SA) as [C1 C2]. rewrite C1, C2. fold u free vrs.
  set (p := tab vrs v).
  assert (Hp : In p (dicts vrs)).
  { apply tab_in_dicts. intros x dom Hx. apply Hv, vrs_incl, Hx. }
  assert (Hu : u (override (dflt ds) p) = true).
  { rewrite <- (cand_determines p v Hp Hv); [exact Hact|].
    intros x z L. unfold p in L. rewrite lookup_tab in L.
    destruct (mem x (names vrs)); congruence. }
  destruct (pick (candidates ds vrs u)) as [q|] eqn:P.
  - apply pick_in in P. unfold candidates in P. apply filter_In in P.
    apply unprime_acc_total. apply cand_unprimable; [exact SA|exact (proj1 P)].
  - apply pick_none in P. exfalso.
    assert (In p (candidates ds vrs u)) by (apply filter_In; split; assumption).
    rewrite P in H. contradiction.
Qed.

(* --- (c) disabled: an error instead of values --------------------------- *)
Theorem step_disabled : support_assigned ->
  (forall v, in_dom ds v -> a_action A (override v state) = false) ->
  step pick A state = Err Disabled.
Proof.
  intros SA DIS. unfold step, step_core. fold ds.
  destruct (checks_pass SA) as [C1 C2]. rewrite C1, C2. fold u free vrs.
  assert (E : candidates ds vrs u = []).
  { apply filter_nil. intros p Hp. unfold u, let_. apply DIS, cand_in_dom, Hp. }
  rewrite E, pick_nil. reflexivity.
Qed.

(* without the assertion's precondition the stepper signals an error *)
Theorem step_unassigned : ~ support_assigned -> step pick A state = Err Missing.
Proof.
  intros NSA. unfold step, step_core. fold ds.
  destruct (negb (forallb (fun x => is_primed x || mem x (keys state))
              (support ds (a_action A)))) eqn:C; [reflexivity|].
  exfalso. apply NSA. intros x Hx P.
  apply negb_false_iff in C. rewrite forallb_forall in C.
  specialize (C x Hx). rewrite P in C. simpl in C. apply mem_In, C.
Qed.
End Step.

(* ------------------------------------------------------------------ init *)
Section Init.
Hypothesis ROI : reads_only ds (a_init A).
Let ivrs := restrict_decls ds (support ds (a_init A)).

Lemma icand_in_dom : forall p, In p (dicts ivrs) -> in_dom ds (override (dflt ds) p).
Proof.
  intros p Hp. apply override_in_dom.
  - apply WF.
  - apply dflt_in_dom, WF.
  - intros x z Hx. destruct (dicts_vals _ _ _ _ Hp Hx) as [dom [A1 B]].
    exists dom. split; [|exact B]. apply restrict_In in A1. tauto.
Qed.

Lemma icand_determines : forall p v,
  In p (dicts ivrs) -> in_dom ds v ->
  (forall x z, lookup x p = Some z -> v x = z) ->
  a_init A v = a_init A (override (dflt ds) p).
Proof.
  intros p v Hp Hv AG. apply (support_sound ds); [exact ROI|exact Hv|apply icand_in_dom, Hp|].
  intros x Hx. unfold override.
  assert (K : In x (keys p)).
  { rewrite (dicts_keys _ _ Hp). assert (Hn := support_names _ _ _ Hx).
    apply names_In in Hn. destruct Hn as [dom Hd]. eapply In_names.
    apply restrict_In. split; eauto. }
  destruct (lookup x p) as [z|] eqn:L; [apply AG, L|].
  apply lookup_None in L. contradiction.
Qed.

(* the initial values are implementation variables, and they extend to an
   assignment [p] of `support(init)` every in-range completion of which
   satisfies the initial condition *)
Theorem init_ok_sound : forall r,
  init pick A = Ok r ->
  (forall k, In k (keys r) -> In k (a_impl A)) /\
  exists p, r = filter (fun kv => mem (fst kv) (a_impl A)) p /\
    forall v, in_dom ds v -> (forall x z, lookup x p = Some z -> v x = z) ->
      a_init A v = true.
Proof.
  intros r H. unfold init, init_core in H. fold ds ivrs in H.
  destruct (pick (candidates ds ivrs (a_init A))) as [p|] eqn:P; [|discriminate].
  injection H as <-. apply pick_in in P. unfold candidates in P.
  apply filter_In in P. destruct P as [Hp Hu]. split.
  - intros k Hk. unfold keys in Hk. apply in_map_iff in Hk.
    destruct Hk as [[k' z] [E Hk]]. simpl in E. subst k'.
    apply filter_In in Hk. apply mem_In. exact (proj2 Hk).
  - exists p. split; [reflexivity|]. intros v Hv AG.
    rewrite (icand_determines p v Hp Hv AG). exact Hu.
Qed.

Theorem init_satisfiable :
  (exists v, in_dom ds v /\ a_init A v = true) -> exists r, init pick A = Ok r.
Proof.
  intros [v [Hv Hi]]. unfold init, init_core. fold ds ivrs.
  set (p := tab ivrs v).
  assert (Hp : In p (dicts ivrs)).
  { apply tab_in_dicts. intros x dom Hx. apply Hv. apply restrict_In in Hx. tauto. }
  assert (Hu : a_init A (override (dflt ds) p) = true).
  { rewrite <- (icand_determines p v Hp Hv); [exact Hi|].
    intros x z L. unfold p in L. rewrite lookup_tab in L.
    destruct (mem x (names ivrs)); congruence. }
  destruct (pick (candidates ds ivrs (a_init A))) as [q|] eqn:P; [eauto|].
  apply pick_none in P. exfalso.
  assert (In p (candidates ds ivrs (a_init A))) by (apply filter_In; split; assumption).
  rewrite P in H. contradiction.
Qed.

Theorem init_unsatisfiable :
  (forall v, in_dom ds v -> a_init A v = false) -> init pick A = Err Disabled.
Proof.
  intros UNS. unfold init, init_core. fold ds ivrs.
  assert (E : candidates ds ivrs (a_init A) = []).
  { apply filter_nil. intros p Hp. apply UNS, icand_in_dom, Hp. }
  rewrite E, pick_nil. reflexivity.
Qed.
End Init.
End StepperFacts.

(* ------------------------------------------------- truth-table predicates *)
Lemma eval_tbl_reads_only : forall ds t, reads_only ds (eval_tbl ds t).
Proof.
  induction ds as [|[x dom] ds IH]; intros t v w AG; simpl.
  - reflexivity.
  - destruct t as [b|ts]; [reflexivity|].
    rewrite (AG x) by (left; reflexivity).
    destruct (branch (w x) dom ts); [|reflexivity].
    apply IH. intros y Hy. apply AG. right. exact Hy.
Qed.

(* the choice functions used by the correspondence check are choice
   functions *)
Lemma find_or_hd_spec : forall (f : dict -> bool),
  (forall l a, match find f l with Some p => Some p | None => hd_error l end = Some a -> In a l) /\
  (forall l, match find f l with Some p => Some p | None => hd_error l end = None -> l = []).
Proof.
  intros f. split.
  - intros l a H. destruct (find f l) eqn:F.
    + injection H as <-. apply find_some in F. tauto.
    + destruct l; simpl in H; [discriminate|]. injection H as <-. left. reflexivity.
  - intros l H. destruct (find f l); [discriminate|].
    destruct l; [reflexivity|discriminate].
Qed.

Lemma pick_to_spec : forall r,
  (forall l a, pick_to r l = Some a -> In a l) /\
  (forall l, pick_to r l = None -> l = []).
Proof. intros r. unfold pick_to. apply find_or_hd_spec. Qed.

Lemma pick_init_to_spec : forall impl r,
  (forall l a, pick_init_to impl r l = Some a -> In a l) /\
  (forall l, pick_init_to impl r l = None -> l = []).
Proof. intros impl r. unfold pick_init_to. apply find_or_hd_spec. Qed.

Lemma hd_error_spec : forall A : Type,
  (forall (l : list A) a, hd_error l = Some a -> In a l) /\
  (forall l : list A, hd_error l = None -> l = []).
Proof.
  intros A0. split.
  - intros [|x l] a H; simpl in H; [discriminate|]. injection H as <-. left. reflexivity.
  - intros [|x l] H; [reflexivity|discriminate].
Qed.
