(* L6Graph / Logicizer: executable model of
   omega/symbolic/logicizer.py (`graph_to_logic`, `_graph_to_formulas`,
   `_sys_trans`, `_env_trans`, `_env_trans_from_sys_ts`, `_node_var_trans`,
   `_init_from_ts`, `_to_action`, `_assign`, `_add_expr`) over the formula
   AST of Formula.v.  Same loops, same case distinctions, same order of the
   conjuncts as the code.

   MODEL ONLY (no proofs here; see LogicizerProofs.v).

   A transition system (omega/automata.py `TransitionSystem`, a networkx
   MultiDiGraph) is given by
     ts_nodes     g.nodes(data=True), in iteration order: (node, label)
     ts_edges     g.edges(data=True): (u, v, label), parallel edges allowed
     ts_initial   g.initial_nodes
     ts_owner_sys g.owner == 'sys'
     ts_vars      keys of g.vars;  ts_env_vars  g.env_vars
   A label `d` (a dict) is its optional 'formula' entry and its other
   entries (key, value) in dict order; a key is a variable, primed or not.
   Keys that are not variables (not in `dvars`) are carried along and
   skipped exactly where the code skips them.  Node labels have no primed
   keys (TransitionSystem: "unprimed vars for nodes"). *)
From Coq Require Import List Bool ZArith Arith.
Import ListNotations.
From Omega Require Import L6Graph.Formula.

(* the value of a 'formula' entry: '', 'TRUE', 'FALSE' or another string *)
Inductive fstr (L : Type) : Type :=
| SEmpty
| STrue
| SFalse
| SLab (l : L).
Arguments SEmpty {L}.
Arguments STrue {L}.
Arguments SFalse {L}.
Arguments SLab {L} l.

Section Logicizer.
Variables EL NL : Type.
Local Notation form := (form EL NL).

(* (primed?, variable, value) *)
Definition asg : Type := bool * var * Z.

Record elabel : Type := {
  e_formula : option (fstr EL);      (* None: no 'formula' key *)
  e_asg : list asg }.

Record nlabel : Type := {
  n_formula : option (fstr NL);
  n_asg : list (var * Z) }.

Record tsys : Type := {
  ts_nodes : list (Z * nlabel);
  ts_edges : list (Z * Z * elabel);
  ts_initial : list Z;
  ts_owner_sys : bool;
  ts_vars : list var;
  ts_env_vars : list var }.

Definition mem (k : var) (l : list var) : bool := existsb (Nat.eqb k) l.

(* `k in dvars` where dvars = g.vars + {nodevar} + primed copies *)
Definition in_dvars (nd : var) (g : tsys) (a : asg) : bool :=
  let '(_, k, _) := a in Nat.eqb k nd || mem k (ts_vars g).

(* `k in denv` where
   denv = {k: v for k, v in dvars.items() if k in g.env_vars}:
   g.env_vars holds unprimed names, so no primed key is in denv *)
Definition in_denv (nd : var) (g : tsys) (a : asg) : bool :=
  let '(p, k, _) := a in negb p && in_dvars nd g a && mem k (ts_env_vars g).

(* `_assign(k, v, dvars)`: `(k = v)` or `(k <=> TRUE|FALSE)` *)
Definition assign (a : asg) : form :=
  let '(p, k, v) := a in FAsg p k v.

Definition item_of_fstr {L} (inj : L -> form) (s : fstr L) : option form :=
  match s with
  | SEmpty => None
  | STrue => Some FTrue
  | SFalse => Some FFalse
  | SLab l => Some (inj l)
  end.

(* `_to_action(d, dvars)`: the formula first, then the assignments to keys
   in `dvars`, conjoined *)
Definition to_action (dv : asg -> bool) (f : option (option form))
    (asgs : list asg) : form :=
  conj ((match f with Some it => [it] | None => [] end)
        ++ map (fun a => Some (assign a)) (filter dv asgs)).

Definition e_item (l : elabel) : option (option form) :=
  option_map (item_of_fstr FELab) (e_formula l).
Definition n_item (l : nlabel) : option (option form) :=
  option_map (item_of_fstr FNLab) (n_formula l).
Definition n_asgs (l : nlabel) : list asg :=
  map (fun kv => (false, fst kv, snd kv)) (n_asg l).

(* `g.edges(u, data=True)` / `g.out_edges(u, data=True)` *)
Definition out_edges (g : tsys) (u : Z) : list (Z * Z * elabel) :=
  filter (fun e => Z.eqb (fst (fst e)) u) (ts_edges g).

(* the conjunct of `_sys_trans` for node u *)
Definition node_trans (nd : var) (g : tsys) (u : Z) : form :=
  let pre := assign (false, nd, u) in
  match out_edges g u with
  | [] => FImp pre FFalse                      (* `({pre}) => False` *)
  | es =>
    let post := map (fun e =>
        let '(_, v, d) := e in
        (* t = dict(d); t[nodevar'] = v *)
        Some (to_action (in_dvars nd g) (e_item d)
                        (e_asg d ++ [(true, nd, v)]))) es in
    FImp pre (disj post)
  end.

(* `_sys_trans(g, nodevar, dvars)` *)
Definition sys_trans (nd : var) (g : tsys) : form :=
  conj (map (fun n => Some (node_trans nd g (fst n))) (ts_nodes g)).

(* `_env_trans(g, nodevar, dvars, self_loops)`: a separate copy in the code
   (the `sys` list it also collects is unused); same conjuncts *)
Definition env_node_trans (nd : var) (g : tsys) (u : Z) : form :=
  let pre := assign (false, nd, u) in
  match out_edges g u with
  | [] => FImp pre FFalse                      (* `{pre} => False` *)
  | es =>
    let post := map (fun e =>
        let '(_, v, d) := e in
        Some (to_action (in_dvars nd g) (e_item d)
                        (e_asg d ++ [(true, nd, v)]))) es in
    FImp pre (disj post)
  end.
Definition env_trans (nd : var) (g : tsys) : form :=
  conj (map (fun n => Some (env_node_trans nd g (fst n))) (ts_nodes g)).

(* `_env_trans_from_sys_ts(g, nodevar, dvars)`.  `c` is a set of strings in
   the code (duplicates dropped, order arbitrary); `if not t: continue` can
   never fire because `_to_action` never returns the empty string, hence
   `if not c: continue` cannot fire either for a node with successors. *)
Definition env_trans_from_sys_ts (nd : var) (g : tsys) : form :=
  conj (flat_map (fun n =>
    let u := fst n in
    match out_edges g u with
    | [] => []
    | es =>
      let c := map (fun e =>
          let '(_, _, d) := e in
          Some (to_action (in_denv nd g) (e_item d) (e_asg d))) es in
      [Some (FImp (assign (false, nd, u)) (disj c))]
    end) (ts_nodes g)).

(* `_node_var_trans(g, nodevar, dvars)` -> (init, trans);
   `dvars` is never empty (it contains nodevar) *)
Definition node_var_trans (nd : var) (g : tsys) : list form * list form :=
  let keep := flat_map (fun n =>
    let '(u, d) := n in
    let pre := assign (false, nd, u) in
    let r := to_action (in_dvars nd g) (n_item d) (n_asgs d) in
    if is_FTrue r then [] else [(pre, r)]) (ts_nodes g) in
  (map (fun pr => FOr (FNot (fst pr)) (snd pr)) keep,      (* ~ (pre) \/ (r) *)
   map (fun pr => FPrime (FImp (fst pr) (snd pr))) keep).  (* ((pre) => (r))' *)

(* `_init_from_ts`; the code raises if `initial_nodes` is empty and
   ignore_initial is False: the model then yields the empty disjunction *)
Definition init_from_ts (nd : var) (g : tsys) (ignore_initial : bool)
    : list form :=
  if ignore_initial then []
  else [disj (map (fun u => Some (assign (false, nd, u))) (ts_initial g))].

(* `_graph_to_formulas` -> (env_init, env_tran, sys_init, sys_tran) *)
Definition graph_to_formulas (nd : var) (ignore_initial receptive
    self_loops : bool) (g : tsys)
    : list form * list form * list form * list form :=
  let init := init_from_ts nd g ignore_initial in
  let '(tmp_init, nodepred) := node_var_trans nd g in
  if ts_owner_sys g then
    let sys_init := init ++ tmp_init in
    let r := sys_trans nd g in
    let r := if self_loops then FOr r (FStutter nd) else r in
    let sys_tran := r :: nodepred in
    let env_tran :=
      if receptive then [env_trans_from_sys_ts nd g] else [] in
    ([], env_tran, sys_init, sys_tran)
  else
    let env_init := init ++ tmp_init in
    let r := env_trans nd g in
    let r := if self_loops then FOr r (FStutter nd) else r in
    let env_tran := r :: nodepred in
    (env_init, env_tran, [], []).

(* `_add_expr(c, aut)` up to the string -> BDD step *)
Definition add_expr (c : list form) : form := conj (map Some c).

Record automaton : Type := {
  env_init : form; env_action : form; sys_init : form; sys_action : form }.

(* `graph_to_logic`: the four formulas whose BDDs become aut.init / action *)
Definition graph_to_logic (nd : var) (ignore_initial receptive
    self_loops : bool) (g : tsys) : automaton :=
  let '(ei, et, si, st) :=
    graph_to_formulas nd ignore_initial receptive self_loops g in
  {| env_init := add_expr ei; env_action := add_expr et;
     sys_init := add_expr si; sys_action := add_expr st |}.

(* `_nodevar_dom(g)`: (min(g), max(g)); the code asserts len(g) > 0 *)
Definition nodevar_dom (g : tsys) : Z * Z :=
  match map fst (ts_nodes g) with
  | [] => (0%Z, 0%Z)
  | u :: r => (fold_left Z.min r u, fold_left Z.max r u)
  end.

(* the variable lists of `graph_to_logic`:
     aut.varlist['env'] = list(g.env_vars)
     aut.varlist['sys'] = [k for k in g.vars if k not in g.env_vars]
     aut.varlist[g.owner].append(nodevar) *)
Definition varlists (nd : var) (g : tsys) : list var * list var :=
  let env := ts_env_vars g in
  let sys := filter (fun k => negb (mem k (ts_env_vars g))) (ts_vars g) in
  if ts_owner_sys g then (env, sys ++ [nd]) else (env ++ [nd], sys).

Definition owner_init (a : automaton) (g : tsys) : form :=
  if ts_owner_sys g then sys_init a else env_init a.
Definition owner_action (a : automaton) (g : tsys) : form :=
  if ts_owner_sys g then sys_action a else env_action a.
Definition other_init (a : automaton) (g : tsys) : form :=
  if ts_owner_sys g then env_init a else sys_init a.
Definition other_action (a : automaton) (g : tsys) : form :=
  if ts_owner_sys g then env_action a else sys_action a.

End Logicizer.

Arguments Build_elabel {EL}.
Arguments e_formula {EL}.
Arguments e_asg {EL}.
Arguments Build_nlabel {NL}.
Arguments n_formula {NL}.
Arguments n_asg {NL}.
Arguments Build_tsys {EL NL}.
Arguments ts_nodes {EL NL}.
Arguments ts_edges {EL NL}.
Arguments ts_initial {EL NL}.
Arguments ts_owner_sys {EL NL}.
Arguments ts_vars {EL NL}.
Arguments ts_env_vars {EL NL}.
Arguments in_dvars {EL NL}.
Arguments in_denv {EL NL}.
Arguments assign {EL NL}.
Arguments to_action {EL NL}.
Arguments out_edges {EL NL}.
Arguments node_trans {EL NL}.
Arguments sys_trans {EL NL}.
Arguments env_node_trans {EL NL}.
Arguments env_trans {EL NL}.
Arguments env_trans_from_sys_ts {EL NL}.
Arguments node_var_trans {EL NL}.
Arguments init_from_ts {EL NL}.
Arguments graph_to_formulas {EL NL}.
Arguments add_expr {EL NL}.
Arguments graph_to_logic {EL NL}.
Arguments env_init {EL NL}.
Arguments env_action {EL NL}.
Arguments sys_init {EL NL}.
Arguments sys_action {EL NL}.
Arguments nodevar_dom {EL NL}.
Arguments varlists {EL NL}.
Arguments owner_init {EL NL}.
Arguments owner_action {EL NL}.
Arguments other_init {EL NL}.
Arguments other_action {EL NL}.
Arguments e_item {EL NL}.
Arguments n_item {EL NL}.
Arguments n_asgs {NL}.
