"""Random GR(1) games on the real omega, for C01-C05, C03, C12."""
from vlib import games

MODES = [(m, p) for m in (False, True) for p in (False, True)]
QINITS = [r'\A \A', r'\E \E', r'\A \E', r'\E \A']
QNAME = {r'\A \A': 'QAA', r'\E \E': 'QEE', r'\A \E': 'QAE', r'\E \A': 'QEA'}


def make_game(rng, backend, max_states=16, nontrivial_bias=True):
    """Random game; with nontrivial_bias, resample (up to 6 times) games
    whose Streett region is empty or full in all four modes (judged by the
    explicit solver, so the bias does not depend on the code under test)."""
    for _ in range(6):
        g = _make_game(rng, backend, max_states)
        if not nontrivial_bias:
            return g
        ex = Explicit(g)
        sizes = [len(ex.streett(m, p)) for m, p in MODES]
        if any(0 < k < g['ar'].ns for k in sizes):
            return g
    return g


def _make_graph_game(rng, backend, max_states):
    """Sparse, graph-like games: the component moves a token y along a sparse
    digraph (chains, cycles, branches chosen by the environment's next
    value), so that attractors and traps need several iterations and the
    goal counter really has to advance.  1-3 persistence and 1-3 recurrence
    sets, three goals with probability 1/3."""
    ykind = rng.choice([(0, 3), (0, 2), (-2, 1)] if max_states >= 8
                       else [(0, 1), (-1, 0)])
    xkind = rng.choice(['bool', 'bool', (0, 1)])
    decl = dict(const={}, env={'x': xkind}, sys={'y': ykind})
    ar = games.Arena(decl, backend)
    ny, nx = ar.ny, ar.nx
    # environment: free, toggling, or holding
    ek = rng.choice(['free', 'free', 'toggle', 'hold', 'random'])
    E = []
    for (c, x, y) in ar.states():
        row = []
        for xp in range(nx):
            ok = {'free': True, 'toggle': xp != x, 'hold': xp == x,
                  'random': rng.random() < 0.7}[ek]
            row += [ok] * ny
        E.append(row)
    # component: sparse successor sets, possibly depending on x'
    succ = {}
    for y in range(ny):
        for xp in range(nx):
            k = rng.choice([1, 1, 2])
            base = [(y + 1) % ny, y, (y + 2) % ny, rng.randrange(ny)]
            succ[(y, xp)] = set(rng.sample(base, k)) if rng.random() < 0.9 \
                else set()
    dep_x = rng.random() < 0.5
    S = []
    for (c, x, y) in ar.states():
        row = []
        for xp in range(nx):
            t = succ[(y, xp if dep_x else 0)]
            row += [yp in t for yp in range(ny)]
        S.append(row)
    nP = rng.choice([1, 2, 2, 3])
    nR = rng.choice([1, 2, 3])

    def subset(k):
        ys = set(rng.sample(range(ny), min(k, ny)))
        xs = None if rng.random() < 0.7 else rng.randrange(nx)
        return [(y in ys) and (xs is None or x == xs)
                for (c, x, y) in ar.states()]
    P = [subset(rng.choice([1, 2, max(1, ny - 1)])) for _ in range(nP)]
    R = [subset(rng.choice([1, 1, 2])) for _ in range(nR)]
    return dict(decl=decl, backend=backend, E=E, S=S, P=P, R=R, ar=ar)


def _make_game(rng, backend, max_states):
    if rng.random() < 0.5:
        return _make_graph_game(rng, backend, max_states)
    decl = games.random_decl(rng, max_states=max_states)
    ar = games.Arena(decl, backend)
    style = rng.choice(['safety', 'random', 'random', 'free_env'])
    if style == 'free_env':
        E = [[True] * ar.np for _ in range(ar.ns)]
    else:
        E = games.rand_table2(rng, ar, rng.choice([0.6, 0.8, 0.95]),
                              no_yp=rng.random() < 0.7)
    if rng.random() < 0.6:
        S = games.structured_sys_table(rng, ar)
    else:
        S = games.rand_table2(rng, ar, rng.choice([0.3, 0.5, 0.8]),
                              no_xp=rng.random() < 0.3)
    nP, nR = rng.choice([1, 1, 2, 3]), rng.choice([1, 1, 2, 3])
    P = [games.rand_table1(rng, ar, rng.choice([0.15, 0.3, 0.5]))
         for _ in range(nP)]
    R = [games.rand_table1(rng, ar, rng.choice([0.2, 0.4, 0.6]))
         for _ in range(nR)]
    return dict(decl=decl, backend=backend, E=E, S=S, P=P, R=R, ar=ar)


def case_of(g):
    return {k: g[k] for k in ('decl', 'backend', 'E', 'S', 'P', 'R')
            } | {k: g[k] for k in ('EI', 'SI') if k in g}


def load(g):
    """Install the game's tables into its automaton (fresh BDDs)."""
    ar = g['ar']
    aut = ar.aut
    aut.action['env'] = ar.bdd2(g['E'])
    aut.action['sys'] = ar.bdd2(g['S'])
    aut.win['<>[]'] = [ar.bdd1(p) for p in g['P']]
    aut.win['[]<>'] = [ar.bdd1(r) for r in g['R']]
    aut.init['env'] = ar.bdd1(g['EI']) if 'EI' in g else aut.true
    aut.init['sys'] = ar.bdd1(g['SI']) if 'SI' in g else aut.true
    return aut


def rebuild(case):
    g = dict(case)
    g['ar'] = games.Arena(g['decl'], g['backend'])
    return g


def tables(ar, x):
    """Nested lists of BDDs -> nested lists of state truth tables."""
    if isinstance(x, list):
        return [tables(ar, y) for y in x]
    return ar.table1(x)


def coq_defs(prefix, g):
    ar = g['ar']
    n = f'{ar.nc} {ar.nx} {ar.ny}'
    d = [f'Definition {prefix}E := of_table2 {n} {games.lit2(g["E"])}.',
         f'Definition {prefix}S := of_table2 {n} {games.lit2(g["S"])}.',
         f'Definition {prefix}P := map (of_table1 {n}) {games.litn(g["P"])}.',
         f'Definition {prefix}R := map (of_table1 {n}) {games.litn(g["R"])}.']
    if 'EI' in g:
        d.append(f'Definition {prefix}EI := of_table1 {n} {games.lit1(g["EI"])}.')
        d.append(f'Definition {prefix}SI := of_table1 {n} {games.lit1(g["SI"])}.')
    return '\n'.join(d)


# ---------------------------------------------------------------- oracle
class Explicit:
    """Explicit-set GR(1) solver, independent of omega (search oracle)."""

    def __init__(self, g):
        self.g = g
        ar = g['ar']
        self.ar = ar
        self.st = ar.states()
        self.idx = {s: ar.sidx(*s) for s in self.st}
        self.full = frozenset(range(ar.ns))

    def cpre(self, T, moore, plus_one):
        ar, E, S = self.ar, self.g['E'], self.g['S']
        out = set()
        for (c, x, y) in self.st:
            s = self.idx[(c, x, y)]

            def phi(xp, yp):
                j = xp * ar.ny + yp
                t = self.idx[(c, xp, yp)] in T
                if plus_one:
                    return S[s][j] and (not E[s][j] or t)
                return (not E[s][j]) or (S[s][j] and t)
            if moore:
                ok = any(all(phi(xp, yp) for xp in range(ar.nx))
                         for yp in range(ar.ny))
            else:
                ok = all(any(phi(xp, yp) for yp in range(ar.ny))
                         for xp in range(ar.nx))
            if ok:
                out.add(s)
        return frozenset(out)

    @staticmethod
    def gfp(f, top):
        z = frozenset(top)
        while True:
            z2 = frozenset(f(z))
            if z2 == z:
                return z
            z = z2

    @staticmethod
    def lfp(f):
        z = frozenset()
        while True:
            z2 = frozenset(f(z))
            if z2 == z:
                return z
            z = z2

    def sets(self, tabs):
        return [frozenset(i for i, b in enumerate(t) if b) for t in tabs]

    def streett(self, moore, plus_one):
        cp = lambda T: self.cpre(T, moore, plus_one)
        Ps, Rs = self.sets(self.g['P']), self.sets(self.g['R'])

        def FZ(Z):
            cz = cp(Z)
            out = set(self.full)
            for Rj in Rs:
                def FY(Y):
                    cy = cp(Y)
                    acc = set()
                    for Pk in Ps:
                        acc |= self.gfp(
                            lambda X: (Pk & cp(X)) | cy | (Rj & cz), self.full)
                    return acc
                out &= self.lfp(FY)
            return out
        return self.gfp(FZ, self.full)

    def rabin(self, moore, plus_one):
        cp = lambda T: self.cpre(T, moore, plus_one)
        Ps, Rs = self.sets(self.g['P']), self.sets(self.g['R'])

        def FZ(Z):
            cz = cp(Z)
            out = set()
            for Pk in Ps:
                def FY(Y):
                    cy = cp(Y)
                    acc = set(self.full)
                    for Rj in Rs:
                        acc &= self.lfp(
                            lambda X: (cp(X) | Rj) & cy & (cz | Pk))
                    return acc
                out |= self.gfp(FY, self.full)
            return out
        return self.lfp(FZ)

    def table(self, s):
        return [i in s for i in range(self.ar.ns)]
