(* L3History / Prefix: the two translators of prefix ("slugsin") strings to
   BDDs,
     omega/symbolic/bdd.py            Parser + BDDNodes   (recursive: parse a
                                       tree, then flatten it)          [rec]
     omega/symbolic/bdd_iterative.py  Parser              (one pass with an
                                       explicit stack)                 [iter]
   over the token stream of the lexer they share (`bdd.Lexer`).

   The BDD manager is abstract: a type [D] of nodes with
     var   : `bdd.var(name)`            (None: raises, e.g. undeclared)
     node  : `bdd._add_int(u)`          (integer other than 0 / 1)
     ap1   : `bdd.apply('!', u)`
     ap2   : `bdd.apply(op, u, v)`  for & | ^ \A \E, and \S in the iterative
             translator
     ren   : `bdd.rename(u, {...})` used by the recursive translator for \S
   Every Python exception is the result [None].

   No proofs here (see PrefixProofs.v). *)
From Coq Require Import List Bool String ZArith.
Import ListNotations.

Inductive binop := And | Or | Xor | Forall | Exists | Rename.

(* tokens; a NUMBER token whose text `int()` rejects (e.g. "--3") is
   [TNum None] *)
Inductive tok :=
| TNot | TBin (op : binop) | TDollar | TQuestion | TAt
| TName (s : string) | TNum (z : option Z).

Section Algebra.
Variable D : Type.
Variable dtrue dfalse : D.
Variable var : string -> option D.
Variable node : Z -> option D.
Variable ap1 : D -> option D.
Variable ap2 : binop -> D -> D -> option D.
Variable ren : list D -> D -> option D.

Definition obind {A B} (o : option A) (f : A -> option B) : option B :=
  match o with Some a => f a | None => None end.

(* `int(tok.value)` followed by the 0 / 1 / other case distinction *)
Definition num (z : option Z) : option D :=
  match z with
  | None => None
  | Some 0%Z => Some dfalse
  | Some 1%Z => Some dtrue
  | Some u => node u
  end.

(* `mem[i]` after `assert 0 <= i < len(mem)`; `mem is None` raises *)
Definition reg (mem : option (list D)) (z : option Z) : option D :=
  match mem, z with
  | Some m, Some i =>
      if (0 <=? i)%Z && (i <? Z.of_nat (List.length m))%Z
      then nth_error m (Z.to_nat i) else None
  | _, _ => None
  end.

(* `range(n)` iterations, each consuming at least one token: a count above
   the number of remaining tokens ends the stream early *)
Definition count (z : option Z) (toks : list tok) : option nat :=
  match z with
  | None => None
  | Some n =>
      if (n <=? 0)%Z then Some O
      else if (n <=? Z.of_nat (List.length toks))%Z then Some (Z.to_nat n)
      else None
  end.

(* ===================== recursive translator: tree, then flatten ========= *)
Inductive ast :=
| ANot (x : ast) | ABin (op : binop) (x y : ast)
| ABuf (mem : list ast) | AReg (z : option Z)
| AVar (s : string) | ANum (z : option Z).

(* `Parser._recurse`; returns the tree and the unread tokens.  [fuel] bounds
   the recursion depth (the number of tokens suffices). *)
Fixpoint parse (fuel : nat) (toks : list tok) : option (ast * list tok) :=
  match fuel with
  | O => None
  | S f =>
    match toks with
    | [] => None                                 (* stream ended early *)
    | TNot :: r =>
        obind (parse f r) (fun '(x, r1) => Some (ANot x, r1))
    | TBin op :: r =>
        obind (parse f r) (fun '(x, r1) =>
        obind (parse f r1) (fun '(y, r2) => Some (ABin op x y, r2)))
    | TDollar :: r =>
        obind (parse f r) (fun '(u, r1) =>
        match u with
        | ANum z =>
            obind (count z r1) (fun n =>
            obind (parse_many f n r1) (fun '(mem, r2) =>
            Some (ABuf mem, r2)))
        | _ => None                              (* assert u.type == 'num' *)
        end)
    | TQuestion :: r =>
        obind (parse f r) (fun '(u, r1) =>
        match u with
        | ANum z => Some (AReg z, r1)
        | _ => None
        end)
    | TName s :: r => Some (AVar s, r)
    | TAt :: r => parse f r
    | TNum z :: r => Some (ANum z, r)
    end
  end
with parse_many (fuel : nat) (n : nat) (toks : list tok)
    : option (list ast * list tok) :=
  match fuel with
  | O => None
  | S f =>
    match n with
    | O => Some ([], toks)
    | S n' =>
        obind (parse f toks) (fun '(x, r1) =>
        obind (parse_many f n' r1) (fun '(xs, r2) => Some (x :: xs, r2)))
    end
  end.

Definition last_opt (m : list D) : option D :=
  match rev m with [] => None | x :: _ => Some x end.

(* the loop of `Buffer.flatten`: each element is flattened with the memory
   filled so far, and appended to it *)
Definition fill_with (fl : option (list D) -> ast -> option D) :=
  fix go (es : list ast) (m : list D) : option (list D) :=
    match es with
    | [] => Some m
    | e :: es' => obind (fl (Some m) e) (fun s => go es' (m ++ [s]))
    end.

(* `BDDNodes.*.flatten(bdd=bdd, mem=mem)` *)
Fixpoint flatten (mem : option (list D)) (a : ast) {struct a} : option D :=
  match a with
  | ANot x => obind (flatten mem x) ap1
  | ABin Rename pairs x =>
      (* operand first, then the pairs into a fresh `mem` with
         `same_mem=True`; `pairs` must be a buffer (`pairs.memory`) *)
      obind (flatten mem x) (fun operand =>
      match pairs with
      | ABuf elems =>
          obind (fill_with flatten elems [])
                (fun m => match m with
                          | [] => None           (* `mem[-1]` *)
                          | _ => ren m operand
                          end)
      | _ => None
      end)
  | ABin op x y =>
      obind (flatten mem x) (fun u =>
      obind (flatten mem y) (fun v => ap2 op u v))
  | ABuf elems => obind (fill_with flatten elems []) last_opt
  | AReg z => reg mem z
  | AVar s => var s
  | ANum z => num z
  end.

(* `bdd.add_expr(e, bdd)` = `parser.parse(e)` then `tree.flatten(bdd=bdd)`;
   remaining tokens are a syntax error *)
Definition rec_add_expr (toks : list tok) : option D :=
  obind (parse (S (List.length toks)) toks) (fun '(a, rest) =>
  match rest with
  | [] => flatten None a
  | _ => None
  end).

(* ===================== iterative translator ============================= *)
(* stack entries: operator strings or BDD nodes *)
Inductive sitem := SOp1 | SOp2 (op : binop) | SVal (d : D).

Definition is_op (t : sitem) : bool :=
  match t with SVal _ => false | _ => true end.

(* one round of `_reduce`: the last operator on the stack is applied to the
   entries that follow it.  [split_last s] = (before, op, after). *)
Fixpoint split_last (s : list sitem)
    : option (list sitem * sitem * list sitem) :=
  match s with
  | [] => None
  | t :: s' =>
      match split_last s' with
      | Some (b, o, a) => Some (t :: b, o, a)
      | None => if is_op t then Some ([], t, s') else None
      end
  end.

Definition rstep (s : list sitem) : option (list sitem) :=
  match split_last s with
  | None => None                    (* `assert t in OPERATORS` *)
  | Some (b, SOp1, SVal u :: a) =>
      obind (ap1 u) (fun r => Some (b ++ SVal r :: a))
  | Some (b, SOp2 op, SVal u :: SVal v :: a) =>
      obind (ap2 op u v) (fun r => Some (b ++ SVal r :: a))
  | Some _ => None                  (* too few operands: `apply` raises *)
  end.

(* `while len(stack) > 1: ...; (r,) = stack`; [n] bounds the rounds (the
   number of operators on the stack suffices) *)
Fixpoint reduce_n (n : nat) (s : list sitem) : option D :=
  match s with
  | [SVal r] => Some r
  | [] | [_] => None
  | _ =>
      match n with
      | O => None
      | S n' => obind (rstep s) (reduce_n n')
      end
  end.

Definition reduce (s : list sitem) : option D :=
  reduce_n (List.length s) s.

(* `_increase` (the loop around `_push`, then `_reduce`), `_push` inlined in
   [loop]; [fill] is the `for i in range(n)` of the `$` case.  [need] counts
   the operands still missing. *)
Fixpoint increase (fuel : nat) (mem : option (list D)) (toks : list tok)
    : option (D * list tok) :=
  match fuel with
  | O => None
  | S f => loop f mem [] 1 toks
  end
with loop (fuel : nat) (mem : option (list D)) (stack : list sitem)
    (need : nat) (toks : list tok) : option (D * list tok) :=
  match fuel with
  | O => None
  | S f =>
    match need with
    | O => obind (reduce stack) (fun r => Some (r, toks))
    | S need' =>
      match toks with
      | [] => None                               (* stream ended early *)
      | TName s :: r =>
          obind (var s) (fun v => loop f mem (stack ++ [SVal v]) need' r)
      | TNum z :: r =>
          obind (num z) (fun v => loop f mem (stack ++ [SVal v]) need' r)
      | TNot :: r => loop f mem (stack ++ [SOp1]) need r
      | TBin op :: r => loop f mem (stack ++ [SOp2 op]) (S need) r
      | TQuestion :: TNum z :: r =>
          obind (reg mem z) (fun v => loop f mem (stack ++ [SVal v]) need' r)
      | TQuestion :: _ => None                   (* `int(tok.value)` raises *)
      | TDollar :: TNum z :: r =>
          obind (count z r) (fun n =>
          obind (fill f n [] r) (fun '(m, r1) =>
          match last_opt m with
          | None => None                         (* `mem[-1]` *)
          | Some v => loop f mem (stack ++ [SVal v]) need' r1
          end))
      | TDollar :: _ => None
      | TAt :: _ => None                         (* unknown token type *)
      end
    end
  end
with fill (fuel : nat) (n : nat) (m : list D) (toks : list tok)
    : option (list D * list tok) :=
  match fuel with
  | O => None
  | S f =>
    match n with
    | O => Some (m, toks)
    | S n' =>
        obind (increase f (Some m) toks) (fun '(s, r1) =>
        fill f n' (m ++ [s]) r1)
    end
  end.

(* `bdd_iterative.add_expr(e, bdd)` *)
Definition iter_add_expr (toks : list tok) : option D :=
  obind (increase (2 * S (List.length toks)) None toks) (fun '(r, rest) =>
  match rest with
  | [] => Some r
  | _ => None
  end).
End Algebra.
