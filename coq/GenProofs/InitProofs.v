(* Proofs about is_realizable and _make_init as GENERATED from gr1.py. *)
From Coq Require Import List Bool Arith Lia.
Import ListNotations.
From Omega Require Import L4.Arena L4.ArenaFacts L4.Kleene L4.InitSpec.
From OmegaGen Require Import FixpointGen Gr1Gen.
From OmegaGP Require Import ReadsGr1.

Section Init.
Variables nc nx ny : nat.
Variables env_init sys_init : bdd.
Variable plus_one : bool.

Local Notation beq := (Arena.beq nc nx ny).
Local Notation valid := (valid nc nx ny).

Lemma beq_ext a a' b b' :
  (forall v, a v = a' v) -> (forall v, b v = b' v) -> beq a b = beq a' b'.
Proof.
  intros Ha Hb. unfold Arena.beq. apply forallb_ext'. intros v.
  rewrite Ha, Hb. reflexivity.
Qed.

Ltac ext_all := repeat first [apply forallb_ext'; intro | apply existsb_ext'; intro].
Ltac strip := repeat (progress (alg_unfold; cbn [forall_raw exist_raw dom app]; ext_all)).

Theorem is_realizable_spec q fuel win :
  Gr1Gen.is_realizable nc nx ny env_init sys_init plus_one q fuel win =
  realizable_spec nc nx ny env_init sys_init plus_one q win.
Proof.
  unfold Gr1Gen.is_realizable, realizable_spec, InitSpec.valid. cbv zeta.
  destruct q; cbn [qinit_eqb].
  - destruct (beq sys_init btrue); [|reflexivity]. f_equal.
    apply beq_ext; [|reflexivity]. intros v. strip. reflexivity.
  - destruct (beq env_init btrue); [|reflexivity]. f_equal.
    apply beq_ext; [|reflexivity]. intros v. unfold ex_env_sys. strip. reflexivity.
  - f_equal. apply beq_ext; [|reflexivity]. intros v.
    unfold all_env, ex_sys, init_form. destruct plus_one; strip; reflexivity.
  - f_equal. apply beq_ext; [|reflexivity]. intros v.
    unfold all_env, ex_sys, init_form. destruct plus_one; strip; reflexivity.
Qed.

(* the synthesized initial condition, semantically *)
Theorem make_init_sem q fuel internal win r :
  Gr1Gen.make_init nc nx ny env_init sys_init plus_one q fuel internal win = Some r ->
  forall v, r v = init_spec nx env_init sys_init plus_one q win v && internal v.
Proof.
  unfold Gr1Gen.make_init, init_spec. cbv zeta.
  destruct q; cbn [qinit_eqb].
  - destruct (negb (beq btrue bfalse)); [|discriminate].
    intros H v. inversion H. rewrite band_spec. reflexivity.
  - destruct (negb (beq _ bfalse)); [|discriminate].
    intros H v. inversion H. rewrite !band_spec. reflexivity.
  - destruct (negb (beq _ bfalse)); [|discriminate].
    intros H v. inversion H. rewrite band_spec. f_equal. unfold init_form.
    destruct plus_one; strip; reflexivity.
  - destruct (negb (beq _ bfalse)); [|discriminate].
    intros H v. inversion H. rewrite band_spec. f_equal. unfold all_env, init_form.
    destruct plus_one; strip; reflexivity.
Qed.

(* it fails exactly when the quantified initial predicate is empty *)
Theorem make_init_none q fuel internal win :
  Gr1Gen.make_init nc nx ny env_init sys_init plus_one q fuel internal win = None <->
  beq (init_spec nx env_init sys_init plus_one q win) bfalse = true.
Proof.
  unfold Gr1Gen.make_init, init_spec. cbv zeta.
  destruct q; cbn [qinit_eqb].
  - destruct (beq btrue bfalse); cbn [negb]; split; congruence.
  - match goal with |- context [negb (beq ?a bfalse)] =>
      replace (beq a bfalse) with (beq (fun v => win v && sys_init v) bfalse) end.
    + destruct (beq _ bfalse); cbn [negb]; split; congruence.
    + apply beq_ext; [|reflexivity]. intros v. rewrite band_spec. reflexivity.
  - match goal with |- context [negb (beq ?a bfalse)] =>
      replace (beq a bfalse) with (beq (init_form env_init sys_init plus_one win) bfalse) end.
    + destruct (beq _ bfalse); cbn [negb]; split; congruence.
    + apply beq_ext; [|reflexivity]. intros v. unfold init_form.
      destruct plus_one; strip; reflexivity.
  - match goal with |- context [negb (beq ?a bfalse)] =>
      replace (beq a bfalse)
        with (beq (all_env nx (init_form env_init sys_init plus_one win)) bfalse) end.
    + destruct (beq _ bfalse); cbn [negb]; split; congruence.
    + apply beq_ext; [|reflexivity]. intros v. unfold all_env, init_form.
      destruct plus_one; strip; reflexivity.
Qed.


Local Notation inr := (inr nc nx ny).

Lemma setg_env_self v : setg Env v (vx v) = v.
Proof. destruct v; reflexivity. Qed.

Lemma inr_setg_env v x : inr v -> x < nx -> inr (setg Env v x).
Proof.
  unfold Kleene.inr, in_range. destruct v as [c x0 y xp yp]. cbn [setg vc vx vy vxp vyp].
  repeat rewrite andb_true_iff. repeat rewrite Nat.ltb_lt. lia.
Qed.
Lemma inr_setg_sys v y : inr v -> y < ny -> inr (setg Sys v y).
Proof.
  unfold Kleene.inr, in_range. destruct v as [c x0 y0 xp yp]. cbn [setg vc vx vy vxp vyp].
  repeat rewrite andb_true_iff. repeat rewrite Nat.ltb_lt. lia.
Qed.
Lemma inr_vx v : inr v -> vx v < nx.
Proof.
  unfold Kleene.inr, in_range. repeat rewrite andb_true_iff. repeat rewrite Nat.ltb_lt. lia.
Qed.

(* what an admitted initial state guarantees *)
Theorem make_init_sound q fuel internal win r :
  Gr1Gen.make_init nc nx ny env_init sys_init plus_one q fuel internal win = Some r ->
  Gr1Gen.is_realizable nc nx ny env_init sys_init plus_one q fuel win = Some true ->
  forall v, inr v -> r v = true ->
    internal v = true /\
    (env_init v = true -> sys_init v = true /\ win v = true) /\
    (plus_one = true -> sys_init v = true).
Proof.
  intros Hm Hr v Hv Hrv. rewrite (make_init_sem _ _ _ _ _ Hm) in Hrv.
  apply andb_true_iff in Hrv. destruct Hrv as [Hi Hint]. split; [exact Hint|].
  rewrite is_realizable_spec in Hr. unfold realizable_spec in Hr.
  unfold init_spec in Hi. destruct q.
  - destruct (valid sys_init) eqn:Es; [|discriminate]. injection Hr as Hw.
    rewrite valid_iff in Es, Hw. specialize (Es v Hv). specialize (Hw v Hv). cbv beta in Hw.
    split; [|intros _; exact Es]. intros He. rewrite He in Hw. cbn in Hw.
    rewrite orb_false_r in Hw. auto.
  - apply andb_true_iff in Hi. destruct Hi as [Hw Hs]. split; auto.
  - unfold init_form in Hi. destruct plus_one.
    + apply andb_true_iff in Hi. destruct Hi as [Hs Hw]. split; [|auto].
      intros He. rewrite He in Hw. cbn in Hw. rewrite orb_false_r in Hw. auto.
    + split; [|discriminate]. intros He. rewrite He in Hi. cbn in Hi.
      rewrite orb_false_r in Hi. apply andb_true_iff in Hi. exact Hi.
  - unfold all_env in Hi. rewrite forallb_forall in Hi.
    specialize (Hi (vx v)). rewrite setg_env_self in Hi.
    assert (Hin : In (vx v) (seq 0 nx)) by (apply in_seq; pose proof (inr_vx v Hv); lia).
    specialize (Hi Hin). unfold init_form in Hi. destruct plus_one.
    + apply andb_true_iff in Hi. destruct Hi as [Hs Hw]. split; [|auto].
      intros He. rewrite He in Hw. cbn in Hw. rewrite orb_false_r in Hw. auto.
    + split; [|discriminate]. intros He. rewrite He in Hi. cbn in Hi.
      rewrite orb_false_r in Hi. apply andb_true_iff in Hi. exact Hi.
Qed.

(* for the exists-forall form the guarantee holds for every environment value *)
Theorem make_init_sound_EA fuel internal win r :
  Gr1Gen.make_init nc nx ny env_init sys_init plus_one QEA fuel internal win = Some r ->
  forall v, inr v -> r v = true -> forall x, x < nx ->
    init_form env_init sys_init plus_one win (setg Env v x) = true.
Proof.
  intros Hm v Hv Hrv x Hx. rewrite (make_init_sem _ _ _ _ _ Hm) in Hrv.
  apply andb_true_iff in Hrv. destruct Hrv as [Hi _]. unfold init_spec, all_env in Hi.
  rewrite forallb_forall in Hi. apply Hi. apply in_seq. lia.
Qed.

(* when the verdict is true (and the arena is not empty) initial-condition
   synthesis does not fail *)
Theorem make_init_succeeds q fuel internal win :
  0 < nc -> 0 < nx -> 0 < ny ->
  Gr1Gen.is_realizable nc nx ny env_init sys_init plus_one q fuel win = Some true ->
  Gr1Gen.make_init nc nx ny env_init sys_init plus_one q fuel internal win <> None.
Proof.
  intros Hc Hx Hy Hr Hn. apply make_init_none in Hn. rewrite beq_true_iff in Hn.
  rewrite is_realizable_spec in Hr. unfold realizable_spec in Hr.
  set (v0 := mkV 0 0 0 0 0).
  assert (Hv0 : inr v0).
  { unfold Kleene.inr, in_range, v0. cbn [vc vx vy vxp vyp].
    repeat rewrite andb_true_iff. repeat rewrite Nat.ltb_lt. lia. }
  unfold init_spec in Hn. destruct q.
  - specialize (Hn v0 Hv0). discriminate.
  - destruct (valid env_init); [|discriminate]. injection Hr as Hw.
    rewrite valid_iff in Hw. specialize (Hw v0 Hv0). unfold ex_env_sys in Hw.
    apply existsb_exists in Hw. destruct Hw as [x [Hxi Hw]].
    apply existsb_exists in Hw. destruct Hw as [y [Hyi Hw]].
    apply in_seq in Hxi, Hyi.
    rewrite (Hn (setg Sys (setg Env v0 x) y)) in Hw; [discriminate|].
    apply inr_setg_sys; [apply inr_setg_env; [exact Hv0|lia]|lia].
  - injection Hr as Hw. rewrite valid_iff in Hw. specialize (Hw v0 Hv0).
    unfold all_env in Hw. rewrite forallb_forall in Hw.
    specialize (Hw 0). assert (H0 : In 0 (seq 0 nx)) by (apply in_seq; lia).
    specialize (Hw H0). unfold ex_sys in Hw.
    apply existsb_exists in Hw. destruct Hw as [y [Hyi Hw]]. apply in_seq in Hyi.
    rewrite (Hn (setg Sys (setg Env v0 0) y)) in Hw; [discriminate|].
    apply inr_setg_sys; [apply inr_setg_env; [exact Hv0|lia]|lia].
  - injection Hr as Hw. rewrite valid_iff in Hw. specialize (Hw v0 Hv0).
    unfold ex_sys in Hw. apply existsb_exists in Hw. destruct Hw as [y [Hyi Hw]].
    apply in_seq in Hyi.
    rewrite (Hn (setg Sys v0 y)) in Hw; [discriminate|].
    apply inr_setg_sys; [exact Hv0|lia].
Qed.

End Init.
