"""Fail-closed translator for omega/symbolic/prime.py (tie T for C18).

Translates the support / priming / renaming helpers of `prime.py`, and the
identifier helpers `isprimed / prime / unprime / prime_vars / unprime_vars`
of `omega/logic/syntax.py` they call, from the CURRENT source text (Python
`ast`; `omega` is never imported) into Gallina over the primitives of the
hand-written L3Context model (coq/theories/L3Context/Ctx.v, Prime.v,
PyPrims.v).  coq/GenProofs/PrimeBridge.v proves every generated function
equal to the model the C18 theorems are about, on every run.

Representation (PyPrims.v): identifiers are strings; a set / list of
identifiers is a list (sets: duplicate-free, in the order of
`Context.support`); a dict of identifiers is an association list; a BDD node
is its meaning `pred`; `fol` / `aut` is the declaration table `t`; a call that
may raise is an `option` (None = the exception).

Accepted subset (everything else raises `Refuse`):
  statements   docstring; `x = e`; `x = set()`; `x = (generator)` (consumed
               exactly once, in straight-line code); `s.add(e)`;
               `d.update(e)`; `assert c[, msg]`; `if / elif / else`;
               `for x in <set>` (the variables the body updates are carried
               through a fold); `return e`; `return a, b`
  expressions  names, True / False, `not`, `and` / `or` (later operands must
               not raise), `x in fol.vars`, `x in <set|list|dict>`,
               `a == b` on sets / identifiers, `s[-1] == C`, `s[:-1]`,
               `s + C` (C a one-character module constant), `a | b`,
               `a - b`, `a & b` on sets, `a.issubset(b)`,
               `a.intersection(b)`, set / list / dict comprehensions and
               `any(...)` / `all(...)` over one `for` clause,
               `set().union(*generator)`, `d.items()` as an iteration domain,
               `fol.support(u)` / `u.support`, `fol.let(d, u)`,
               `aut.vars_of_players([p])` (an uninterpreted function
               parameter), calls of translated functions of the two modules.
Normalisations (harmless variation the bridge survives): local names, the
splitting of expressions into temporaries (`let` chains), `assert not c`
= `if c then None else ...`.
"""
import ast

from py2coq import Refuse

COQ_RESERVED = {
    'let', 'in', 'fun', 'match', 'end', 'with', 'if', 'then', 'else',
    'return', 'as', 'at', 'fix', 'cofix', 'forall', 'exists', 'Type', 'Set',
    'Prop', 'using', 'where', 'struct', 'for', 'IF',
    # names the generated code uses for primitives / parameters
    't', 'vars_of_players', 'filter', 'map', 'mem', 'subset', 'set_add',
    'set_union', 'set_eqb', 'dict_update', 'existsb', 'forallb', 'negb',
    'filter_opt', 'map_opt', 'any_opt', 'all_opt', 'comp_opt', 'set_of_list',
    'dict_of_list', 'set_diff', 'set_inter', 'nonempty', 'union_all',
    'last_char_is', 'ctx_support', 'ctx_let_vars', 'fold_left', 'fst', 'snd',
    'Some', 'None', 'true', 'false', 'String', 'EmptyString', 'acc', 'tbl',
    'pred', 'ident', 'list', 'option', 'bool', 'Prime'}

COQ_TYPE = {'str': 'ident', 'bool': 'bool', 'bdd': 'pred',
            'set': 'list ident', 'list': 'list ident',
            'dict': 'list (ident * ident)', 'bdds': 'list pred',
            'sets': 'list (list ident)'}
ELEM = {'set': 'str', 'list': 'str', 'bdds': 'bdd', 'sets': 'set'}


def coq_type(ty):
    if isinstance(ty, tuple):
        return '(' + ' * '.join(coq_type(x) for x in ty) + ')'
    return COQ_TYPE[ty]


def _src(n):
    return ast.unparse(n)


def _dotted(node):
    if isinstance(node, ast.Name):
        return node.id
    if isinstance(node, ast.Attribute):
        b = _dotted(node.value)
        return None if b is None else b + '.' + node.attr
    return None


class Binding:
    """One binding of a Python name (a fresh object per (re)binding)."""

    def __init__(self, coq, ty, gen=None):
        self.coq = coq
        self.ty = ty
        self.gen = gen          # (GeneratorExp node, env at definition)
        self.uses = 0


class Fn:
    def __init__(self, module, name, node, params):
        self.module = module
        self.name = name
        self.node = node
        self.param_types = params
        self.coq_name = None
        self.ret = None
        self.partial = None
        self.needs_vop = False
        self.text = None


class Module:
    def __init__(self, key, path, prefix, takes_ctx, param_types):
        self.key = key
        self.path = path
        self.prefix = prefix
        self.takes_ctx = takes_ctx
        self.param_types = param_types
        with open(path) as f:
            self.tree = ast.parse(f.read())
        self.defs = {n.name: n for n in self.tree.body
                     if isinstance(n, ast.FunctionDef)}
        # `import a.b.c as x` aliases
        self.aliases = {}
        for n in self.tree.body:
            if isinstance(n, ast.Import):
                for a in n.names:
                    self.aliases[a.asname or a.name] = a.name
        # one-character string constants (PRIME = "'")
        self.charconsts = {}
        for n in self.tree.body:
            if (isinstance(n, ast.Assign) and len(n.targets) == 1
                    and isinstance(n.targets[0], ast.Name)
                    and isinstance(n.value, ast.Constant)
                    and isinstance(n.value.value, str)
                    and len(n.value.value) == 1):
                self.charconsts[n.targets[0].id] = n.value.value
        # a module-level name bound more than once is ambiguous
        count = {}
        for n in ast.walk(self.tree):
            names = []
            if isinstance(n, (ast.FunctionDef, ast.AsyncFunctionDef,
                              ast.ClassDef)) and n in self.tree.body:
                names = [n.name]
            elif isinstance(n, (ast.Import, ast.ImportFrom)):
                names = [(a.asname or a.name).split('.')[0] for a in n.names]
            elif isinstance(n, (ast.Assign, ast.AugAssign, ast.AnnAssign)) \
                    and n in self.tree.body:
                tg = n.targets if isinstance(n, ast.Assign) else [n.target]
                for t in tg:
                    names += [x.id for x in ast.walk(t)
                              if isinstance(x, ast.Name)]
            elif isinstance(n, ast.Global):
                names = list(n.names) * 2
            elif not isinstance(n, (ast.Module, ast.Expr, ast.Constant)) \
                    and n in self.tree.body:
                # if / try / for / with ... at module level may rebind
                names = [x.id for x in ast.walk(n)
                         if isinstance(x, ast.Name)
                         and isinstance(x.ctx, ast.Store)] * 2
            for x in names:
                count[x] = count.get(x, 0) + 1
        self.ambiguous = {x for x, c in count.items() if c > 1}


class Translator:
    def __init__(self):
        self.modules = {}       # key -> Module
        self.by_import = {}     # dotted python module name -> key
        self.funcs = {}         # (module key, name) -> Fn
        self.order = []
        self.notes = []
        self.used_consts = []   # (module key, name)
        self.counter = 0

    def add_module(self, key, dotted, path, prefix, takes_ctx, param_types):
        self.modules[key] = Module(key, path, prefix, takes_ctx, param_types)
        self.by_import[dotted] = key

    # ------------------------------------------------------------ utilities
    def fresh(self):
        self.counter += 1
        return f'v{self.counter}'

    def note(self, s):
        if s not in self.notes:
            self.notes.append(s)

    @staticmethod
    def coq_ident(name):
        if not name.isidentifier() or not name.isascii():
            raise Refuse(f'identifier {name!r}')
        if name in COQ_RESERVED or name.endswith('_') \
                or (name[0] == 'v' and name[1:].isdigit()):
            return name + '_'
        return name

    @staticmethod
    def wrap(binds, body):
        for v, p in reversed(binds):
            if body.strip() == f'Some {v}':
                body = p        # match p with Some v => Some v | None => None
                continue
            body = (f'match {p} with\n| Some {v} =>\n{body}\n'
                    '| None => None\nend')
        return body

    # -------------------------------------------------------------- driver
    def translate(self, key, name):
        """Translate function `name` of module `key` (and, first, the
        translated functions it calls)."""
        k = (key, name)
        if k in self.funcs:
            fn = self.funcs[k]
            if fn.text is None:
                raise Refuse(f'{name}: recursion')
            return fn
        mod = self.modules[key]
        if name not in mod.defs:
            raise Refuse(f'{mod.path}: function {name} not found')
        node = mod.defs[name]
        if name in mod.ambiguous:
            raise Refuse(f'{mod.path}: {name} is bound more than once')
        a = node.args
        if (a.vararg or a.kwarg or a.kwonlyargs or a.posonlyargs
                or a.defaults or node.decorator_list):
            raise Refuse(f'{name}: unsupported signature')
        params = []
        for x in a.args:
            if x.arg not in mod.param_types:
                raise Refuse(f'{name}: parameter {x.arg} has no declared '
                             'representation')
            params.append((x.arg, mod.param_types[x.arg]))
        fn = Fn(key, name, node, params)
        fn.coq_name = mod.prefix + name.lstrip('_')
        self.funcs[k] = fn
        for n in ast.walk(node):
            if isinstance(n, (ast.Lambda, ast.Yield, ast.YieldFrom, ast.Await,
                              ast.Global, ast.Nonlocal, ast.Try, ast.With,
                              ast.While, ast.Delete, ast.Raise, ast.Break,
                              ast.Continue, ast.NamedExpr, ast.Starred,
                              ast.FunctionDef, ast.ClassDef, ast.IfExp)) \
                    and n is not node:
                if isinstance(n, ast.Starred):
                    continue     # only accepted inside set().union(*g)
                raise Refuse(f'{name}: {type(n).__name__}')
        body = list(node.body)
        if body and isinstance(body[0], ast.Expr) and isinstance(
                body[0].value, ast.Constant) and isinstance(
                    body[0].value.value, str):
            body = body[1:]
        self.cur = fn
        self.cur_mod = mod
        straight = not any(isinstance(n, (ast.If, ast.For))
                           for n in ast.walk(node))
        # first as a partial function; if nothing in it can raise, as a
        # total one
        for partial in (True, False):
            self.partial_mode = partial
            self.raised = False
            self.dup = 0
            self.genvars = []
            self.straight = straight
            fn.ret = None
            env = {}
            for p, ty in params:
                if ty == 'ctx':
                    env[p] = Binding(None, 'ctx')
                else:
                    env[p] = Binding(self.coq_ident(p), ty)
            self.param_bindings = {p: env[p] for p, _ in params}
            text = self.block(body, env, None)
            for b in self.genvars:
                if b.uses != 1:
                    raise Refuse(f'{name}: a generator assigned to a name '
                                 'must be consumed exactly once')
            if partial and self.raised:
                break
        fn.partial = self.raised
        if fn.ret is None:
            raise Refuse(f'{name}: no return')
        sig = []
        if mod.takes_ctx:
            sig.append('(t : tbl)')
        if fn.needs_vop:
            sig.append('(vars_of_players : list ident -> list ident)')
        for p, ty in params:
            if ty != 'ctx':
                sig.append(f'({self.coq_ident(p)} : {coq_type(ty)})')
        rt = coq_type(fn.ret)
        if fn.partial:
            rt = f'option {rt}' if ' ' not in rt else f'option ({rt})'
        fn.text = (f'(* {mod.path.split("omega/", 1)[-1]} : {name} *)\n'
                   f'Definition {fn.coq_name} {" ".join(sig)}\n'
                   f'    : {rt} :=\n{text}.')
        self.order.append(fn)
        self.cur = None
        return fn

    # ----------------------------------------------------------- statements
    def block(self, stmts, env, k):
        """Gallina term for `stmts` followed by the continuation `k`
        (None: falling off the end is refused)."""
        if not stmts:
            if k is None:
                raise Refuse(f'{self.cur.name}: a path ends without return')
            return k(env)
        s, rest = stmts[0], stmts[1:]
        go = lambda e=env: self.block(rest, e, k)
        if isinstance(s, ast.Return):
            if rest:
                raise Refuse('code after return')
            if s.value is None:
                raise Refuse('return without a value')
            if getattr(self, 'in_loop', 0):
                raise Refuse('return inside a loop')
            binds, term, ty = self.ex(s.value, env)
            if self.cur.ret is not None and self.cur.ret != ty:
                raise Refuse(f'{self.cur.name}: returns {self.cur.ret} and {ty}')
            self.cur.ret = ty
            if self.partial_mode:
                return self.wrap(binds, f'Some {self.par(term)}')
            if binds:
                raise Refuse('internal: raise in a total function')
            return term
        if isinstance(s, ast.Assert):
            self.raised = True
            if not self.partial_mode:
                raise Refuse('internal: assert in a total function')
            # the message is evaluated only when the assertion fails
            t = s.test
            if isinstance(t, ast.UnaryOp) and isinstance(t.op, ast.Not):
                binds, term, ty = self.ex(t.operand, env)
                c = self.truth(term, ty)
                return self.wrap(
                    binds, f'if {c} then None else\n{go()}')
            binds, term, ty = self.ex(t, env)
            c = self.truth(term, ty)
            return self.wrap(binds, f'if {c} then\n{go()}\nelse None')
        if isinstance(s, ast.Assign):
            if len(s.targets) != 1 or not isinstance(s.targets[0], ast.Name):
                raise Refuse(f'assignment target: {_src(s)}')
            x = s.targets[0].id
            if x in self.cur_mod.charconsts or x in self.cur_mod.defs \
                    or x in self.cur_mod.aliases:
                raise Refuse(f'{x} shadows a module-level name')
            if x in env and env[x].ty == 'ctx':
                raise Refuse(f'{x} (context) reassigned')
            v = s.value
            if isinstance(v, ast.GeneratorExp):
                if not self.straight:
                    raise Refuse('generator variable in branching code')
                b = Binding(None, 'gen', gen=(v, dict(env)))
                self.genvars.append(b)
                self.note('a generator bound to a name is expanded where it '
                          'is consumed (exactly once)')
                e2 = dict(env)
                e2[x] = b
                return go(e2)
            binds, term, ty = self.ex(v, env)
            cx = self.coq_ident(x)
            self.check_clash(cx, x, env)
            e2 = dict(env)
            e2[x] = Binding(cx, ty)
            body = self.block(rest, e2, k)
            if binds and binds[-1][0] == term:
                # name the last raising call by the assigned variable
                binds = binds[:-1] + [(cx, binds[-1][1])]
                return self.wrap(binds, body)
            return self.wrap(binds, f'let {cx} := {term} in\n{body}')
        if isinstance(s, ast.Expr):
            c = s.value
            if isinstance(c, ast.Call) and isinstance(c.func, ast.Attribute) \
                    and isinstance(c.func.value, ast.Name) \
                    and not c.keywords and len(c.args) == 1:
                x, meth = c.func.value.id, c.func.attr
                b = env.get(x)
                if b is not None and b.ty == 'set' and meth == 'add':
                    binds, term, ty = self.ex(c.args[0], env)
                    if ty != 'str':
                        raise Refuse(f'{_src(s)}: element is {ty}')
                    self.mutation(x, b)
                    e2 = dict(env)
                    e2[x] = Binding(b.coq, 'set')
                    return self.wrap(
                        binds, f'let {b.coq} := set_add String.eqb '
                        f'{self.par(term)} {b.coq} in\n'
                        + self.block(rest, e2, k))
                if b is not None and b.ty == 'dict' and meth == 'update':
                    binds, term, ty = self.ex(c.args[0], env)
                    if ty != 'dict':
                        raise Refuse(f'{_src(s)}: argument is {ty}')
                    self.mutation(x, b)
                    e2 = dict(env)
                    e2[x] = Binding(b.coq, 'dict')
                    return self.wrap(
                        binds, f'let {b.coq} := dict_update String.eqb '
                        f'{b.coq} {self.par(term)} in\n'
                        + self.block(rest, e2, k))
            raise Refuse(f'statement: {_src(s)}')
        if isinstance(s, ast.If):
            binds, term, ty = self.ex(s.test, env)
            c = self.truth(term, ty)
            self.dup = getattr(self, 'dup', 0) + (1 if rest else 0)
            if self.dup > 6:
                raise Refuse('too many sequential conditionals')
            k2 = lambda e: self.block(rest, e, k)
            a = self.block(s.body, env, k2)
            b = self.block(s.orelse, env, k2)
            return self.wrap(binds, f'if {c} then\n{a}\nelse\n{b}')
        if isinstance(s, ast.For):
            return self.for_stmt(s, rest, env, k)
        raise Refuse(f'statement: {type(s).__name__}: {_src(s)[:60]}')

    def mutation(self, x, b):
        if self.param_bindings.get(x) is b or any(
                pb.coq == b.coq for pb in self.param_bindings.values()
                if pb.coq):
            if x in self.param_bindings:
                self.note(f'{self.cur.name}: the in-place update of the '
                          f'argument `{x}` is a rebinding here (the effect '
                          'on the caller\'s object is not modelled)')

    def check_clash(self, cx, x, env):
        for y, b in env.items():
            if y != x and b.coq == cx:
                raise Refuse(f'names {x} and {y} collide')

    def assigned(self, stmts):
        out = []
        for s in stmts:
            for n in ast.walk(s):
                if isinstance(n, ast.Assign):
                    for t in n.targets:
                        if isinstance(t, ast.Name) and t.id not in out:
                            out.append(t.id)
                        elif not isinstance(t, ast.Name):
                            raise Refuse(f'assignment target: {_src(n)}')
                elif isinstance(n, (ast.AugAssign, ast.AnnAssign)):
                    raise Refuse(f'statement: {_src(n)}')
                elif isinstance(n, ast.Expr) and isinstance(
                        n.value, ast.Call) and isinstance(
                            n.value.func, ast.Attribute) and isinstance(
                                n.value.func.value, ast.Name) \
                        and n.value.func.attr in ('add', 'update'):
                    if n.value.func.value.id not in out:
                        out.append(n.value.func.value.id)
        return out

    def for_stmt(self, s, rest, env, k):
        if s.orelse or not isinstance(s.target, ast.Name):
            raise Refuse(f'for statement: {_src(s)[:60]}')
        if not self.partial_mode:
            # a loop is always translated in the option monad
            self.raised = True
            raise Refuse('internal: loop in a total function')
        self.raised = True
        binds, it, ity = self.ex(s.iter, env)
        if ity not in ('set', 'list'):
            raise Refuse(f'for over {ity}')
        x = s.target.id
        cx = self.coq_ident(x)
        self.check_clash(cx, x, env)
        asg = [n for n in self.assigned(s.body)]
        carried = [n for n in asg if n in env]
        local = [n for n in asg if n not in env]
        if x in asg or not carried:
            raise Refuse('for loop: nothing carried / loop variable assigned')
        for n in carried:
            if env[n].ty in ('ctx', 'gen'):
                raise Refuse(f'for loop updates {n}')
        pat = self.tup([env[n].coq for n in carried])
        e2 = dict(env)
        e2[x] = Binding(cx, ELEM[ity])

        def kbody(e):
            for n in carried:
                if e[n].ty != env[n].ty:
                    raise Refuse(f'{n} changes type in the loop')
            return 'Some ' + self.par(self.tup([e[n].coq for n in carried]))
        self.in_loop = getattr(self, 'in_loop', 0) + 1
        try:
            body = self.block(s.body, e2, kbody)
        finally:
            self.in_loop -= 1
        e3 = dict(env)
        for n in carried:
            e3[n] = Binding(env[n].coq, env[n].ty)
        for n in local + [x]:
            e3.pop(n, None)       # not visible after the loop (refused)
        after = self.block(rest, e3, k)
        return self.wrap(binds, (
            f'match fold_left (fun acc {cx} =>\n'
            f'  match acc with\n  | None => None\n  | Some {pat} =>\n{body}\n'
            f'  end) {self.par(it)} (Some {self.par(pat)}) with\n'
            f'| None => None\n| Some {pat} =>\n{after}\nend'))

    @staticmethod
    def tup(xs):
        return xs[0] if len(xs) == 1 else '(' + ', '.join(xs) + ')'

    @staticmethod
    def par(t):
        t = t.strip()
        if t.startswith('(') or all(c.isalnum() or c in "_'." for c in t) \
                or t == '[]':
            return t
        return f'({t})'

    def truth(self, term, ty):
        if ty == 'bool':
            return term
        if ty in ('set', 'list', 'dict'):
            return f'nonempty {self.par(term)}'
        raise Refuse(f'truth value of a {ty}')

    # ---------------------------------------------------------- expressions
    def body_ex(self, e, env):
        """`ex` for the body of a comprehension (evaluated once per
        element)."""
        self.depth = getattr(self, 'depth', 0) + 1
        try:
            return self.ex(e, env)
        finally:
            self.depth -= 1

    def ex(self, e, env):
        """-> (binds, term, type); binds = [(variable, option-valued term)]
        to be matched, in evaluation order, around the use of `term`."""
        if isinstance(e, ast.Name):
            if e.id in env:
                b = env[e.id]
                if b.ty == 'gen':
                    raise Refuse(f'generator {e.id} used as a value')
                if b.ty == 'ctx':
                    raise Refuse(f'context {e.id} used as a value')
                return [], b.coq, b.ty
            raise Refuse(f'unknown name {e.id}')
        if isinstance(e, ast.Constant):
            if e.value is True:
                return [], 'true', 'bool'
            if e.value is False:
                return [], 'false', 'bool'
            raise Refuse(f'constant {e.value!r}')
        if isinstance(e, ast.Tuple):
            binds, terms, tys = [], [], []
            for x in e.elts:
                b, t, ty = self.ex(x, env)
                binds += b
                terms.append(t)
                tys.append(ty)
            return binds, '(' + ', '.join(terms) + ')', tuple(tys)
        if isinstance(e, ast.UnaryOp) and isinstance(e.op, ast.Not):
            b, t, ty = self.ex(e.operand, env)
            return b, f'negb {self.par(self.truth(t, ty))}', 'bool'
        if isinstance(e, ast.BoolOp):
            op = '&&' if isinstance(e.op, ast.And) else '||'
            binds, terms = [], []
            for i, x in enumerate(e.values):
                b, t, ty = self.ex(x, env)
                if ty != 'bool':
                    raise Refuse(f'{_src(e)}: operand is {ty}')
                if b and i > 0:
                    raise Refuse('an operand that may raise under a '
                                 f'short-circuit operator: {_src(e)}')
                binds += b
                terms.append(self.par(t))
            return binds, '(' + f' {op} '.join(terms) + ')', 'bool'
        if isinstance(e, ast.Compare):
            return self.compare(e, env)
        if isinstance(e, ast.BinOp):
            return self.binop(e, env)
        if isinstance(e, ast.Subscript):
            b, t, ty = self.ex(e.value, env)
            sl = e.slice
            if ty == 'str' and isinstance(sl, ast.Slice) and sl.lower is None \
                    and sl.step is None and self.is_minus_one(sl.upper):
                return b, f'Prime.str_removelast {self.par(t)}', 'str'
            raise Refuse(f'subscript {_src(e)}')
        if isinstance(e, ast.Attribute):
            if e.attr == 'support' and isinstance(e.value, ast.Name) \
                    and e.value.id in env and env[e.value.id].ty == 'bdd':
                if not self.cur_mod.takes_ctx:
                    raise Refuse('support outside a context')
                self.note('`u.support` (the bit-level support dd reports) is '
                          'read at the level of identifiers, as '
                          'fol.support(u): a bit is primed iff its variable '
                          'is (L3Context/Naming.v; compared with the real '
                          'bit names by the correspondence)')
                return self.bind(f'ctx_support t {env[e.value.id].coq}', 'set')
            raise Refuse(f'attribute {_src(e)}')
        if isinstance(e, ast.Call):
            return self.call(e, env)
        if isinstance(e, (ast.SetComp, ast.ListComp, ast.DictComp)):
            return self.comp(e, env)
        raise Refuse(f'expression {type(e).__name__}: {_src(e)[:60]}')

    def bind(self, term, ty):
        self.raised = True
        if not self.partial_mode:
            raise Refuse('internal: raising call in a total function')
        v = self.fresh()
        return [(v, term)], v, ty

    @staticmethod
    def is_minus_one(n):
        return (isinstance(n, ast.UnaryOp) and isinstance(n.op, ast.USub)
                and isinstance(n.operand, ast.Constant)
                and n.operand.value == 1 and n.operand.value is not True)

    def charconst(self, n):
        """A one-character string: module constant or literal -> ascii term."""
        if isinstance(n, ast.Name) and n.id in self.cur_mod.charconsts:
            if n.id in self.cur_mod.ambiguous:
                raise Refuse(f'constant {n.id} is bound more than once')
            k = (self.cur_mod.key, n.id)
            if k not in self.used_consts:
                self.used_consts.append(k)
            return self.cur_mod.prefix + n.id
        if isinstance(n, ast.Constant) and isinstance(n.value, str) \
                and len(n.value) == 1:
            return char_literal(n.value)
        return None

    def compare(self, e, env):
        if len(e.ops) != 1:
            raise Refuse(f'chained comparison {_src(e)}')
        op, l, r = e.ops[0], e.left, e.comparators[0]
        if isinstance(op, (ast.In, ast.NotIn)):
            bl, tl, tyl = self.ex(l, env)
            if tyl != 'str':
                raise Refuse(f'{_src(e)}: member is {tyl}')
            if isinstance(r, ast.Attribute) and r.attr == 'vars' \
                    and isinstance(r.value, ast.Name) \
                    and r.value.id in env and env[r.value.id].ty == 'ctx':
                t = f'Prime.declared t {self.par(tl)}'
                binds = bl
            else:
                br, tr, tyr = self.ex(r, env)
                binds = bl + br
                if tyr in ('set', 'list'):
                    t = f'mem String.eqb {self.par(tl)} {self.par(tr)}'
                elif tyr == 'dict':
                    t = (f'mem String.eqb {self.par(tl)} '
                         f'(map fst {self.par(tr)})')
                else:
                    raise Refuse(f'{_src(e)}: container is {tyr}')
            if isinstance(op, ast.NotIn):
                t = f'negb ({t})'
            return binds, t, 'bool'
        if isinstance(op, (ast.Eq, ast.NotEq)):
            # s[-1] == C
            for a, b in ((l, r), (r, l)):
                c = self.charconst(b)
                if c is not None and isinstance(a, ast.Subscript) \
                        and self.is_minus_one(a.slice):
                    ba, ta, tya = self.ex(a.value, env)
                    if tya != 'str':
                        raise Refuse(f'{_src(e)}: subscripted {tya}')
                    self.note('`s[-1] == c` is false for the empty string '
                              '(Python raises IndexError; identifiers are '
                              'non-empty)')
                    t = f'last_char_is {self.par(ta)} {c}'
                    if isinstance(op, ast.NotEq):
                        t = f'negb ({t})'
                    return ba, t, 'bool'
            bl, tl, tyl = self.ex(l, env)
            br, tr, tyr = self.ex(r, env)
            if tyl == tyr == 'set':
                t = f'set_eqb String.eqb {self.par(tl)} {self.par(tr)}'
            elif tyl == tyr == 'str':
                t = f'String.eqb {self.par(tl)} {self.par(tr)}'
            elif tyl == tyr == 'bool':
                t = f'Bool.eqb {self.par(tl)} {self.par(tr)}'
            else:
                raise Refuse(f'{_src(e)}: comparing {tyl} with {tyr}')
            if isinstance(op, ast.NotEq):
                t = f'negb ({t})'
            return bl + br, t, 'bool'
        raise Refuse(f'comparison {_src(e)}')

    def binop(self, e, env):
        if isinstance(e.op, ast.Add):
            c = self.charconst(e.right)
            bl, tl, tyl = self.ex(e.left, env)
            if c is None or tyl != 'str':
                raise Refuse(f'{_src(e)}')
            return bl, f'({tl} ++ String {c} EmptyString)%string', 'str'
        bl, tl, tyl = self.ex(e.left, env)
        br, tr, tyr = self.ex(e.right, env)
        if tyl == tyr == 'set':
            a, b = self.par(tl), self.par(tr)
            if isinstance(e.op, ast.BitOr):
                return bl + br, f'set_union String.eqb {a} {b}', 'set'
            if isinstance(e.op, ast.Sub):
                return bl + br, f'set_diff {a} {b}', 'set'
            if isinstance(e.op, ast.BitAnd):
                return bl + br, f'set_inter {a} {b}', 'set'
        raise Refuse(f'operator in {_src(e)} on {tyl}, {tyr}')

    # ---------------------------------------------------------------- calls
    def call(self, e, env):
        if e.keywords:
            raise Refuse(f'keyword arguments: {_src(e)}')
        f = e.func
        name = _dotted(f)
        # set()
        if name == 'set' and not e.args and 'set' not in env:
            return [], '[]', 'set'
        if name in ('any', 'all') and len(e.args) == 1 and name not in env:
            return self.anyall(name, e.args[0], env)
        # set().union(*g)
        if isinstance(f, ast.Attribute) and f.attr == 'union' \
                and isinstance(f.value, ast.Call) \
                and _dotted(f.value.func) == 'set' and not f.value.args \
                and not f.value.keywords and len(e.args) == 1 \
                and isinstance(e.args[0], ast.Starred):
            b, t, ty = self.gen_as_list(e.args[0].value, env, 'set')
            return b, f'union_all {self.par(t)}', 'set'
        if any(isinstance(a, ast.Starred) for a in e.args):
            raise Refuse(f'unpacking: {_src(e)}')
        # methods
        if isinstance(f, ast.Attribute) and isinstance(f.value, ast.Name) \
                and f.value.id in env:
            recv = env[f.value.id]
            if recv.ty == 'ctx':
                return self.ctx_call(f.attr, e, env)
        # methods of a set-valued expression
        if isinstance(f, ast.Attribute) and len(e.args) == 1 and f.attr in (
                'issubset', 'intersection', 'union', 'difference') \
                and not (isinstance(f.value, ast.Name)
                         and f.value.id not in env):
            br, tr, tyr = self.ex(f.value, env)
            if tyr != 'set':
                raise Refuse(f'method {_src(e)[:60]} of a {tyr}')
            ba, ta, tya = self.ex(e.args[0], env)
            if tya == 'dict':
                ta = f'(map fst {self.par(ta)})'
            elif tya not in ('set', 'list'):
                raise Refuse(f'{_src(e)[:60]}: argument is {tya}')
            a, b = self.par(tr), self.par(ta)
            if f.attr == 'issubset':
                return br + ba, f'subset String.eqb {a} {b}', 'bool'
            if f.attr == 'intersection':
                return br + ba, f'set_inter {a} {b}', 'set'
            if f.attr == 'difference':
                return br + ba, f'set_diff {a} {b}', 'set'
            return br + ba, f'set_union String.eqb {a} {b}', 'set'
        # functions of an imported, translated module:  stx.prime(x)
        if isinstance(f, ast.Attribute) and isinstance(f.value, ast.Name) \
                and f.value.id in self.cur_mod.aliases \
                and f.value.id not in env:
            dotted = self.cur_mod.aliases[f.value.id]
            if f.value.id in self.cur_mod.ambiguous:
                raise Refuse(f'{f.value.id} is bound more than once')
            if dotted not in self.by_import:
                raise Refuse(f'call into untranslated module {dotted}')
            return self.fn_call(self.by_import[dotted], f.attr, e, env)
        if isinstance(f, ast.Name) and f.id not in env \
                and f.id in self.cur_mod.defs:
            return self.fn_call(self.cur_mod.key, f.id, e, env)
        raise Refuse(f'call {_src(e)[:60]}')

    def ctx_call(self, attr, e, env):
        args = e.args
        if attr == 'support' and len(args) == 1:
            b, t, ty = self.ex(args[0], env)
            if ty != 'bdd':
                raise Refuse(f'{_src(e)}: argument is {ty}')
            b2, v, _ = self.bind(f'ctx_support t {self.par(t)}', 'set')
            return b + b2, v, 'set'
        if attr == 'let' and len(args) == 2:
            bd, td, tyd = self.ex(args[0], env)
            bu, tu, tyu = self.ex(args[1], env)
            if tyd != 'dict' or tyu != 'bdd':
                raise Refuse(f'{_src(e)}: arguments are {tyd}, {tyu}')
            b2, v, _ = self.bind(
                f'ctx_let_vars t {self.par(td)} {self.par(tu)}', 'bdd')
            return bd + bu + b2, v, 'bdd'
        if attr == 'vars_of_players' and len(args) == 1 \
                and isinstance(args[0], ast.List):
            binds, terms = [], []
            for x in args[0].elts:
                b, t, ty = self.ex(x, env)
                if ty != 'str':
                    raise Refuse(f'{_src(e)}: player is {ty}')
                binds += b
                terms.append(t)
            self.cur.needs_vop = True
            self.note('aut.vars_of_players is an uninterpreted function '
                      'parameter (the automaton\'s varlist is not part of '
                      'the table model)')
            return binds, f'vars_of_players [{"; ".join(terms)}]', 'set'
        raise Refuse(f'context method {_src(e)[:60]}')

    def fn_call(self, key, name, e, env):
        caller, cmod = self.cur, self.cur_mod
        saved = (self.partial_mode, self.raised, self.genvars, self.straight,
                 self.param_bindings, getattr(self, 'in_loop', 0),
                 getattr(self, 'dup', 0))
        self.in_loop = 0
        self.dup = 0
        try:
            fn = self.translate(key, name)
        finally:
            self.cur, self.cur_mod = caller, cmod
            (self.partial_mode, self.raised, self.genvars, self.straight,
             self.param_bindings, self.in_loop, self.dup) = saved
        if len(e.args) != len(fn.param_types):
            raise Refuse(f'{_src(e)}: arity')
        binds, terms = [], []
        for a, (p, ty) in zip(e.args, fn.param_types):
            if ty == 'ctx':
                if not (isinstance(a, ast.Name) and a.id in env
                        and env[a.id].ty == 'ctx'):
                    raise Refuse(f'{_src(e)}: {p} is not the context')
                continue
            b, t, tya = self.ex(a, env)
            if tya != ty and not (ty == 'list' and tya == 'set'):
                raise Refuse(f'{_src(e)}: {p} expects {ty}, got {tya}')
            binds += b
            terms.append(self.par(t))
        head = fn.coq_name
        if self.modules[key].takes_ctx:
            if not cmod.takes_ctx:
                raise Refuse(f'{_src(e)}: no context here')
            head += ' t'
        if fn.needs_vop:
            caller.needs_vop = True
            head += ' vars_of_players'
        term = ' '.join([head] + terms)
        if fn.partial:
            b2, v, _ = self.bind(term, fn.ret)
            return binds + b2, v, fn.ret
        return binds, term, fn.ret

    # -------------------------------------------------------- comprehensions
    def clause(self, node, env):
        """The single `for` clause of a comprehension ->
        (binds of the domain, domain term, domain type, lambda parameter,
         prefix of lets, env of the body, condition or None)"""
        if len(node.generators) != 1:
            raise Refuse(f'nested comprehension: {_src(node)[:60]}')
        g = node.generators[0]
        if g.is_async:
            raise Refuse('async comprehension')
        it = g.iter
        if isinstance(it, ast.Call) and isinstance(it.func, ast.Attribute) \
                and it.func.attr == 'items' and not it.args \
                and not it.keywords:
            b, t, ty = self.ex(it.func.value, env)
            if ty != 'dict':
                raise Refuse(f'{_src(it)}: not a dict')
            if not (isinstance(g.target, ast.Tuple) and len(g.target.elts) == 2
                    and all(isinstance(x, ast.Name) for x in g.target.elts)):
                raise Refuse(f'target of {_src(it)}')
            kx, vx = [x.id for x in g.target.elts]
            if kx == vx:
                raise Refuse('repeated target')
            p = self.fresh()
            e2 = dict(env)
            ck, cv = self.coq_ident(kx), self.coq_ident(vx)
            self.check_clash(ck, kx, env)
            self.check_clash(cv, vx, env)
            e2[kx] = Binding(ck, 'str')
            e2[vx] = Binding(cv, 'str')
            prefix = f'let {ck} := fst {p} in let {cv} := snd {p} in '
            dty, target = 'items', None
        else:
            b, t, ty = self.ex(it, env)
            if ty not in ELEM:
                raise Refuse(f'iteration over {ty}: {_src(it)[:60]}')
            if not isinstance(g.target, ast.Name):
                raise Refuse(f'comprehension target {_src(g.target)}')
            x = g.target.id
            p = self.coq_ident(x)
            self.check_clash(p, x, env)
            e2 = dict(env)
            e2[x] = Binding(p, ELEM[ty])
            prefix, dty, target = '', ty, x
        cond = None
        if len(g.ifs) > 1:
            raise Refuse('several conditions in a comprehension')
        if g.ifs:
            cond = g.ifs[0]
        return b, t, dty, p, prefix, e2, cond, target

    def lam(self, p, prefix, binds, term, monadic):
        if monadic:
            return f'(fun {p} => {prefix}{self.wrap(binds, "Some " + self.par(term))})'
        if binds:
            raise Refuse('internal: binds in a pure lambda')
        return f'(fun {p} => {prefix}{term})'

    def comp(self, node, env):
        b, dom, dty, p, prefix, e2, cond, target = self.clause(node, env)
        dom = self.par(dom)
        cl = None
        if cond is not None:
            cb, ct, cty = self.body_ex(cond, e2)
            ct = self.truth(ct, cty)
            cl = (cb, ct)
        if isinstance(node, ast.DictComp):
            kb, kt, kty = self.body_ex(node.key, e2)
            vb, vt, vty = self.body_ex(node.value, e2)
            if kty != 'str' or vty != 'str':
                raise Refuse(f'{_src(node)[:60]}: entries {kty}: {vty}')
            eb, et = kb + vb, f'({kt}, {vt})'
            identity = False
            distinct = (isinstance(node.key, ast.Name)
                        and node.key.id == target and dty == 'set')
            out = 'dict'
        else:
            eb, et, ety = self.body_ex(node.elt, e2)
            if ety != 'str':
                raise Refuse(f'{_src(node)[:60]}: elements are {ety}')
            identity = isinstance(node.elt, ast.Name) and node.elt.id == target
            distinct = identity and dty == 'set'
            out = 'set' if isinstance(node, ast.SetComp) else 'list'
        binds = list(b)
        if identity:
            if cl is None:
                res = dom
            elif not cl[0]:
                res = f'filter {self.lam(p, prefix, [], cl[1], False)} {dom}'
            else:
                b2, res, _ = self.bind(
                    f'Prime.filter_opt {self.lam(p, prefix, cl[0], cl[1], True)} '
                    f'{dom}', out)
                binds += b2
        elif cl is None:
            if not eb:
                res = f'map {self.lam(p, prefix, [], et, False)} {dom}'
            else:
                b2, res, _ = self.bind(
                    f'map_opt {self.lam(p, prefix, eb, et, True)} {dom}', out)
                binds += b2
        else:
            b2, res, _ = self.bind(
                f'comp_opt {self.lam(p, prefix, cl[0], cl[1], True)} '
                f'{self.lam(p, prefix, eb, et, True)} {dom}', out)
            binds += b2
        if not distinct:
            if out == 'set':
                res = f'set_of_list {self.par(res)}'
            elif out == 'dict':
                res = f'dict_of_list {self.par(res)}'
        return binds, res, out

    def resolve_gen(self, g, env):
        """A generator expression, or a name bound to one."""
        if isinstance(g, ast.GeneratorExp):
            return g, env
        if isinstance(g, ast.Name) and g.id in env and env[g.id].ty == 'gen':
            if getattr(self, 'depth', 0):
                raise Refuse(f'generator {g.id} consumed inside a '
                             'comprehension')
            b = env[g.id]
            b.uses += 1
            node, denv = b.gen
            # names are looked up when the generator runs: they must not
            # have been rebound since it was created
            for n in ast.walk(node):
                if isinstance(n, ast.Name) and n.id in denv \
                        and env.get(n.id) is not denv[n.id]:
                    raise Refuse(f'{n.id} rebound between the creation and '
                                 'the consumption of a generator')
            return node, denv
        raise Refuse(f'not a generator expression: {_src(g)[:60]}')

    def anyall(self, which, g, env):
        node, genv = self.resolve_gen(g, env)
        b, dom, dty, p, prefix, e2, cond, target = self.clause(node, genv)
        if cond is not None:
            raise Refuse(f'condition inside {which}(...)')
        eb, et, ety = self.body_ex(node.elt, e2)
        et = self.truth(et, ety)
        dom = self.par(dom)
        if not eb:
            f = 'existsb' if which == 'any' else 'forallb'
            return (b, f'{f} {self.lam(p, prefix, [], et, False)} {dom}',
                    'bool')
        f = 'any_opt' if which == 'any' else 'all_opt'
        b2, v, _ = self.bind(
            f'{f} {self.lam(p, prefix, eb, et, True)} {dom}', 'bool')
        return b + b2, v, 'bool'

    def gen_as_list(self, g, env, want):
        node, genv = self.resolve_gen(g, env)
        b, dom, dty, p, prefix, e2, cond, target = self.clause(node, genv)
        if cond is not None:
            raise Refuse('condition inside an unpacked generator')
        eb, et, ety = self.body_ex(node.elt, e2)
        if ety != want:
            raise Refuse(f'{_src(node)[:60]}: elements are {ety}')
        dom = self.par(dom)
        if not eb:
            return b, f'map {self.lam(p, prefix, [], et, False)} {dom}', 'sets'
        b2, v, _ = self.bind(
            f'map_opt {self.lam(p, prefix, eb, et, True)} {dom}', 'sets')
        return b + b2, v, 'sets'


def char_literal(c):
    if not (32 <= ord(c) < 127):
        raise Refuse(f'character constant {c!r}')
    return '"""" %char'.replace(' ', '') if c == '"' else f'"{c}"%char'


# ---------------------------------------------------------------------------
PRIME_PARAMS = {'u': 'bdd', 'action': 'bdd', 'fol': 'ctx', 'aut': 'ctx',
                'name': 'str', 'player': 'str', 'vrs': 'set', 'let': 'dict',
                'nodes': 'bdds'}
SYNTAX_PARAMS = {'var': 'str', 'vrs': 'list'}

PRIME_FUNCS = [
    'is_variable', 'is_constant', 'unprimed_support', 'primed_support',
    'split_support', 'rigid_support', 'flexible_support', 'vars_in_support',
    'is_state_predicate', 'is_proper_action', 'is_primed_state_predicate',
    'is_action_of_player', 'support_issubset', 'prime', 'unprime',
    'rename_variables', 'joint_support']
SYNTAX_FUNCS = ['isprimed', 'prime', 'unprime', 'prime_vars', 'unprime_vars']
# not translated: print_support (output only), pairwise_disjoint
# (itertools.tee / len / sum over arbitrary iterables) and pick
# (next(iter(c), None)) -- generic container helpers outside C18


def translate(repo):
    """-> (Gallina text of the definitions, notes)"""
    import os
    tr = Translator()
    tr.add_module('stx', 'omega.logic.syntax',
                  os.path.join(repo, 'omega/logic/syntax.py'), 'stx_', False,
                  SYNTAX_PARAMS)
    tr.add_module('prime', 'omega.symbolic.prime',
                  os.path.join(repo, 'omega/symbolic/prime.py'), '', True,
                  PRIME_PARAMS)
    for f in SYNTAX_FUNCS:
        tr.translate('stx', f)
    for f in PRIME_FUNCS:
        tr.translate('prime', f)
    consts = []
    for key, name in tr.used_consts:
        m = tr.modules[key]
        consts.append(
            f'(* {m.path.split("omega/", 1)[-1]} : {name} = '
            f'{m.charconsts[name]!r} *)\n'
            f'Definition {m.prefix}{name} : ascii := '
            f'{char_literal(m.charconsts[name])}.')
    text = '\n\n'.join(consts + [fn.text for fn in tr.order]) + '\n'
    return text, tr.notes


if __name__ == '__main__':
    import sys
    t, notes = translate(sys.argv[1] if len(sys.argv) > 1 else '/repo')
    print(t)
    for n in notes:
        print(f'(* note: {n} *)')
