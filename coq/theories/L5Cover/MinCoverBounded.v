(* L5Cover / MinCoverBounded: minimality of the model of cover.minimize on
   the finite domains named in the quantifier of C09, by computation
   (vm_compute over the whole domain; the bound is in each statement).
   This file: ALL 2^8 x 2^8 pairs (f, care) over three two-valued variables,
   pick = first element.  See MinCoverBounded3L.v (pick = last element) and
   MinCoverBounded4.v (four two-valued variables with care = TRUE; all
   subsets of the 3x3 integer grid). *)
From Coq Require Import List ZArith NArith Bool Lia.
Import ListNotations.
From Omega Require Import L5Cover.Boxes L5Cover.BoxesProofs L5Cover.MinCover
  L5Cover.MinCoverProofs.
Open Scope Z_scope.

(* truth tables as bit masks: bit number of a point = its coordinates read as
   a binary numeral *)
Definition pt_index (p : point) : N :=
  fold_left (fun acc x => (2 * acc + Z.to_N x)%N) p 0%N.
Definition fun_of_mask (m : N) (p : point) : bool := N.testbit m (pt_index p).

Fixpoint nrange (n : nat) (lo : N) : list N :=
  match n with O => [] | S k => lo :: nrange k (lo + 1)%N end.

Lemma nrange_In n lo x : (lo <= x < lo + N.of_nat n)%N -> In x (nrange n lo).
Proof.
  revert lo. induction n as [|n IH]; intros lo H; [lia|].
  cbn [nrange]. destruct (N.eq_dec x lo) as [->|Hne]; [left; reflexivity|].
  right. apply IH. lia.
Qed.

Definition ok_inst (rs : ranges) (pick : list box -> option box)
  (f care : point -> bool) : bool :=
  match minimize rs pick f care with
  | Some K => is_min_prime_cover_b rs f care K
  | None => false
  end.

Lemma ok_inst_correct rs pick f care :
  ok_inst rs pick f care = true ->
  exists K, minimize rs pick f care = Some K /\ min_prime_cover rs f care K.
Proof.
  unfold ok_inst. destruct (minimize rs pick f care) as [K|]; [|discriminate].
  intros H. exists K. split; [reflexivity|].
  apply is_min_prime_cover_b_correct, H.
Qed.

Definition rs3 : ranges := [(0, 1); (0, 1); (0, 1)].

Definition all3 (pick : list box -> option box) : bool :=
  allb (fun cm => allb (fun fm =>
          ok_inst rs3 pick (fun_of_mask fm) (fun_of_mask cm))
        (nrange 256 0%N)) (nrange 256 0%N).

Lemma all3_correct pick : all3 pick = true ->
  forall fm cm, (fm < 256)%N -> (cm < 256)%N ->
  exists K, minimize rs3 pick (fun_of_mask fm) (fun_of_mask cm) = Some K /\
            min_prime_cover rs3 (fun_of_mask fm) (fun_of_mask cm) K.
Proof.
  unfold all3. rewrite allb_forallb, forallb_forall. intros H fm cm Hf Hc.
  specialize (H cm (nrange_In 256 0%N cm ltac:(cbn; lia))).
  rewrite allb_forallb, forallb_forall in H.
  apply ok_inst_correct, H, nrange_In. cbn. lia.
Qed.

Lemma all3_first : all3 pick_first = true.
Proof. vm_compute. reflexivity. Qed.

(* minimality on the whole 3-variable domain, pick = first element *)
Theorem minimize_min_bounded_3_first :
  forall fm cm, (fm < 256)%N -> (cm < 256)%N ->
  exists K, minimize rs3 pick_first (fun_of_mask fm) (fun_of_mask cm) = Some K /\
            min_prime_cover rs3 (fun_of_mask fm) (fun_of_mask cm) K.
Proof. exact (all3_correct pick_first all3_first). Qed.
