(* L6 Syntax — the GR(1) fragment accepted by omega.gr1.split_gr1, written
   as data (a conjunction, in any nesting of /\, of initial predicates,
   [] safety formulas and generalized Streett pairs) and as a predicate on
   conjuncts.  Specification file: definitions only. *)
From Coq Require Import List String Bool.
From Omega Require Import L6Syntax.Tokens L6Syntax.Gr1Split.
Import ListNotations.
Local Open Scope string_scope.
Local Open Scope list_scope.

(* a binary nesting with leaves in A: "any nesting of op" *)
Inductive nest (A : Type) :=
| Leaf (a : A)
| Node (l r : nest A).
Arguments Leaf {A} a.
Arguments Node {A} l r.

Fixpoint leaves {A} (n : nest A) : list A :=
  match n with
  | Leaf a => [a]
  | Node l r => leaves l ++ leaves r
  end.
Fixpoint nmap {A B} (f : A -> B) (n : nest A) : nest B :=
  match n with
  | Leaf a => Leaf (f a)
  | Node l r => Node (nmap f l) (nmap f r)
  end.
Fixpoint build (op : string) (n : nest tree) : tree :=
  match n with
  | Leaf t => t
  | Node l r => Bin CBinary op (build op l) (build op r)
  end.

(* state predicate: no [] , <> , next;  action: no [] , <> *)
Definition is_state (t : tree) : Prop := has_op ["[]"; "<>"; "X"] t = false.
Definition is_action (t : tree) : Prop := has_op ["[]"; "<>"] t = false.

Definition rec_tree (r : tree) : tree := Un "[]" (Un "<>" r).
Definition pers_tree (p : tree) : tree := Un "<>" (Un "[]" p).

(* a disjunct of a generalized Streett pair: <>[] p, or a conjunction (any
   nesting) of []<> r *)
Inductive disjunct :=
| DPers (p : tree)
| DRec (rs : nest tree).
Definition disjunct_tree (d : disjunct) : tree :=
  match d with
  | DPers p => pers_tree p
  | DRec rs => build "/\" (nmap rec_tree rs)
  end.
Definition disjunct_ok (d : disjunct) : Prop :=
  match d with
  | DPers p => is_state p
  | DRec rs => Forall is_state (leaves rs)
  end.
Definition disj_recs (d : disjunct) : list tree :=
  match d with DPers _ => [] | DRec rs => leaves rs end.
Definition disj_perss (d : disjunct) : list tree :=
  match d with DPers p => [p] | DRec _ => [] end.

(* a conjunct: initial predicate, [] action, or a disjunction (any nesting
   of \/) of disjuncts *)
Inductive conjunct :=
| CInit (v : tree)
| CSafe (a : tree)
| CLive (ds : nest disjunct).
Definition conjunct_tree (c : conjunct) : tree :=
  match c with
  | CInit v => v
  | CSafe a => Un "[]" a
  | CLive ds => build "\/" (nmap disjunct_tree ds)
  end.
Definition conjunct_ok (c : conjunct) : Prop :=
  match c with
  | CInit v => is_state v
  | CSafe a => is_action a
  | CLive ds => Forall disjunct_ok (leaves ds)
  end.
Definition live_rec (ds : nest disjunct) : list tree :=
  flat_map disj_recs (leaves ds).
Definition live_pers (ds : nest disjunct) : list tree :=
  flat_map disj_perss (leaves ds).

(* the four lists, conjunct by conjunct; a generalized Streett pair is only
   accepted while no persistence formula has been collected ("GR(1), not
   GR(k)") *)
Fixpoint expected (cs : list conjunct) (acc : gr1_parts) : option gr1_parts :=
  match cs with
  | [] => Some acc
  | CInit v :: r =>
      expected r (mkParts (g_init acc ++ [v]) (g_action acc)
                          (g_recurrence acc) (g_persistence acc))
  | CSafe a :: r =>
      expected r (mkParts (g_init acc) (g_action acc ++ [a])
                          (g_recurrence acc) (g_persistence acc))
  | CLive ds :: r =>
      match g_persistence acc with
      | [] => expected r (mkParts (g_init acc) (g_action acc)
                                  (g_recurrence acc ++ live_rec ds) (live_pers ds))
      | _ :: _ => None
      end
  end.

Definition empty_parts := mkParts [] [] [] [].

(* the lists one reads off the conjuncts *)
Definition inits (cs : list conjunct) : list tree :=
  flat_map (fun c => match c with CInit v => [v] | _ => [] end) cs.
Definition actions (cs : list conjunct) : list tree :=
  flat_map (fun c => match c with CSafe a => [a] | _ => [] end) cs.
Definition recurrences (cs : list conjunct) : list tree :=
  flat_map (fun c => match c with CLive ds => live_rec ds | _ => [] end) cs.
Definition persistences (cs : list conjunct) : list tree :=
  flat_map (fun c => match c with CLive ds => live_pers ds | _ => [] end) cs.

(* at most one generalized Streett pair contributes persistence formulas,
   and no pair follows it *)
Fixpoint order_ok (cs : list conjunct) : Prop :=
  match cs with
  | [] => True
  | CLive ds :: r =>
      match live_pers ds with
      | [] => order_ok r
      | _ :: _ => Forall (fun c => match c with CLive _ => False | _ => True end) r
      end
  | _ :: r => order_ok r
  end.

(* ---- the fragment as a predicate on an arbitrary conjunct (for the
   converse: what is accepted is in the fragment) ---- *)
Definition unary_app (op : string) (t x : tree) : Prop :=
  operator_of t = Some op /\ operands t = [x].

Definition rec_item (c : tree) : Prop :=
  exists w r, unary_app "[]" c w /\ unary_app "<>" w r /\ is_state r.
Definition live_disjunct (d : tree) : Prop :=
  (exists w p, unary_app "<>" d w /\ unary_app "[]" w p /\ is_state p)
  \/ ((is_op d "/\" = true \/ is_op d "[]" = true)
      /\ Forall rec_item (flatten_op "/\" d)).
Definition in_fragment (v : tree) : Prop :=
  is_state v
  \/ (exists a, unary_app "[]" v a /\ is_action a)
  \/ Forall live_disjunct (flatten_op "\/" v).
