(* Further structure of the iterates recorded by the GENERATED Rabin(1) solver,
   needed for "the synthesized action offers a step" (RabinNB3), beyond
   RabinIter1.rounds_ok:

     z_k  = z_{k-1} \/ (some y_{k,i})                    (covered)
     y_{k,i} <= cpre(y_{k,i})                            (the Y loop has converged)
     y_{k,i} <= last of every recorded attractor chain   (every attractor = Y)
     each chain element is inside  previous \/ cpre(previous) \/ goal,
       the element before the first being FALSE          (chain)

   proved by invariants of the translated loops (fuel >= number of
   valuations). *)
From Coq Require Import List Bool Arith Lia.
Import ListNotations.
From Omega Require Import L4.Arena L4.ArenaFacts L4.Kleene L4.AlgOrder L4.GameSpec L4.Mu L4.GR1Spec.
From OmegaGen Require Import FixpointGen Gr1Gen.
From OmegaGP Require Import FixpointProofs StreettProofs RabinProofs StreettNB2
  StreettIter1 StreettIter2 RabinClosure1 RabinIter1.

Section Chain.
Variables nc nx ny : nat.
Variables E S : bdd.
Variables moore plus_one : bool.
Local Notation inr := (inr nc nx ny).
Local Notation cp := (cpre_spec nx ny moore plus_one E S).

(* x adds to prev only states of cpre(prev) or of the goal *)
Definition link (goal prev x : bdd) : Prop :=
  forall s, inr s -> x s = true -> prev s = true \/ cp prev s = true \/ goal s = true.

Fixpoint chain (goal prev : bdd) (xr : list bdd) : Prop :=
  match xr with
  | [] => True
  | x :: r => link goal prev x /\ chain goal x r
  end.

Lemma chain_snoc goal xr : forall prev x,
  chain goal prev xr -> link goal (last xr prev) x -> chain goal prev (xr ++ [x]).
Proof.
  induction xr as [|a xr IH]; intros prev x Hc Hl; cbn [app chain] in *.
  - cbn [last] in Hl. split; [exact Hl|exact I].
  - destruct Hc as [Ha Hc]. split; [exact Ha|]. apply IH; [exact Hc|].
    rewrite last_cons_def in Hl. exact Hl.
Qed.

Lemma chain_split goal l1 : forall prev x l2,
  chain goal prev (l1 ++ x :: l2) -> link goal (last l1 prev) x.
Proof.
  induction l1 as [|a l1 IH]; intros prev x l2 Hc; cbn [app chain] in Hc.
  - cbn [last]. apply Hc.
  - destruct Hc as [_ Hc]. rewrite last_cons_def. apply (IH a x l2 Hc).
Qed.
End Chain.

Section Iter2.
Variables nc nx ny : nat.
Variables E S : bdd.
Variables holds goals : list bdd.
Variables moore plus_one : bool.
Variable fuel : nat.
Hypothesis Hfuel : NV nc nx ny <= fuel.
Hypothesis Sh : Forall spred holds.
Hypothesis Sg : Forall spred goals.

Local Notation le := (le nc nx ny).
Local Notation eqv := (eqv nc nx ny).
Local Notation inr := (inr nc nx ny).
Local Notation band := (Arena.band nc nx ny).
Local Notation bor := (Arena.bor nc nx ny).
Local Notation step := (FixpointGen.step nc nx ny moore plus_one).
Local Notation cp := (cpre_spec nx ny moore plus_one E S).
Local Notation ai := (Gr1Gen.attractor_inside nc nx ny E S moore plus_one).
Local Notation ci := (Gr1Gen.cycle_inside nc nx ny E S goals moore plus_one).
Local Notation solve := (Gr1Gen.solve_rabin_game nc nx ny E S holds goals moore plus_one).
Local Notation ci_op := (ci_op nc nx ny E S goals moore plus_one fuel).
Local Notation Kc' := (Kc' nc nx ny E S goals moore plus_one fuel).
Local Notation chain := (chain nc nx ny E S moore plus_one).
Local Notation link := (link nc nx ny E S moore plus_one).
Local Notation cbody := (cbody nc nx ny E S goals moore plus_one fuel).
Local Notation stepsp := (step_spred nc nx ny E S moore plus_one fuel).

(* ---- _attractor_inside: the recorded chain -------------------------------- *)
Lemma ai_chain inside goal :
  fst (ai fuel inside goal) = last (snd (ai fuel inside goal)) bfalse /\
  chain goal bfalse (snd (ai fuel inside goal)).
Proof.
  unfold Gr1Gen.attractor_inside. cbv zeta. rewrite fst2.
  apply (do_while_inv (fun c : bdd * list bdd =>
           fst c = last (snd c) bfalse /\ chain goal bfalse (snd c))).
  - cbn [fst snd last chain]. split; [reflexivity|exact I].
  - intros [x xr] [Hx Hc]. cbn [fst snd] in *.
    split; [rewrite last_last; reflexivity|].
    apply chain_snoc; [exact Hc|]. rewrite <- Hx.
    intros s Hs Hxs. rewrite bor_spec, band_spec, bor_spec, step_spec in Hxs.
    destruct (x s); [left; reflexivity|]. right. rewrite orb_false_r in Hxs.
    apply andb_true_iff in Hxs. destruct Hxs as [Hxs _].
    apply orb_true_iff in Hxs. exact Hxs.
Qed.

(* ---- _cycle_inside: at the exit of the Y loop ----------------------------- *)
Definition ci_nb (y : bdd) (xjr : list (list bdd)) : Prop :=
  (0 < length goals -> le y (cp y)) /\
  forall j xr goal, nth_error xjr j = Some xr -> nth_error goals j = Some goal ->
    le y (last xr bfalse) /\ chain goal bfalse xr.

Lemma ci_nb_holds z hold :
  spred hold -> ci_nb (fst (ci fuel z hold)) (snd (ci fuel z hold)).
Proof.
  intros Sho.
  destruct (ci_is_cbody nc nx ny E S goals moore plus_one fuel Hfuel Sg z hold Sho)
    as [c [Sc [Hci He]]].
  rewrite Hci. unfold RabinIter1.cbody. cbn [fst snd].
  set (g := bor (step fuel E S z) hold) in *.
  set (y := ci_op g c) in *.
  set (ins := band (step fuel E S c) g).
  assert (Sgg : spred g) by (apply (spred_bor nc nx ny); [apply stepsp|exact Sho]).
  assert (Sins : spred ins) by (apply (spred_band nc nx ny); [apply stepsp|exact Sgg]).
  (* y <= every attractor of the last pass *)
  assert (HyX : forall R, In R goals -> le y (fst (ai fuel ins R))).
  { intros R HR s Hs Hys. unfold y in Hys. rewrite ci_op_spec in Hys.
    apply andb_true_iff in Hys. destruct Hys as [_ Hk].
    unfold RabinProofs.Kc', big_and in Hk. rewrite forallb_forall in Hk.
    apply Hk. apply in_map_iff. exists R. auto. }
  assert (Hyc : le y c).
  { intros s Hs Hys. rewrite <- (He s Hs). exact Hys. }
  assert (Hcy : le c y).
  { intros s Hs Hcs. fold y in He. rewrite (He s Hs). exact Hcs. }
  split.
  - intros Hn. destruct (pos_length_in goals Hn) as [R HR].
    assert (SR : spred R) by (rewrite Forall_forall in Sg; apply Sg, HR).
    intros s Hs Hys.
    pose proof (HyX R HR s Hs Hys) as Hx.
    destruct (ai_x_facts nc nx ny E S moore plus_one fuel ins R Sins SR) as [_ [Hle _]].
    pose proof (Hle s Hs Hx) as Hi. unfold ins in Hi. rewrite band_spec, step_spec in Hi.
    apply andb_true_iff in Hi. destruct Hi as [Hi _].
    apply (cpre_spec_mono nc nx ny moore plus_one E S c y Hcy s Hs Hi).
  - intros j xr goal Hj Hg.
    rewrite (map_nth_error _ _ _ Hg) in Hj. injection Hj as <-.
    destruct (ai_chain ins goal) as [Hl Hc].
    split; [|exact Hc]. rewrite <- Hl. apply HyX. apply (nth_error_In _ _ Hg).
Qed.

(* ---- solve_rabin_game ---------------------------------------------------- *)
Definition round_nb (zp z : bdd) (yi : list bdd) (xijr : list (list (list bdd))) : Prop :=
  (forall s, z s = true -> zp s = true \/ exists i y, nth_error yi i = Some y /\ y s = true) /\
  forall i y xjr, nth_error yi i = Some y -> nth_error xijr i = Some xjr -> ci_nb y xjr.

Inductive rounds_nb : bdd -> list bdd -> list (list bdd) ->
    list (list (list (list bdd))) -> Prop :=
| rn_nil zp : rounds_nb zp [] [] []
| rn_cons zp z zs yi yis xijr xs :
    round_nb zp z yi xijr -> rounds_nb z zs yis xs ->
    rounds_nb zp (z :: zs) (yi :: yis) (xijr :: xs).

Lemma rounds_nb_snoc zp zk yki xkijr z yi xijr :
  rounds_nb zp zk yki xkijr -> round_nb (last zk zp) z yi xijr ->
  rounds_nb zp (zk ++ [z]) (yki ++ [yi]) (xkijr ++ [xijr]).
Proof.
  intros Ho. induction Ho as [zp|zp z0 zs yi0 yis xijr0 xs Hr Ho IH]; intros Hn.
  - cbn [app last] in *. apply rn_cons; [exact Hn|apply rn_nil].
  - cbn [app]. apply rn_cons; [exact Hr|]. apply IH.
    rewrite last_cons_def in Hn. exact Hn.
Qed.

Lemma round_nb_of_solver zold :
  round_nb zold (fold_left (fun acc hold => bor acc (fst (ci fuel zold hold))) holds zold)
    (map (fun hold => fst (ci fuel zold hold)) holds)
    (map (fun hold => snd (ci fuel zold hold)) holds).
Proof.
  split.
  - intros s Hz.
    rewrite (fold_bor_ex nc nx ny (fun P => fst (ci fuel zold P))) in Hz.
    apply orb_true_iff in Hz. destruct Hz as [Hz|Hz]; [left; exact Hz|right].
    apply existsb_exists in Hz. destruct Hz as [P [HP Hy]].
    apply In_nth_error in HP. destruct HP as [i Hi].
    exists i, (fst (ci fuel zold P)). split; [|exact Hy].
    apply (map_nth_error (fun hold => fst (ci fuel zold hold)) _ _ Hi).
  - intros i y xjr Hy Hx.
    destruct (nth_error holds i) as [P|] eqn:EP.
    + rewrite (map_nth_error _ _ _ EP) in Hy. rewrite (map_nth_error _ _ _ EP) in Hx.
      injection Hy as <-. injection Hx as <-.
      apply ci_nb_holds. rewrite Forall_forall in Sh. apply Sh. apply (nth_error_In _ _ EP).
    + exfalso. apply nth_error_None in EP.
      assert (i < length (map (fun hold => fst (ci fuel zold hold)) holds))
        by (apply nth_error_Some; congruence).
      rewrite map_length in *. lia.
Qed.

Theorem solve_rounds_nb :
  rounds_nb bfalse (fst (fst (solve fuel))) (snd (fst (solve fuel))) (snd (solve fuel)).
Proof.
  unfold Gr1Gen.solve_rabin_game. cbv zeta.
  match goal with |- context [do_while ?a ?b ?c ?f ?body ?key ?c0] =>
    set (D := do_while a b c f body key c0) end.
  assert (HD : let c := fst D in
               fst (fst (fst c)) = last (snd (fst (fst c))) bfalse /\
               rounds_nb bfalse (snd (fst (fst c))) (snd (fst c)) (snd c)).
  { unfold D. apply (do_while_inv (fun c : st4' =>
      fst (fst (fst c)) = last (snd (fst (fst c))) bfalse /\
      rounds_nb bfalse (snd (fst (fst c))) (snd (fst c)) (snd c))).
    - cbn [fst snd last]. split; [reflexivity|apply rn_nil].
    - intros [[[z zk] yki] xkijr] [Hz Ho]. cbn [fst snd] in *.
      rewrite (rz_fold nc nx ny E S goals moore plus_one fuel z holds z [] []).
      cbn [app fst snd].
      split; [rewrite last_last; reflexivity|].
      apply rounds_nb_snoc; [exact Ho|]. rewrite <- Hz. apply round_nb_of_solver. }
  destruct D as [[[[z zk] yki] xkijr] []]. cbn [fst snd] in *. apply HD.
Qed.

End Iter2.
