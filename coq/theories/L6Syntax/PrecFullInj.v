(* L6 Syntax — the surface trees of PrecSpec.v are surface trees of
   PrecFullSpec.v (same token sequence, same denoted tree, well-formedness
   and `respects` preserved): prec_determines_tree_full generalises
   prec_determines_tree. *)
From Coq Require Import List String Ascii NArith Bool Lia Arith.
From Omega Require Import L6Syntax.Tokens L6Syntax.Parser L6Syntax.PrecSpec
  L6Syntax.ParserProofs L6Syntax.PrecFullSpec L6Syntax.PrecFullProofs.
Import ListNotations.
Local Open Scope string_scope.
Local Open Scope list_scope.

Section Inj.
Variable T : ptable.

Lemma inj_num_toks : forall n, xnum_toks (inj_num n) = num_toks n.
Proof. destruct n; reflexivity. Qed.
Lemma inj_num_tree : forall n, xnum_tree (inj_num n) = num_tree n.
Proof. destruct n; reflexivity. Qed.
Lemma inj_num_wf : forall n, xnum_wf (inj_num n).
Proof. destruct n; simpl; auto. Qed.

Lemma inj_vars_yield : forall vs v, lyield (inj_vars v vs) = vars_toks (v :: vs).
Proof.
  induction vs as [|w vs IH]; intros [x [t|]]; cbn [inj_vars lyield]; fold xyield lyield;
    rewrite ?IH; reflexivity.
Qed.

Lemma inj_vars_erase : forall vs v,
  lerase T (inj_vars v vs) = map (var_tree T) (v :: vs).
Proof.
  induction vs as [|w vs IH]; intros [x [t|]]; cbn [inj_vars]; cbn; rewrite ?IH;
    try reflexivity;
    unfold var_tree; cbn [snd fst]; destruct (pt_post T (tty t)) as [[[a lv] nm]|];
    reflexivity.
Qed.

Lemma inj_vars_wf : forall vs v, Forall (var_wf T) (v :: vs) -> lwf T (inj_vars v vs).
Proof.
  induction vs as [|w vs IH]; intros [x [t|]] H; inversion H as [|? ? Hv Hvs]; subst;
    unfold var_wf in Hv; cbn [snd] in Hv; cbn [inj_vars]; cbn.
  - destruct Hv. repeat split; assumption.
  - reflexivity.
  - destruct Hv. repeat split; try assumption. apply (IH w Hvs).
  - repeat split. apply (IH w Hvs).
Qed.

Lemma inj_vars_respects : forall vs v, lrespects T (inj_vars v vs).
Proof.
  induction vs as [|w vs IH]; intros [x [t|]]; cbn [inj_vars]; cbn; repeat split;
    try apply IH.
Qed.

Lemma inj_yield : forall s, wf T s -> xyield (inj s) = yield s.
Proof.
  induction s as [a|t x IHx|t x IHx|t l IHl r IHr|x IHx|kw a IHa b IHb c IHc
                  |a IHa b IHb c IHc|kw vs body IHb]; intros W; simpl in W.
  - destruct a; cbn; rewrite ?inj_num_toks; reflexivity.
  - cbn. rewrite IHx; tauto.
  - cbn. rewrite IHx; tauto.
  - cbn. rewrite IHl, IHr; tauto.
  - cbn. rewrite IHx; tauto.
  - cbn. rewrite IHa, IHb, IHc; tauto.
  - cbn. rewrite IHa, IHb, IHc; tauto.
  - destruct vs as [|v vs]; [tauto|]. cbn [inj xyield yield]. fold lyield.
    rewrite inj_vars_yield, IHb; tauto.
Qed.

Lemma inj_erase : forall s, wf T s -> xerase T (inj s) = erase T s.
Proof.
  induction s as [a|t x IHx|t x IHx|t l IHl r IHr|x IHx|kw a IHa b IHb c IHc
                  |a IHa b IHb c IHc|kw vs body IHb]; intros W; simpl in W.
  - destruct a; cbn; rewrite ?inj_num_tree; reflexivity.
  - cbn. rewrite IHx; tauto.
  - cbn. rewrite IHx; tauto.
  - cbn. rewrite IHl, IHr; tauto.
  - cbn. rewrite IHx; tauto.
  - cbn. rewrite IHa, IHb, IHc; tauto.
  - cbn. rewrite IHa, IHb, IHc; tauto.
  - destruct vs as [|v vs]; [tauto|]. cbn [inj xerase erase]. fold (lerase T).
    rewrite inj_vars_erase, IHb; tauto.
Qed.

Lemma inj_wf : forall s, wf T s -> xwf T (inj s).
Proof.
  induction s as [a|t x IHx|t x IHx|t l IHl r IHr|x IHx|kw a IHa b IHb c IHc
                  |a IHa b IHb c IHc|kw vs body IHb]; intros W; simpl in W.
  - destruct a; cbn in *; auto using inj_num_wf.
  - cbn. tauto.
  - cbn. tauto.
  - cbn. tauto.
  - cbn. tauto.
  - cbn. tauto.
  - cbn. tauto.
  - destruct vs as [|v vs]; [tauto|]. cbn [inj xwf]. fold (lwf T).
    destruct W as [Wk [_ [Wv Wb]]]. repeat split; auto using inj_vars_wf.
Qed.

Lemma inj_fits : forall s m, fits T m s <-> xfits T m (inj s).
Proof.
  induction s as [a|t x IHx|t x IHx|t l IHl r IHr|x IHx|kw a IHa b IHb c IHc
                  |a IHa b IHb c IHc|kw vs body IHb]; intros m; cbn; try tauto.
  - destruct a; cbn; tauto.
  - rewrite IHx. tauto.
  - rewrite IHl. tauto.
  - destruct vs; cbn; tauto.
Qed.

Lemma inj_rok : forall s o, wf T s -> (rok T o s <-> xrok T o (inj s)).
Proof.
  induction s as [a|t x IHx|t x IHx|t l IHl r IHr|x IHx|kw a IHa b IHb c IHc
                  |a IHa b IHb c IHc|kw vs body IHb]; intros o W; simpl in W; cbn;
    try tauto.
  - destruct a; cbn; tauto.
  - rewrite (IHx o); tauto.
  - rewrite (IHr o); tauto.
  - rewrite (IHc o); tauto.
  - destruct vs as [|v vs]; [tauto|]. cbn. rewrite (IHb o); tauto.
Qed.

Lemma inj_respects : forall s, wf T s -> respects T s -> xrespects T (inj s).
Proof.
  induction s as [a|t x IHx|t x IHx|t l IHl r IHr|x IHx|kw a IHa b IHb c IHc
                  |a IHa b IHb c IHc|kw vs body IHb]; intros W R; simpl in W, R.
  - destruct a; exact I.
  - cbn. destruct W as [_ Wx]. destruct R as [Rx Fx]. split; [auto|].
    apply inj_fits. assumption.
  - cbn. destruct W as [_ [_ Wx]]. destruct R as [Rx Kx]. split; [auto|].
    apply inj_rok; assumption.
  - cbn. destruct W as [_ [Wl Wr]]. destruct R as [Rl [Rr [Kl Fr]]].
    repeat split; auto. + apply inj_rok; assumption. + apply inj_fits; assumption.
  - cbn. auto.
  - cbn. destruct W as [_ [Wa [Wb Wc]]]. destruct R as [Ra [Rb Rc]]. auto.
  - cbn. destruct W as [Wa [Wb Wc]]. destruct R as [Ra [Rb [Rc Fc]]].
    repeat split; auto. apply inj_fits. assumption.
  - destruct vs as [|v vs]; [tauto|]. cbn [inj xrespects]. fold (lrespects T).
    destruct W as [_ [_ [_ Wb]]]. destruct R as [Rb Fb].
    repeat split; auto using inj_vars_respects. apply inj_fits. assumption.
Qed.

End Inj.

(* prec_determines_tree of ParserProofs.v as an instance of the theorem for
   the whole grammar *)
Corollary prec_determines_tree_from_full : forall T, table_ok_full T = true ->
  forall s, wf T s -> respects T s -> parse T (yield s) = Some (erase T s).
Proof.
  intros T Hok s W R.
  rewrite <- (inj_yield T s W), <- (inj_erase T s W).
  apply prec_determines_tree_full; auto using inj_wf, inj_respects.
Qed.
