(* Lifting lemmas: base-arena facts read in the transducer's extended arena. *)
From Coq Require Import List Bool Arith Lia.
Import ListNotations.
From Omega Require Import L4.Arena L4.ArenaFacts L4.Kleene L4.GameSpec.
From OmegaGen Require Import FixpointGen Gr1Gen.
From OmegaGP Require Import TransducerModel CaSpec StreettNB1.

Definition sv (c x y : nat) : V := mkV c x y x y.
(* state predicates: independent of the primed variables *)
Definition spred (u : bdd) : Prop := forall v, u v = u (sv (vc v) (vx v) (vy v)).

Section NB2.
Variables nc nx ny G : nat.
Hypothesis HG : 0 < G.
Variables E S : bdd.                 (* base arena *)
Variables moore plus_one : bool.

Local Notation L := (lift nc nx ny G).
Local Notation nyE := (ny * G).

Definition bv (v : V) : V := mkV (vc v) (vx v) (vy v / G) (vxp v) (vyp v / G).

Lemma lift_spec u v : L u v = u (bv v).
Proof. reflexivity. Qed.

(* an extended valuation built from base parts and memories *)
Definition ev (c x yb m x' yb' m' : nat) : V := mkV c x (yb * G + m) x' (yb' * G + m').

Lemma bv_ev c x yb m x' yb' m' :
  m < G -> m' < G -> bv (ev c x yb m x' yb' m') = mkV c x yb x' yb'.
Proof.
  intros Hm Hm'. unfold bv, ev. cbn [vc vx vy vxp vyp].
  rewrite !Nat.div_add_l by lia. rewrite !Nat.div_small by lia. f_equal; lia.
Qed.

Lemma cnt_ev c x yb m x' yb' m' : m < G -> cnt G (ev c x yb m x' yb' m') = m.
Proof.
  intros Hm. unfold cnt, ev. cbn [vy].
  rewrite Nat.add_comm, Nat.mod_add by lia. apply Nat.mod_small, Hm.
Qed.
Lemma cntp_ev c x yb m x' yb' m' : m' < G -> cntp G (ev c x yb m x' yb' m') = m'.
Proof.
  intros Hm. unfold cntp, ev. cbn [vyp].
  rewrite Nat.add_comm, Nat.mod_add by lia. apply Nat.mod_small, Hm.
Qed.

Lemma ev_range c x yb m x' yb' m' :
  c < nc -> x < nx -> yb < ny -> m < G -> x' < nx -> yb' < ny -> m' < G ->
  inr nc nx nyE (ev c x yb m x' yb' m').
Proof.
  intros. unfold inr, in_range, ev. cbn [vc vx vy vxp vyp].
  repeat rewrite andb_true_iff. repeat rewrite Nat.ltb_lt.
  assert (yb * G + m < ny * G) by nia. assert (yb' * G + m' < ny * G) by nia. lia.
Qed.

(* the half-quantified step, parametrised by the truth of "target' /\ extra" *)
Definition psi_t (Ev Sv t' : bool) : bool :=
  if plus_one then Sv && (negb Ev || t') else negb Ev || (Sv && t').

Lemma psi_t_mono Ev Sv a b : (a = true -> b = true) -> psi_t Ev Sv a = true -> psi_t Ev Sv b = true.
Proof. unfold psi_t. destruct plus_one, Ev, Sv, a, b; cbn; intros H; auto. Qed.

Lemma psi_unfold (E' S' T : bdd) e v :
  psi E' S' plus_one T e v =
  psi_t (E' v) (S' v)
    (T (mkV (vc v) (vxp v) (vyp v) (vxp v) (vyp v)) &&
     match e with Some e => e v | None => true end).
Proof. unfold psi, psi_t. reflexivity. Qed.

(* base step towards T0  ==>  extended step towards any lifted-or-larger
   target, with any extra conjunct that holds at the step *)
Lemma psi_transfer (T0 : bdd) (T : bdd) e c x yb m x' yb' m' :
  m < G -> m' < G ->
  psi E S plus_one T0 None (mkV c x yb x' yb') = true ->
  (T0 (mkV c x' yb' x' yb') = true ->
   T (mkV c x' (yb' * G + m') x' (yb' * G + m')) = true) ->
  match e with Some e => e (ev c x yb m x' yb' m') = true | None => True end ->
  psi (L E) (L S) plus_one T e (ev c x yb m x' yb' m') = true.
Proof.
  intros Hm Hm' Hb HT He. rewrite psi_unfold in *. rewrite !lift_spec, bv_ev by assumption.
  cbn [vc vx vy vxp vyp ev] in *. rewrite andb_true_r in Hb.
  revert Hb. apply psi_t_mono. intros H0. rewrite (HT H0).
  destruct e as [e|]; [rewrite He|]; reflexivity.
Qed.

End NB2.
