(* The iterates recorded by the GENERATED _attractor_under_assumptions form an
   onion (StreettNB3.onion) and are state predicates. *)
From Coq Require Import List Bool Arith Lia.
Import ListNotations.
From Omega Require Import L4.Arena L4.ArenaFacts L4.Kleene L4.AlgOrder L4.GameSpec L4.Mu.
From OmegaGen Require Import FixpointGen Gr1Gen.
From OmegaGP Require Import FixpointProofs StreettProofs StreettNB2 StreettNB3.

Lemma do_while_inv {nc nx ny} {C X} (P : C -> Prop) (body : C -> C * X) key fuel c :
  P c -> (forall c, P c -> P (fst (body c))) ->
  P (fst (do_while nc nx ny fuel body key c)).
Proof.
  intros Hc Hb. revert c Hc. induction fuel as [|k IH]; intros c Hc; cbn [do_while].
  - destruct (Arena.beq _ _ _ _ _); apply Hb, Hc.
  - destruct (Arena.beq _ _ _ _ _); [apply Hb, Hc|apply IH, Hb, Hc].
Qed.

Section Iter1.
Variables nc nx ny : nat.
Variables E S : bdd.
Variables holds : list bdd.
Variables moore plus_one : bool.
Variable fuel : nat.
Hypothesis Hfuel : NV nc nx ny <= fuel.
Hypothesis Sh : Forall spred holds.

Local Notation step := (FixpointGen.step nc nx ny moore plus_one).
Local Notation trap := (FixpointGen.trap nc nx ny moore plus_one).
Local Notation cp := (cpre_spec nx ny moore plus_one E S).
Local Notation bor := (Arena.bor nc nx ny).
Local Notation band := (Arena.band nc nx ny).
Local Notation inr := (inr nc nx ny).
Local Notation aua := (Gr1Gen.attractor_under_assumptions nc nx ny E S holds moore plus_one).

Lemma cp_spred T : spred (cp T).
Proof. intros v. unfold cpre_spec, phi. reflexivity. Qed.

Lemma step_spred T : spred (step fuel E S T).
Proof. intros v. rewrite !step_spec. apply cp_spred. Qed.

Lemma loop_image f : forall k q, exists c, loop nc nx ny k f q = f c.
Proof.
  induction k as [|k IH]; intros q; cbn [loop].
  - exists q. destruct (Arena.beq _ _ _ _ _); reflexivity.
  - destruct (Arena.beq nc nx ny (f q) q); [exists q; reflexivity|apply IH].
Qed.

Lemma trap_spred P u : spred P -> spred u -> spred (trap fuel E S P (Some u)).
Proof.
  intros HP Hu. rewrite trap_loop.
  destruct (loop_image (trap_op nc nx ny moore plus_one fuel E S P (Some u)) fuel btrue) as [c ->].
  intros v. unfold trap_op. cbv zeta. rewrite !bor_spec, !band_spec.
  rewrite (HP v), (Hu v), (step_spred c v). reflexivity.
Qed.

Lemma trap_fix P u s : inr s ->
  trap fuel E S P (Some u) s = (P s && cp (trap fuel E S P (Some u)) s) || u s.
Proof.
  intros Hs. destruct (trap_gfp nc nx ny moore plus_one fuel E S P (Some u) Hfuel) as [H _].
  symmetry. apply (H s Hs).
Qed.

(* the traps of one round, and the new layer *)
Definition traps (u : bdd) : list bdd := map (fun safe => trap fuel E S safe (Some u)) holds.

Lemma round_fold u : forall l xk y,
  fold_left (fun '(xk, y) safe =>
      (xk ++ [trap fuel E S safe (Some u)], bor y (trap fuel E S safe (Some u))))
    l (xk, y) =
  (xk ++ map (fun safe => trap fuel E S safe (Some u)) l,
   fold_left (fun y x => bor y x) (map (fun safe => trap fuel E S safe (Some u)) l) y).
Proof.
  induction l as [|a l IH]; intros xk y; cbn [fold_left map].
  - rewrite app_nil_r. reflexivity.
  - rewrite IH, <- app_assoc. reflexivity.
Qed.

Lemma fold_bor_exists l : forall (y : bdd) v,
  fold_left (fun y x => bor y x) l y v = y v || existsb (fun x => x v) l.
Proof.
  induction l as [|a l IH]; intros y v; cbn [fold_left existsb].
  - rewrite orb_false_r. reflexivity.
  - rewrite IH, bor_spec, orb_assoc. reflexivity.
Qed.

Lemma in_combine_map {A B} (f : A -> B) l x a :
  In (x, a) (combine (map f l) l) -> x = f a.
Proof.
  induction l as [|b l IH]; cbn [map combine]; [intros []|].
  intros [H|H]; [inversion H; reflexivity|apply IH, H].
Qed.

Lemma last_cons_default {A} (y : A) yr Yp : last (y :: yr) Yp = last yr y.
Proof.
  destruct yr as [|b l]; [reflexivity|].
  change (last (y :: b :: l) Yp) with (last (b :: l) Yp). apply last_default.
Qed.

(* appending a round to an onion *)
Lemma onion_snoc gl Yp yj xjk y' xk :
  onion nc nx ny E S moore plus_one holds gl Yp yj xjk ->
  length xk = length holds ->
  (forall s, y' s = last yj Yp s || existsb (fun x => x s) xk) ->
  (forall x P, In (x, P) (combine xk holds) -> forall s, inr s -> x s = true ->
     (P s && cp x s) || cp (last yj Yp) s || gl s = true) ->
  onion nc nx ny E S moore plus_one holds gl Yp (yj ++ [y']) (xjk ++ [xk]).
Proof.
  intros Ho. induction Ho as [Yp|Yp y yr xk0 xr Hl Hy Hx Ho IH]; intros Hlen Hy' Hx'.
  - cbn [app last] in *. apply onion_cons; [exact Hlen|exact Hy'|exact Hx'|apply onion_nil].
  - cbn [app]. apply onion_cons; [exact Hl|exact Hy|exact Hx|].
    apply IH; [exact Hlen| |].
    + intros s. rewrite Hy', last_cons_default. reflexivity.
    + intros x P Hin s Hs Hxs. specialize (Hx' x P Hin s Hs Hxs).
      rewrite last_cons_default in Hx'. exact Hx'.
Qed.

(* the invariant of the Y loop *)
Definition aua_inv (goal : bdd) (c : bdd * list bdd * list (list bdd)) : Prop :=
  let '(y, yj, xjk) := c in
  y = last yj bfalse /\
  onion nc nx ny E S moore plus_one holds goal bfalse yj xjk /\
  Forall spred yj /\ Forall (Forall spred) xjk /\ spred y.

Theorem aua_onion goal :
  spred goal ->
  aua_inv goal (aua fuel goal).
Proof.
  intros Sg. unfold Gr1Gen.attractor_under_assumptions. cbv zeta. rewrite fst3.
  apply (do_while_inv (aua_inv goal)).
  - cbn [aua_inv last]. split; [reflexivity|]. split; [apply onion_nil|].
    split; [constructor|]. split; [constructor|]. intros v. reflexivity.
  - intros [[y yj] xjk] [Hy [Ho [Syj [Sxjk Sy]]]]. cbn [fst].
    set (u := bor (step fuel E S y) goal).
    rewrite (round_fold u holds [] y). cbn [app fst snd].
    set (xk := map (fun safe => trap fuel E S safe (Some u)) holds).
    set (y' := fold_left (fun y x => bor y x) xk y).
    assert (Su : spred u).
    { intros v. unfold u. rewrite !bor_spec, (step_spred y v), (Sg v). reflexivity. }
    assert (Sxk : Forall spred xk).
    { unfold xk. apply Forall_forall. intros x Hx. apply in_map_iff in Hx.
      destruct Hx as [P [<- HP]]. apply trap_spred; [|exact Su].
      rewrite Forall_forall in Sh. apply Sh, HP. }
    assert (Sy' : spred y').
    { intros v. unfold y'. rewrite !fold_bor_exists, (Sy v). f_equal.
      clear -Sxk. induction Sxk as [|x l Hx _ IH]; cbn [existsb]; [reflexivity|].
      rewrite (Hx v), IH. reflexivity. }
    repeat split.
    + rewrite last_last. reflexivity.
    + apply onion_snoc; [exact Ho|unfold xk; apply map_length| |].
      * intros s. unfold y'. rewrite fold_bor_exists, Hy. reflexivity.
      * intros x P Hin s Hs Hxs. unfold xk in Hin. apply in_combine_map in Hin. subst x.
        rewrite (trap_fix P u s Hs) in Hxs. rewrite <- Hy.
        apply orb_true_iff in Hxs. destruct Hxs as [H|H].
        -- rewrite H. reflexivity.
        -- unfold u in H. rewrite bor_spec, step_spec in H.
           apply orb_true_iff in H. destruct H as [H|H]; rewrite H;
             rewrite ?orb_true_r; reflexivity.
    + apply Forall_app. split; [exact Syj|constructor; [exact Sy'|constructor]].
    + apply Forall_app. split; [exact Sxjk|constructor; [exact Sxk|constructor]].
    + exact Sy'.
Qed.

End Iter1.
