(* L4 / GR1Closure: at the Streett(1) fixpoint Z, the attractor of every
   recurrence goal is Z itself:  mu Y ... (R_j /\ cpre Z)  ==  Z.
   (Needed for: the winning region is closed under the steps the synthesized
   implementation allows.) *)
From Coq Require Import List Bool Arith Lia.
Import ListNotations.
From Omega Require Import L4.Arena L4.ArenaFacts L4.Kleene L4.AlgOrder L4.GameSpec L4.Mu L4.GR1Spec.

Section GR1Closure.
Variables nc nx ny : nat.
Variables moore plus_one : bool.
Variables E S : bdd.
Variables holds goals : list bdd.
Hypothesis Hholds : holds <> [].

Local Notation le := (le nc nx ny).
Local Notation eqv := (eqv nc nx ny).
Local Notation band := (band nc nx ny).
Local Notation bor := (bor nc nx ny).
Local Notation cpre := (GR1Spec.cpre nx ny moore plus_one E S).
Local Notation sX := (sX nc nx ny moore plus_one E S).
Local Notation sX_op := (sX_op nc nx ny moore plus_one E S).
Local Notation sY := (sY nc nx ny moore plus_one E S holds).
Local Notation sY_op := (sY_op nc nx ny moore plus_one E S holds).
Local Notation sZ_op := (sZ_op nc nx ny moore plus_one E S holds goals).
Local Notation Z := (streett_spec nc nx ny moore plus_one E S holds goals).

Lemma u_le_sX P u : le u (sX P u).
Proof.
  destruct (sX_is_gfp nc nx ny moore plus_one E S P u) as [Hfix _].
  apply le_trans with (sX_op P u (sX P u)); [|apply eqv_le, Hfix].
  unfold GR1Spec.sX_op. apply bor_le_r.
Qed.

Lemma big_or_member (T : bdd -> bdd) l a : In a l -> le (T a) (big_or (map T l)).
Proof.
  intros Ha v _ Hv. unfold big_or. apply existsb_exists. exists (T a).
  split; [apply in_map, Ha|exact Hv].
Qed.

Lemma big_and_member (T : bdd -> bdd) l a : In a l -> le (big_and (map T l)) (T a).
Proof.
  intros Ha v _ Hv. unfold big_and in Hv. rewrite forallb_forall in Hv.
  apply Hv, in_map, Ha.
Qed.

Lemma big_and_glb (T : bdd -> bdd) l (w : bdd) :
  (forall a, In a l -> le w (T a)) -> le w (big_and (map T l)).
Proof.
  intros H v Hv Hw. unfold big_and. apply forallb_forall. intros f Hf.
  apply in_map_iff in Hf. destruct Hf as [a [<- Ha]]. apply (H a Ha v Hv Hw).
Qed.

(* cpre W <= W for every attractor W = sY g *)
Lemma cpre_sY_le g : le (cpre (sY g)) (sY g).
Proof.
  destruct holds as [|P0 hs] eqn:Eh; [congruence|]. rewrite <- Eh.
  destruct (sY_is_lfp nc nx ny moore plus_one E S holds g) as [Hfix _].
  apply le_trans with (sY_op g (sY g)); [|apply eqv_le, Hfix].
  unfold GR1Spec.sY_op.
  apply le_trans with (sX P0 (bor (cpre (sY g)) g)).
  - apply le_trans with (bor (cpre (sY g)) g); [apply bor_le_l|apply u_le_sX].
  - apply (big_or_member (fun P => sX P (bor (cpre (sY g)) g)) holds P0).
    rewrite Eh. left. reflexivity.
Qed.

Lemma Z_le_sY R : In R goals -> le Z (sY (band R (cpre Z))).
Proof.
  intros HR. destruct (streett_spec_is_gfp nc nx ny moore plus_one E S holds goals) as [Hfix _].
  apply le_trans with (sZ_op Z); [apply eqv_le', Hfix|].
  unfold GR1Spec.sZ_op.
  apply (big_and_member (fun R => sY (band R (cpre Z))) goals R HR).
Qed.

(* the attractors of any two goals are comparable, hence all equal *)
Lemma sY_goal_le R R' :
  In R goals -> In R' goals ->
  le (sY (band R (cpre Z))) (sY (band R' (cpre Z))).
Proof.
  intros HR HR'. set (g := band R (cpre Z)). set (g' := band R' (cpre Z)).
  set (W := sY g').
  destruct (sY_is_lfp nc nx ny moore plus_one E S holds g) as [_ Hleast].
  apply Hleast. fold W.
  (* sY_op g W <= W *)
  destruct (sY_is_lfp nc nx ny moore plus_one E S holds g') as [HfixW _]. fold W in HfixW.
  apply le_trans with (sY_op g' W); [|apply eqv_le, HfixW].
  unfold GR1Spec.sY_op. apply big_or_le. intros P _.
  apply sX_mono_u.
  (* cpre W \/ g  <=  cpre W \/ g' : g <= cpre Z <= cpre W *)
  apply bor_lub; [apply bor_le_l|].
  apply le_trans with (cpre W); [|apply bor_le_l].
  apply le_trans with (cpre Z); [unfold g; apply band_le_r|].
  apply cpre_mono. unfold W, g'. apply Z_le_sY, HR'.
Qed.

Theorem sY_goal_eq_Z R : In R goals -> eqv (sY (band R (cpre Z))) Z.
Proof.
  intros HR. apply le_antisym; [|apply Z_le_sY, HR].
  destruct (streett_spec_is_gfp nc nx ny moore plus_one E S holds goals) as [Hfix _].
  apply le_trans with (sZ_op Z); [|apply eqv_le, Hfix].
  unfold GR1Spec.sZ_op. apply big_and_glb. intros R' HR'. apply sY_goal_le; assumption.
Qed.

End GR1Closure.
