"""C13 — generated code computes outputs that satisfy the relation.

Tie G: the `languages` table and the syntax keys the emitter uses are
extracted from omega/symbolic/codegen.py with `ast` into coq/gen/C13_tables.v.
Tie H: (a) codegen.dumps_bdd_as_code on random multi-root BDDs over <= 6 bits
on both dd back ends: the generated Python is exec-uted on all inputs and
compared inside Coq with the model's emitted program (Dag.v) and with the
BDD's truth table; the C-syntax output is evaluated by an independent strict
evaluator; and the TEXT of both outputs (lang='python' and lang='c'), cut
into tokens inside Coq (Render.lex), must equal token for token the model's
rendering (Render.render) of the program emitted for the extracted DAG under
the extracted syntax table, for which C13_rendered_text_evaluates_* is
proved; (b) codegen.dumps_bdds_as_code end to end on relations over
1-3 small variables: the generated step() is run on all states in the bit
ranges and compared inside Coq with the model (Step.v) and, independently,
with the relation as an explicit set; (c) int_to_bits / decoding functions
against Bits.v on an exhaustive small range.
"""
import ast
import json
import os

from vlib import core, codegen_synth as cs, codegen_emit as ce
from vlib import codegen_step as st
from vlib import codegen_gen
from vlib.core import Broken, Mismatch, Failing

ID = 'C13'
LEVEL = 'proof'
THEORIES = ['theories/L7Codegen/StepCheck.vo',
            'theories/L7Codegen/BitsProofs.vo',
            'theories/L7Codegen/DagProofs.vo',
            'theories/L7Codegen/StepProofs.vo',
            'theories/L7Codegen/Render.vo',
            'theories/L7Codegen/RenderProofs.vo',
            'theories/L7Codegen/BitsConverse.vo',
            'theories/L7Codegen/StepProgProofs.vo']

HEADER = '''From Coq Require Import String.
From Coq Require Import List Bool Arith ZArith NArith.
Import ListNotations.
From Omega Require Import L7Codegen.Pred L7Codegen.Synth L7Codegen.SynthCheck
  L7Codegen.Bits L7Codegen.Dag L7Codegen.EmitCheck L7Codegen.Step
  L7Codegen.StepCheck L7Codegen.Render.
From OmegaGen Require Import C13_tables.
Local Open Scope Z_scope.
'''

MODES = ['cudd', 'nocudd-autoref', 'nocudd-cudd']

# regression inputs of the repaired defects F4 (negative inputs) and F7
# (Boolean inputs), always run first
REGRESSION = [
    dict(decl={'x': (-3, 3), 'y': (-4, 4)}, out_vars=["y'"],
         rel=('formula', "y' = x"), mode='cudd'),
    dict(decl={'x': (-4, -1), 'y': (-4, 4)}, out_vars=["y'"],
         rel=('formula', "y' = x"), mode='nocudd-autoref'),
    dict(decl={'x': (0, 3), 'b': 'bool'}, out_vars=["b'"],
         rel=('formula', "b' <=> (x > 1)"), mode='cudd'),
    dict(decl={'x': (0, 3), 'b': 'bool'}, out_vars=["x'"],
         rel=('formula', "x' = IF b THEN 1 ELSE 2"), mode='nocudd-cudd'),
    dict(decl={'x': (1, 6), 'y': (1, 6)}, out_vars=["y'"],
         rel=('formula', "y' = (x - y)"), mode='cudd'),
]


# ------------------------------------------------------------------ tie G
def extract_tables():
    """`languages` literal and the syntax keys used, from the source text."""
    path = os.path.join(core.REPO, 'omega', 'symbolic', 'codegen.py')
    with open(path) as f:
        src = f.read()
    tree = ast.parse(src)
    langs = None
    for node in tree.body:
        if isinstance(node, ast.Assign) and len(node.targets) == 1 and \
                isinstance(node.targets[0], ast.Name) and \
                node.targets[0].id == 'languages':
            call = node.value
            if not (isinstance(call, ast.Call) and
                    isinstance(call.func, ast.Name) and
                    call.func.id == 'dict' and not call.args):
                raise Broken('table', '`languages` is not a dict(...) call')
            langs = {}
            for kw in call.keywords:
                sub = kw.value
                if not (isinstance(sub, ast.Call) and
                        isinstance(sub.func, ast.Name) and
                        sub.func.id == 'dict' and not sub.args):
                    raise Broken('table', f'languages[{kw.arg}] not dict()')
                langs[kw.arg] = {k.arg: ast.literal_eval(k.value)
                                 for k in sub.keywords}
    if langs is None:
        raise Broken('table', '`languages` not found in codegen.py')
    used = []
    for node in ast.walk(tree):
        if isinstance(node, ast.Subscript) and \
                isinstance(node.value, ast.Name) and \
                node.value.id == 'syntax' and \
                isinstance(node.slice, ast.Constant) and \
                isinstance(node.slice.value, str):
            if node.slice.value not in used:
                used.append(node.slice.value)
    return langs, sorted(used)


def coq_str(s):
    return '"' + s.replace('"', '""') + '"'


def tables_v(langs, used):
    out = ['(* GENERATED from omega/symbolic/codegen.py (`languages`, and the',
           '   keys in `syntax[...]` subscripts) by tools/props/c13.py; do not',
           '   edit. *)',
           'From Coq Require Import List String.',
           'Import ListNotations.', 'Local Open Scope string_scope.', '']
    out.append('Definition languages : list (string * list (string * string)) :=')
    rows = []
    for lang, d in langs.items():
        kv = '; '.join(f'({coq_str(k)}, {coq_str(v)})' for k, v in d.items())
        rows.append(f'  ({coq_str(lang)}, [{kv}])')
    out.append('  [' + ';\n  '.join(r.strip() for r in rows) + '].')
    out.append('')
    out.append('Definition used_keys : list string := ['
               + '; '.join(coq_str(k) for k in used) + '].')
    return '\n'.join(out) + '\n'



# StepProofs.step_prog_correct has a premise over assignments of ANY length,
# which no relation depending on a bit satisfies (vacuous); it is superseded
# by StepProgProofs.step_prog_correct_len (premise at length n), the lemma
# behind C13_step_through_program, and is no longer counted or cited
SUPERSEDED = {'step_prog_correct'}


def _count_theory_lemmas(ctx, names):
    """Lemmas of the hand-written proof files (already checked by the build
    of THEORIES) are obligations of this check too."""
    for nm in names:
        rel = f'theories/L7Codegen/{nm}.v'
        with open(os.path.join(core.COQ, rel)) as f:
            found = core.theorem_names(f.read())
        # superseded lemmas are not obligations of this check
        found = [x for x in found if x not in SUPERSEDED]
        ctx.obligations += [f'{rel}:{x}' for x in found]
        ctx.discharged += len(found)


def prove(ctx):
    with ctx.coq_lock():
        langs, used = extract_tables()
        ctx.write_gen('gen/C13_tables.v', tables_v(langs, used))
        # tie T: regenerate gen/CodegenGen.v from the current codegen.py,
        # then re-prove GenProofs/CodegenBridge.v (generated code = model)
        # and the statements built on it
        notes, templates = codegen_gen.ensure_codegen(ctx)
        ctx.prove_with_deps('Properties/C13.v')
    _count_theory_lemmas(ctx, ['BitsProofs', 'DagProofs', 'StepProofs',
                               'RenderProofs', 'BitsConverse',
                               'StepProgProofs'])
    ctx.extra['languages_table'] = langs
    ctx.extra['superseded_lemmas'] = {
        'theories/L7Codegen/StepProofs.v:step_prog_correct':
        'vacuous premise (any-length assignments); replaced by '
        'StepProgProofs.step_prog_correct_len'}
    ctx.extra['syntax_keys_used'] = used
    ctx.extra['translation'] = dict(
        sources=codegen_gen.SOURCES, functions=codegen_gen.FUNCTIONS,
        generated='coq/' + codegen_gen.GEN,
        bridge='coq/GenProofs/CodegenBridge.v',
        texts=[f'{t}   :   {toks}' for t, toks in templates],
        notes=notes)
    ctx.trusted.append(
        'translator tie T: tools/py2coq_codegen.py (codegen._latch_name, '
        '_latch_ref, _register_nodes, _append_sep, _comment_level, '
        '_dumps_node, _dumps_layer, _collect_layers, dumps_bdd_as_code, '
        'int_to_bits, assign_bitvectors, _list_bits and '
        'bitvector.twos_complement_to_int -> Gallina, proved equal to '
        'theories/L7Codegen/{Bits,Dag,Render,Step}.v on every run: '
        'int_to_bits and twos_complement_to_int Leibniz; the emitter '
        'returns the token list Render.render lays out for the program of '
        'Dag.dumps_bdd_as_code, for any accessors that agree with the DAG; '
        '_list_bits / assign_bitvectors on the table of a layout list the '
        'names of Step.list_bits / map every state variable to '
        'Bits.encode of its value). '
        'Trusted in it: a text is read as the list of its tokens - the '
        'literal text of the f-strings is cut by the translator with the '
        'rules of Render.lex, a table entry pasted between delimiters is one '
        'token (none if empty), names pasted next to literal word characters '
        'are assumed to consist of word characters, a pasted text is assumed '
        'to begin and end at token boundaries (each such assumption is a '
        'note in gen/CodegenGen.v); startswith / `in` on a text are read on '
        'its tokens; a BDD reference is its integer key and bdd._add_int the '
        'identity; defaultdict / dict / set as association lists and lists; '
        'None for every raise / failed assert / KeyError; recursion on fuel')
    ctx.trusted.append(
        'meaning of the dd DAG accessors used by the emitter (int(u), u.var, '
        'u.negated, bdd.succ): the model evaluates the DAG read through them; '
        'that this evaluation equals the BDD (bdd.let on every input) is '
        're-checked on every sampled DAG, not proved')
    ctx.trusted.append(
        'Python execution of the generated text (exec). The text of both '
        'targets is tied to the proved rendering model by exact equality of '
        'token lists, the real text being cut into tokens inside Coq by the '
        'generic lexer Render.lex (blanks separate; line break, each '
        'parenthesis, maximal runs of word / of other characters are '
        'tokens); that lexer is part of the tie, not of the theorem')
    ctx.trusted.append(
        'aut.to_bdd (C06) for formula relations: the relation is taken at the '
        'bit level as the truth table of the BDD it returns')


# ------------------------------------------------------- (a) raw emission
def zlit(x):
    return f'({x})' if x < 0 else str(x)


def gen_emit(ctx, i):
    rng = ctx.rng
    backend = 'cudd' if i % 2 else 'autoref'
    n = rng.choice([1, 2, 3, 4, 4, 5, 5, 6, 6])
    return dict(kind='emit', backend=backend, n=n,
                seed=rng.randrange(1 << 30))


def run_emit(case):
    """Returns (coq term, info) or raises; info has impl/truth tables."""
    import random
    import omega.symbolic.codegen as cg
    rng = random.Random(case['seed'])
    n = case['n']
    bdd = ce.make_manager(rng, case['backend'], n)
    tabs = case.get('tables') or ce.rand_roots(rng, bdd, n)
    tabs = [int(t) for t in tabs]
    roots = {f'out{j}': ce.bdd_of_table(bdd, n, t)
             for j, t in enumerate(tabs)}
    code = cg.dumps_bdd_as_code(roots, bdd)
    c_code = cg.dumps_bdd_as_code(roots, bdd, lang='c')
    info = dict(tables=[str(t) for t in tabs], problems=[])
    try:
        impl = ce.run_python_code(code, n, list(roots))
    except Exception as e:
        info['problems'].append('generated code failed: ' + repr(e)[:200])
        impl = {k: 0 for k in roots}
    truth = [cs.table_of_bdd(bdd, n, u) for u in roots.values()]
    if truth != tabs:
        raise AssertionError('harness: BDD construction')
    for name, t in zip(roots, tabs):
        if impl[name] != t:
            k = ((impl[name] ^ t) & -(impl[name] ^ t)).bit_length() - 1
            info['problems'].append(
                f'{name} evaluates to {bool(impl[name] >> k & 1)} at input '
                f'{[(k >> i) & 1 for i in range(n)]} (bit i = b<i>), the BDD '
                f'to {bool(t >> k & 1)}')
    # the C-syntax output is evaluated by an independent strict evaluator
    try:
        cimpl = ce.run_c_code(c_code, n, list(roots))
        for name, t in zip(roots, tabs):
            if cimpl[name] != t:
                k = ((cimpl[name] ^ t) & -(cimpl[name] ^ t)).bit_length() - 1
                info['problems'].append(
                    f'C output: {name} evaluates to '
                    f'{bool(cimpl[name] >> k & 1)} at input '
                    f'{[(k >> i) & 1 for i in range(n)]}, the BDD to '
                    f'{bool(t >> k & 1)}')
    except AssertionError as e:
        info['problems'].append(str(e)[:300])
    if ce.c_to_python(c_code, cg.languages) != code:
        info['problems'].append('C-syntax output is not the token-wise '
                                'image of the Python output')
    if not ce.c_statements_terminated(c_code, cg.languages):
        info['problems'].append('C statement without separator')
    names = [m for m in ce.LATCH_RE.findall(code)]
    if len(names) != len(set(names)):
        info['problems'].append('a latch is assigned twice')
    dag = ce.extract_dag(bdd, list(roots.values()))
    rl = '[' + '; '.join(f'({j}%nat, {zlit(int(u))})'
                         for j, u in enumerate(roots.values())) + ']'
    # the text of both targets against the rendering model (Render.v)
    term = (f'(let d := {ce.dag_lit(dag)} in let rl := {rl} in '
            f'check_emit {n}%nat {n}%nat d rl '
            f'[{"; ".join(str(impl[k]) + "%N" for k in roots)}] '
            f'[{"; ".join(str(t) + "%N" for t in truth)}] ++ '
            f'[check_text languages "python"%string {n}%nat {n}%nat d rl '
            f'{coq_str(code)}%string; '
            f'check_text languages "c"%string {n}%nat {n}%nat d rl '
            f'{coq_str(c_code)}%string])')
    info['nodes'] = len(dag)
    info['complemented'] = sum(1 for d in dag.values() if d['neg'])
    info['code_sample'] = code[:400]
    del roots
    return term, info


# ---------------------------------------------------------- (b) pipeline
def run_step(case):
    res = st.run_pipeline(case)
    if 'outside' in res:
        return None, res
    uni, names = res['uni'], res['names']
    n = len(names)
    vidx = {x: j for j, (x, _, _, _) in enumerate(uni)}
    kind = {x: k for x, k, _, _ in uni}
    outs = case['out_vars']
    cases = []
    problems = []
    for state, out in res['results']:
        if isinstance(out, tuple):
            continue      # exception: judged by the oracle
        if sorted(out) != sorted(outs):
            problems.append(('returned keys differ from out_vars', state,
                             out))
            continue
        s_l = '[' + '; '.join(f'({vidx[x]}%nat, {st.val_lit(kind[x], v)})'
                              for x, v in state.items()) + ']'
        try:
            o_l = '[' + '; '.join(
                f'({vidx[x]}%nat, {st.val_lit(kind[x], out[x])})'
                for x in outs) + ']'
        except Exception:
            problems.append(('returned value not printable', state, out))
            continue
        cases.append(f'({s_l}, {o_l})')
    order = '[' + '; '.join(f'({y}%nat, {c14_nat_list(zs)})'
                            for y, zs in res['order']) + ']'
    gt = '[' + '; '.join(f'({y}%nat, {t}%N)'
                         for y, t in res['gtabs'].items()) + ']'
    rl = '[' + '; '.join(f'({y}%nat, {zlit(k)})' for y, k in res['roots']) \
        + ']'
    ov = '[' + '; '.join(f'{vidx[x]}%nat' for x in outs) + ']'
    cudd = 'true' if case['mode'] == 'cudd' else 'false'
    term = (f'check_step {n}%nat {cudd} {res["T"]}%N '
            f'{st.layout_lit(uni, names)} {ov} {order} {gt} '
            f'{res["nlev"]}%nat {ce.dag_lit(res["dag"])} {rl} '
            f'[{"; ".join(cases)}]')
    res['problems'] = problems
    res['n_cases'] = len(cases)
    return term, res


def c14_nat_list(xs):
    return '[' + '; '.join(f'{x}%nat' for x in xs) + ']'


def step_case_json(case, res=None):
    c = dict(kind='step', decl={k: (v if v == 'bool' else list(v))
                                for k, v in case['decl'].items()},
             out_vars=case['out_vars'], rel=list(case['rel']),
             mode=case['mode'])
    return c


def step_case_from_json(c):
    return dict(decl={k: (v if v == 'bool' else tuple(v))
                      for k, v in c['decl'].items()},
                out_vars=c['out_vars'], rel=tuple(c['rel']), mode=c['mode'])


# ------------------------------------------------------ (c) bit functions
def bits_terms():
    """Exhaustive small-range comparison of the conversion functions."""
    import omega.symbolic.codegen as cg
    import omega.logic.bitvector as bv
    blist = lambda bs: '[' + '; '.join('true' if b else 'false'
                                       for b in bs) + ']'
    rows = []
    for w in range(0, 7):
        for x in range(-40, 41):
            rows.append(f'(({x}, {w}), {blist(cg.int_to_bits(x, w))})')
    t1 = ('forallb (fun c => bools_eqb (int_to_bits (fst (fst c)) '
          f'(snd (fst c))) (snd c)) [{"; ".join(rows)}]')
    rows = []
    for lo in range(-9, 10):
        for hi in range(lo, 10):
            signed, width = bv.dom_to_width((lo, hi))
            rows.append(f'(({lo}, {hi}), ({"true" if signed else "false"}, '
                        f'{width}))')
    t2 = ('forallb (fun c => eqb (signed_of (fst (fst c)) (snd (fst c))) '
          '(fst (snd c)) && Z.eqb (width_of (fst (fst c)) (snd (fst c))) '
          f'(snd (snd c))) [{"; ".join(rows)}]')
    rows = []
    for lo, hi in [(0, 5), (-3, 3), (-4, -1), (2, 2), (-1, 0), (0, 0)]:
        signed, width = bv.dom_to_width((lo, hi))
        d = dict(type='int', signed=signed, width=width, dom=(lo, hi))
        for k in range(1 << width):
            bits = [bool((k >> i) & 1) for i in range(width)]
            b2 = list(bits)
            bv._append_sign_bit(b2, 'x', d)
            v = bv.twos_complement_to_int(b2)
            rows.append(f'((({lo}, {hi}), {blist(bits)}), {v})')
    t3 = ('forallb (fun c => val_eqb (decode (TInt (fst (fst (fst c))) '
          '(snd (fst (fst c)))) (snd (fst c))) (VZ (snd c))) '
          f'[{"; ".join(rows)}]')
    return [t1, t2, t3]


# ---------------------------------------------------------- correspond
def correspond(ctx):
    n_emit, n_step = (1000, 2500) if ctx.thorough else (90, 170)
    mism = []
    # (c)
    try:
        bt = bits_terms()
    except Exception as e:
        return [Mismatch('conversion functions raised', None, impl=repr(e))]
    groups = [('', [t]) for t in bt]
    meta = [('bits', None, None)] * len(bt)
    # (a)
    stats = dict(emit_nodes=0, emit_complemented=0, emit_instances=0,
                 step_instances=0, step_states=0, step_solvable_states=0,
                 step_negative_inputs=0, step_bool_inputs=0,
                 step_missing_bits=0, step_outside_universe=0)
    samples = []
    for i in range(n_emit):
        case = gen_emit(ctx, i)
        try:
            term, info = run_emit(case)
        except Exception as e:
            mism.append(Mismatch('dumps_bdd_as_code raised', case,
                                 impl=repr(e), property_fails=True))
            continue
        case['tables'] = info['tables']
        for p in info['problems']:
            mism.append(Mismatch(p, case, property_fails=True))
        groups.append(('', [f'forallb (fun b => b) ({term})']))
        meta.append(('emit', case, term))
        stats['emit_instances'] += 1
        stats['emit_nodes'] += info['nodes']
        stats['emit_complemented'] += info['complemented']
        if i == 0:
            samples.append(dict(case, code=info['code_sample']))
    # (b)
    for i in range(n_step):
        if i < len(REGRESSION):
            case = dict(REGRESSION[i])
        else:
            case = st.rand_case(ctx.rng, MODES[i % 3])
        cj = step_case_json(case)
        try:
            term, res = run_step(case)
        except Exception as e:
            mism.append(Mismatch('dumps_bdds_as_code raised', cj,
                                 impl=repr(e), property_fails=True))
            continue
        if term is None:
            stats['step_outside_universe'] += 1
            continue
        o = st.oracle(case, res)
        if o:
            what, state, got = o
            key = None
            mism.append(Mismatch(what, dict(cj, state=state), impl=got,
                                 property_fails=True, key=key))
        for what, state, got in res['problems'][:1]:
            mism.append(Mismatch(what, dict(cj, state=state), impl=got,
                                 property_fails=True))
        groups.append(('', [f'forallb (fun b => b) ({term})']))
        meta.append(('step', cj, term))
        stats['step_instances'] += 1
        stats['step_states'] += len(res['results'])
        stats['step_solvable_states'] += res.get('n_solvable', 0)
        if res['missing']:
            stats['step_missing_bits'] += 1
        if any(k != 'bool' and k[0] < 0 for k in case['decl'].values()):
            stats['step_negative_inputs'] += 1
        if any(k == 'bool' for k in case['decl'].values()):
            stats['step_bool_inputs'] += 1
        if i < 2:
            samples.append(dict(cj, results=[
                [s, o_] for s, o_ in res['results'][:3]]))
    ok = ctx.eval_groups('corr', HEADER, groups,
                         shard=max(6, len(groups) // 16 + 1))
    bad = [k for k, v in enumerate(ok) if not v]
    aspects = {
        'emit': ['DAG well-formed', 'model program = generated program '
                 '(all inputs)', 'DAG meaning = BDD', 'latch assigned once',
                 'tokens of the Python text = rendering of the model program '
                 'under languages[python]',
                 'tokens of the C text = rendering of the model program '
                 'under languages[c]'],
        'step': ['extraction order', 'functions', 'step(state) on all states',
                 'step through the emitted program'],
        'bits': ['int_to_bits', 'dom_to_width',
                 '_append_sign_bit/twos_complement_to_int']}
    for k in bad[:6]:
        kind, case, term = meta[k]
        if kind == 'bits':
            mism.append(Mismatch(
                'conversion function differs from the model (Bits.v): '
                + aspects['bits'][k], None))
            continue
        v = ctx.eval_terms('which', HEADER, [term])[0]
        flags = [x == 'true' for x in
                 v.strip('[] ').replace(' ', '').split(';')]
        what = [aspects[kind][i] for i, f in enumerate(flags) if not f]
        mism.append(Mismatch(f'{kind}: model and implementation differ on: '
                             + ', '.join(what), case))
    for k in bad[6:]:
        mism.append(Mismatch('model and implementation differ', meta[k][1]))
    ctx.cov['evaluations'] += len(groups)
    ctx.cov['distinct_nontrivial'] += stats['emit_instances'] + \
        stats['step_instances']
    ctx.cov['rule'] = (
        '(a) dumps_bdd_as_code: 1-4 named roots (random tables/formulas, '
        'constants, complements, repeated functions) over 1..6 bits declared '
        'in random order, alternating dd.autoref / dd.cudd; generated Python '
        'exec-uted on ALL inputs; compared in Coq with the program emitted by '
        'the model from the DAG read off the manager and with the BDD truth '
        'table; the C output is evaluated on all inputs by an independent '
        'strict evaluator; the token lists of the Python and of the C text '
        '(cut inside Coq) must equal the rendering of the model program under '
        'the extracted syntax table (Render.v, for which '
        'C13_rendered_text_evaluates_bdd is proved). '
        '(b) dumps_bdds_as_code: 1-3 variables of 17 kinds (Boolean, '
        'unsigned, signed, all-negative, constants), 1..all primed outputs, '
        'universe <= 11 bits; relations: conjunctions of assignments '
        "y' = term / IF-THEN-ELSE, random formulas over comparisons and "
        'arithmetic, random bit-level tables; modes CUDD restrict / '
        '_bdd=None on autoref / on cudd; generated step() run on ALL states '
        'in the bit ranges (values outside the hints included); compared in '
        'Coq with the model step (Step.v) on every state and, independently, '
        'with the relation as an explicit set (own encoder). (c) int_to_bits '
        'for x in -40..40, width 0..6; dom_to_width for hints in [-9,9]; '
        'decoding for six hints, all bit patterns.')
    ctx.cov['samples'] = samples
    ctx.extra['correspondence'] = dict(stats, mismatches=len(mism))
    return mism


# ---------------------------------------------------------------- search
def check_case(case):
    if case.get('kind') == 'emit':
        try:
            term, info = run_emit(case)
        except Exception as e:
            return Failing('dumps_bdd_as_code raised ' + repr(e), case)
        if info['problems']:
            return Failing(info['problems'][0], case,
                           replay_cmd='./check C13 --replay <this file>')
        return None
    c = step_case_from_json(case)
    try:
        res = st.run_pipeline(c)
    except Exception as e:
        return Failing('dumps_bdds_as_code raised ' + repr(e), case,
                       replay_cmd='./check C13 --replay <this file>')
    if 'outside' in res:
        return None
    o = st.oracle(c, res)
    if o:
        what, state, got = o
        return Failing(what, dict(step_case_json(c), state=state),
                       expected='an assignment to exactly out_vars that '
                       'satisfies the relation with the state', got=got,
                       replay_cmd='./check C13 --replay <this file>')
    return None


def _cls(f):
    w = f.what
    return 'raised' if 'raised' in w else w


def search(ctx, broken, mismatches):
    found, seen = [], set()
    for m in mismatches[:40]:
        if m.case is None:
            continue
        f = check_case(m.case)
        if f and _cls(f) not in seen:
            seen.add(_cls(f))
            found.append(f)
    if found:
        return found[:3]
    budget = 3000 if ctx.thorough else 600
    for i in range(budget):
        if i % 3 == 0:
            case = gen_emit(ctx, i // 3)
        else:
            case = step_case_json(st.rand_case(ctx.rng, MODES[i % 3]))
        f = check_case(case)
        if f:
            return [f]
    return []


def replay(path):
    d = json.load(open(path))
    case = d.get('input') or d.get('case')
    if case is None and d.get('correspondence_mismatches'):
        case = d['correspondence_mismatches'][0]['case']
    if case is None:
        print('no input in replay file (broken proof/tie):', d.get('broken'))
        return 1
    f = check_case(case)
    if f:
        print('still fails:', f.what, f.case.get('state'), f.got)
        return 1
    print('passes')
    return 0
