"""C05 — synthesized Rabin(1) implementation in closed loop."""
from vlib import implcheck

ID = 'C05'
LEVEL = 'proof'
THEORIES = implcheck.THEORIES


class Rabin(implcheck.ImplCheck):
    def classify(self, g, r, lp, res):
        """Known-finding class of Rabin blocking states (DESIGN §7):
        F12 stale persistence index: _hold = i although the state is outside
            y_{k,i} of its own basin level
        Anything else is not a known finding.  In particular a blocking state
        with _hold = none is a violation: the class F3 (plus_one, environment
        dead end, _hold = none) was repaired (fixes/F3.patch; Properties/C05.v
        C05_dead_end_has_step, C05_blocks_only_when_hold_is_stale)."""
        what, path, detail = res
        if what != 'blocking':
            return None
        ar, ear = g['ar'], r['ear']
        s = path[-1]
        c, x, yE = lp.state(s)
        st = ear.state_dict(c, x, yE)
        M = ear.ny // ar.ny
        base = ar.sidx(c, x, yE // M)
        n_holds = len(g['P'])
        h = st.get('_hold')
        if h is None or h >= n_holds:
            return None
        levels = [k for k, z in enumerate(r['zk']) if z[base]]
        if not levels:
            return None
        k = levels[0]
        if not r['yki'][k][h][base]:
            return 'rabin_blocks_stale_hold'
        return None


_c = Rabin(
    ID, 'rabin',
    ['GenProofs/FixpointProofs.v', 'GenProofs/RabinProofs.v',
     'GenProofs/InitProofs.v', 'GenProofs/TransducerModel.v',
     'GenProofs/RabinTProofs.v', 'GenProofs/RabinLive2.v',
     'GenProofs/RabinNB3.v', 'GenProofs/RabinWins.v',
     'GenProofs/MooreIndepSolver.v', 'Properties/C05.v'],
    'hand-written model GenProofs/TransducerModel.v of '
    'make_rabin_transducer (tie H: full truth tables of action[impl] and '
    'init[impl] compared on every run), built on the translated '
    '_controllable_action, step, _make_init and solver (tie T)')
prove, correspond, search, replay = (_c.prove, _c.correspond, _c.search,
                                     _c.replay)
