(* L6Past / PastFastProofs: the efficient evaluation PastFast.check_all_fast
   used by the correspondence cases computes exactly PastCheck.check_all,
   which is written with the plain definitions (eval, evalA, sem, comb,
   canon) the theorems of PastProofs.v are about. *)
From Coq Require Import String List Bool NArith Arith Lia.
Import ListNotations.
From Omega Require Import L6Past.PastSyntax L6Past.PastModel L6Past.PastCheck
  L6Past.PastFast L6Past.PastProofs.
Open Scope string_scope.

(* ------------------------------------------------------------ list facts *)
Lemma nth_map_lt : forall (A B : Type) (g : A -> B) (l : list A) i d d',
  i < length l -> nth i (map g l) d = g (nth i l d').
Proof.
  intros A B g l. induction l as [|x l IH]; simpl; intros i d d' H; [lia|].
  destruct i; auto. apply IH. lia.
Qed.

Lemma forallb_ext_in : forall (A : Type) (p q : A -> bool) (l : list A),
  (forall x, In x l -> p x = q x) -> forallb p l = forallb q l.
Proof.
  induction l as [|x l IH]; simpl; intros H; auto.
  rewrite H by auto. rewrite IH; auto.
Qed.

Lemma forallb_map : forall (A B : Type) (p : B -> bool) (g : A -> B) (l : list A),
  forallb p (map g l) = forallb (fun x => p (g x)) l.
Proof. induction l; simpl; auto. now rewrite IHl. Qed.

Lemma forallb_nth : forall (A : Type) (p : A -> bool) (l : list A) (d : A),
  forallb p l = forallb (fun i => p (nth i l d)) (seq 0 (length l)).
Proof.
  induction l as [|x l IH]; simpl; intros d; auto.
  rewrite (IH d). f_equal. rewrite <- seq_shift. now rewrite forallb_map.
Qed.

Lemma nth_combine : forall (A B : Type) (a : list A) (b : list B) i da db,
  length a = length b ->
  nth i (combine a b) (da, db) = (nth i a da, nth i b db).
Proof. intros. now apply combine_nth. Qed.

Lemma length_map2 : forall (A B C : Type) (g : A -> B -> C) a b,
  length a = length b -> length (map2 g a b) = length a.
Proof.
  intros. unfold map2. rewrite map_length, combine_length. lia.
Qed.

Lemma nth_map2 : forall (A B C : Type) (g : A -> B -> C) a b i d da db,
  length a = length b -> i < length a ->
  nth i (map2 g a b) d = g (nth i a da) (nth i b db).
Proof.
  intros A B C g a b i d da db HL Hi. unfold map2.
  rewrite (nth_map_lt _ _ _ _ i d (da, db)) by (rewrite combine_length; lia).
  now rewrite nth_combine.
Qed.

(* ------------------------------------------------------------ delay, scan *)
Lemma length_delay : forall xs first, length (delay first xs) = length xs.
Proof. induction xs; simpl; intros; auto. Qed.

Lemma nth_delay : forall xs first i d,
  i < length xs ->
  nth i (delay first xs) d = match i with O => first | S j => nth j xs d end.
Proof.
  induction xs as [|x xs IH]; simpl; intros first i d H; [lia|].
  destruct i; auto. rewrite IH by lia. destruct i; auto.
Qed.

Section Scan.
Context {A : Type} (op0 : A -> bool) (op : A -> bool -> bool) (d : A).

Fixpoint scanG (acc : option bool) (xs : list A) (i : nat) : bool :=
  match i with
  | O => match acc with
         | None => op0 (nth 0 xs d)
         | Some s => op (nth 0 xs d) s
         end
  | S j => op (nth (S j) xs d) (scanG acc xs j)
  end.

Lemma length_scan : forall xs acc, length (scan op0 op acc xs) = length xs.
Proof. induction xs; simpl; intros; auto. Qed.

Lemma scanG_shift : forall x xs acc j,
  let v := match acc with None => op0 x | Some s => op x s end in
  scanG (Some v) xs j = scanG acc (x :: xs) (S j).
Proof.
  intros x xs acc j v. induction j.
  - simpl. destruct acc; reflexivity.
  - simpl scanG at 1. rewrite IHj. reflexivity.
Qed.

Lemma nth_scan : forall xs acc i,
  i < length xs -> nth i (scan op0 op acc xs) false = scanG acc xs i.
Proof.
  induction xs as [|x xs IH]; simpl length; intros acc i H; [lia|].
  destruct i.
  - simpl. destruct acc; reflexivity.
  - simpl scan. cbn [nth]. rewrite IH by lia. apply scanG_shift.
Qed.
End Scan.

(* ------------------------------------------------------------------ semL *)
Lemma length_semL : forall vs f trace, length (semL vs f trace) = length trace.
Proof.
  intros vs f trace. induction f; simpl;
    rewrite ?map_length, ?length_delay, ?length_scan; auto.
  - rewrite length_map2; congruence.
  - rewrite length_map2; [congruence|]. rewrite combine_length. lia.
  - rewrite combine_length. lia.
Qed.

Theorem semL_spec : forall vs trace f i,
  i < length trace ->
  nth i (semL vs f trace) false = sem f (sigma_of vs trace) i.
Proof.
  intros vs trace. induction f; intros i Hi.
  - simpl. now rewrite (nth_map_lt _ _ _ _ i false []).
  - simpl. now rewrite (nth_map_lt _ _ _ _ i false []).
  - simpl. now rewrite (nth_map_lt _ _ _ _ i false []).
  - simpl. rewrite (nth_map_lt _ _ _ _ i false false)
      by (now rewrite length_semL). now rewrite IHf.
  - simpl. rewrite (nth_map2 _ _ _ _ _ _ i false false false)
      by (rewrite ?length_semL; auto). now rewrite IHf1, IHf2.
  - simpl. rewrite (nth_map2 _ _ _ _ _ _ i false false (false, false));
      rewrite ?combine_length, ?length_semL; try lia.
    rewrite nth_combine by (now rewrite !length_semL). simpl.
    now rewrite IHf1, IHf2, IHf3.
  - simpl semL. rewrite nth_delay by (now rewrite length_semL).
    destruct i; simpl; auto. apply IHf. lia.
  - simpl semL. rewrite nth_delay by (now rewrite length_semL).
    destruct i; simpl; auto. apply IHf. lia.
  - simpl semL. rewrite (nth_scan _ _ false) by (now rewrite length_semL).
    induction i.
    + simpl. apply IHf. lia.
    + rewrite sem_hist_S. cbn [scanG]. rewrite IHi by lia. now rewrite IHf.
  - simpl semL. rewrite (nth_scan _ _ false) by (now rewrite length_semL).
    induction i.
    + simpl. apply IHf. lia.
    + rewrite sem_once_S. cbn [scanG]. rewrite IHi by lia. now rewrite IHf.
  - simpl semL.
    rewrite (nth_scan _ _ (false, false))
      by (rewrite combine_length, !length_semL; lia).
    induction i.
    + cbn [scanG]. rewrite nth_combine by (now rewrite !length_semL).
      rewrite sem_since_0. simpl. apply IHf2. lia.
    + rewrite sem_since_S. cbn [scanG]. rewrite IHi by lia.
      rewrite nth_combine by (now rewrite !length_semL). simpl.
      now rewrite IHf1, IHf2.
  - simpl. now rewrite (nth_map_lt _ _ _ _ i false []).
  - simpl. now rewrite (nth_map_lt _ _ _ _ i false []).
  - simpl. now rewrite (nth_map_lt _ _ _ _ i false []).
Qed.

(* ------------------------------------------------------ names -> positions *)
Definition lk (names : list string) (st : list bool) (v : string) : bool :=
  match index_of v names with
  | Some k => nth k st false
  | None => false
  end.

Lemma index_of_lt : forall v l k, index_of v l = Some k -> k < length l.
Proof.
  induction l as [|x l IH]; simpl; intros k H; [discriminate|].
  destruct (String.eqb x v).
  - injection H as <-. lia.
  - destruct (index_of v l) eqn:E; [|discriminate]. injection H as <-.
    specialize (IH _ eq_refl). lia.
Qed.

Lemma index_of_app : forall v a b,
  index_of v (a ++ b)%list =
  match index_of v a with
  | Some k => Some k
  | None => match index_of v b with
            | Some k => Some (length a + k)
            | None => None
            end
  end.
Proof.
  induction a as [|x a IH]; simpl; intros b.
  - destruct (index_of v b); auto.
  - destruct (String.eqb x v); auto. rewrite IH.
    destruct (index_of v a); auto. destruct (index_of v b); auto.
Qed.

Lemma index_of_mem : forall v l,
  mem v l = match index_of v l with Some _ => true | None => false end.
Proof.
  induction l as [|x l IH]; simpl; auto. unfold mem in *. simpl.
  rewrite (String.eqb_sym v x). destruct (String.eqb x v); simpl; auto.
  rewrite IH. destruct (index_of v l); auto.
Qed.

Lemma lookup_lk : forall vs bits v, lookup vs bits v = lk vs bits v.
Proof.
  unfold lk. induction vs as [|x vs IH]; simpl; intros bits v; auto.
  destruct bits as [|b bits].
  - destruct (String.eqb x v); auto. destruct (index_of v vs); auto.
  - destruct (String.eqb x v); auto. rewrite IH.
    destruct (index_of v vs); auto.
Qed.

Lemma find_index : forall v T d,
  find v T = match index_of v (map t_name T) with
             | Some k => Some (nth k T d)
             | None => None
             end.
Proof.
  induction T as [|u T IH]; simpl; intros d; auto.
  destruct (String.eqb (t_name u) v); auto. rewrite (IH d).
  destruct (index_of v (map t_name T)); auto.
Qed.

Lemma evalI_resolve : forall names f cur nxt ec en,
  (forall v, ec v = lk names cur v) -> (forall v, en v = lk names nxt v) ->
  evalI cur nxt (resolve names f) = evalA ec en f.
Proof.
  intros names. induction f; intros cur nxt ec en Hc Hn.
  - simpl. rewrite Hc. unfold lk. destruct (index_of v names); auto.
  - simpl. rewrite Hc. unfold lk. destruct (index_of a names); auto.
  - reflexivity.
  - simpl. now rewrite (IHf cur nxt ec en).
  - simpl. now rewrite (IHf1 cur nxt ec en), (IHf2 cur nxt ec en).
  - simpl. now rewrite (IHf1 cur nxt ec en), (IHf2 cur nxt ec en), (IHf3 cur nxt ec en).
  - simpl. now apply IHf.
  - reflexivity.
  - reflexivity.
  - reflexivity.
Qed.

(* ------------------------------------------------- states of the sequence *)
Lemma translate_names : forall fx unt f,
  x_names (translate fx unt f) = map t_name (x_testers (translate fx unt f)).
Proof. intros. unfold translate. now destruct (tr fx unt f []). Qed.

Definition state_at (vs : list string) (T : list tester)
    (trace : list (list bool)) (i : nat) : list bool :=
  (map (fun col => nth i col false)
       (map (fun t => semL vs (t_tracks t) trace) T) ++ nth i trace [])%list.

Lemma length_states : forall auxtab trace,
  length (states auxtab trace) = length trace.
Proof. intros. unfold states. now rewrite map_length, seq_length. Qed.

Lemma nth_states : forall vs T trace i,
  i < length trace ->
  nth i (states (map (fun t => semL vs (t_tracks t) trace) T) trace) []
  = state_at vs T trace i.
Proof.
  intros vs T trace i Hi. unfold states.
  rewrite (nth_map_lt _ _ _ _ i [] 0) by (now rewrite seq_length).
  now rewrite seq_nth by auto.
Qed.

Lemma state_env : forall vs T trace i v,
  i < length trace ->
  comb (map t_name T) (sigma_of vs trace)
       (canon T (sigma_of vs trace)) i v
  = lk (map t_name T ++ vs)%list (state_at vs T trace i) v.
Proof.
  intros vs T trace i v Hi. unfold comb, lk, state_at.
  rewrite index_of_mem, index_of_app.
  set (tab := map (fun t => semL vs (t_tracks t) trace) T).
  assert (LT : length (map (fun col : list bool => nth i col false) tab) = length T)
    by (unfold tab; now rewrite !map_length).
  destruct (index_of v (map t_name T)) as [k|] eqn:E.
  - pose proof (index_of_lt _ _ _ E) as Hk. rewrite map_length in Hk.
    unfold canon. rewrite (find_index v T (mkT "" (TConst true) (TConst true) None (FConst true))), E.
    rewrite app_nth1 by lia.
    rewrite (nth_map_lt _ _ _ _ k false []) by (unfold tab; now rewrite map_length).
    unfold tab.
    rewrite (nth_map_lt _ _ _ _ k [] (mkT "" (TConst true) (TConst true) None (FConst true))) by auto.
    now rewrite semL_spec.
  - unfold sigma_of. rewrite lookup_lk. unfold lk.
    destruct (index_of v vs) as [k|]; auto.
    rewrite map_length, <- LT. now rewrite app_nth2_plus.
Qed.

(* --------------------------------------------------------- all_steps etc. *)
Lemma all_steps_spec : forall p sts,
  all_steps p sts =
  forallb (fun i => p (nth i sts []) (nth (S i) sts []))
          (seq 0 (length sts - 1)).
Proof.
  intros p. induction sts as [|a sts IH]; auto.
  destruct sts as [|b rest]; auto.
  change (all_steps p (a :: b :: rest)) with (p a b && all_steps p (b :: rest)).
  rewrite IH. simpl length. replace (S (S (length rest)) - 1) with (S (length rest)) by lia.
  replace (S (length rest) - 1) with (length rest) by lia.
  simpl seq. cbn [forallb nth]. f_equal.
  rewrite <- seq_shift. now rewrite forallb_map.
Qed.

(* ------------------------------------------------------------- main lemma *)
Theorem check_trace_fast_correct : forall fx unt f I vs trace,
  let M := translate fx unt f in
  check_trace_fast f M (resolve_all M I vs) vs trace
  = check_trace f M I vs (length trace) trace.
Proof.
  intros fx unt f I vs trace M.
  pose proof (translate_names fx unt f) as HN. fold M in HN.
  unfold check_trace_fast, check_trace, resolve_all. cbn [r_i_init r_i_trans
    r_i_formula r_m_init r_m_trans r_m_formula].
  set (T := x_testers M) in *. rewrite HN.
  set (names := (map t_name T ++ vs)%list).
  remember (states (map (fun t => semL vs (t_tracks t) trace) T) trace) as sts eqn:ES.
  set (sigma := sigma_of vs trace).
  set (rho := comb (map t_name T) sigma (canon T sigma)).
  assert (LS : length sts = length trace) by (rewrite ES; apply length_states).
  assert (EV : forall i j g, i < length trace -> j < length trace ->
            evalI (nth i sts []) (nth j sts []) (resolve names g)
            = evalA (rho i) (rho j) g).
  { intros i j g Hi Hj. rewrite ES. rewrite !nth_states by auto.
    apply evalI_resolve; intros v; unfold rho, sigma; now apply state_env. }
  clear ES.
  destruct (length trace) as [|m] eqn:EL.
  - destruct sts; [reflexivity|discriminate].
  - destruct sts as [|s0 rest]; [discriminate|].
    pose proof (EV 0 0) as EV0. cbn [nth] in EV0.
    unfold eval. rewrite !EV0 by lia.
    rewrite all_steps_spec, LS. replace (S m - 1) with m by lia.
    rewrite (forallb_nth _ _ (combine (s0 :: rest) (semL vs f trace)) ([], false)).
    rewrite combine_length, LS, length_semL, EL, Nat.min_id.
    f_equal; [f_equal|].
    + apply forallb_ext_in. intros i Hi. apply in_seq in Hi.
      rewrite !(EV i (S i)) by lia. reflexivity.
    + apply forallb_ext_in. intros i Hi. apply in_seq in Hi.
      rewrite nth_combine by (now rewrite LS, length_semL). cbn [fst snd].
      rewrite semL_spec by lia. rewrite !(EV i i) by lia. reflexivity.
Qed.

Lemma all_seqs_length : forall (A : Type) (vals : list A) n s,
  In s (all_seqs vals n) -> length s = n.
Proof.
  induction n; simpl; intros s H.
  - destruct H as [<-|[]]. reflexivity.
  - apply in_flat_map in H. destruct H as [s' [Hs' H]].
    apply in_map_iff in H. destruct H as [a [<- _]]. simpl. f_equal. auto.
Qed.

Theorem check_all_fast_correct : forall fx unt f I vs n,
  check_all_fast fx unt f I vs n = check_all fx unt f I vs n.
Proof.
  intros. unfold check_all_fast, check_all. apply forallb_ext_in.
  intros s Hs. rewrite check_trace_fast_correct.
  now rewrite (all_seqs_length _ _ _ _ Hs).
Qed.

(* ------------------------------------------ the enumeration is exhaustive *)
Lemma all_vals_complete : forall n l, length l = n -> In l (all_vals n).
Proof.
  induction n; intros l H.
  - destruct l; [simpl; auto|discriminate].
  - destruct l as [|b l]; [discriminate|]. simpl. apply in_flat_map.
    exists l. split; [apply IHn; simpl in H; lia|]. destruct b; simpl; auto.
Qed.

Lemma all_vals_length : forall n l, In l (all_vals n) -> length l = n.
Proof.
  induction n; simpl; intros l H.
  - destruct H as [<-|[]]. reflexivity.
  - apply in_flat_map in H. destruct H as [l' [Hl H]].
    destruct H as [<-|[<-|[]]]; simpl; f_equal; auto.
Qed.

Lemma all_seqs_members : forall (A : Type) (vals : list A) n s,
  In s (all_seqs vals n) -> forall x, In x s -> In x vals.
Proof.
  induction n; simpl; intros s H x Hx.
  - destruct H as [<-|[]]. destruct Hx.
  - apply in_flat_map in H. destruct H as [s' [Hs' H]].
    apply in_map_iff in H. destruct H as [a [<- Ha]].
    destruct Hx as [<-|Hx]; eauto.
Qed.

Lemma all_seqs_complete : forall (A : Type) (vals : list A) n s,
  length s = n -> (forall x, In x s -> In x vals) -> In s (all_seqs vals n).
Proof.
  induction n; intros s H Hin.
  - destruct s; [simpl; auto|discriminate].
  - destruct s as [|a s]; [discriminate|]. simpl. apply in_flat_map.
    exists s. split.
    + apply IHn; [simpl in H; lia|]. intros x Hx. apply Hin. simpl. auto.
    + apply (in_map (fun a0 => a0 :: s)). apply Hin. simpl. auto.
Qed.

(* check_all is true iff check_trace is true on EVERY sequence of n
   valuations of vs *)
Theorem check_all_exhaustive : forall fx unt f I vs n,
  check_all fx unt f I vs n = true <->
  forall trace, length trace = n ->
    (forall bits, In bits trace -> length bits = length vs) ->
    check_trace f (translate fx unt f) I vs n trace = true.
Proof.
  intros. unfold check_all. rewrite forallb_forall. split.
  - intros H trace Hl Hb. apply H. apply all_seqs_complete; auto.
    intros bits Hbits. apply all_vals_complete. auto.
  - intros H trace Hin. apply H.
    + eapply all_seqs_length; eauto.
    + intros bits Hbits. apply all_vals_length.
      eapply all_seqs_members; eauto.
Qed.
