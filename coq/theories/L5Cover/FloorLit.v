(* L5Cover / FloorLit: the quantified formulas of cover._floor and
   cover._contains_covered, literally, over the explicit carrier of all
   parameter assignments (a_x, b_x ranging over the bit-field of x, improper
   boxes included).  FloorLitProofs.v shows that they define the joins/meets
   that the executable model (MinCover.floor / MinCover.ceil) computes.

   Model file: definitions only. *)
From Coq Require Import List ZArith Bool Lia.
Import ListNotations.
From Omega Require Import L5Cover.Boxes L5Cover.MinCover.
Open Scope Z_scope.

(* all pairs (a, b) of values of one variable *)
Definition pairs (r : ival) : list ival :=
  flat_map (fun a => map (pair a) (zrange (fst r) (snd r)))
           (zrange (fst r) (snd r)).

(* all assignments to the parameters *)
Fixpoint params (rs : ranges) : list box :=
  match rs with
  | [] => [[]]
  | r :: rs' =>
      let ps := params rs' in
      flat_map (fun i => map (cons i) ps) (pairs r)
  end.

Section Lit.
Variable rs : ranges.
(* [leq u p] is the BDD u_leq_p; _floor swaps it with p_leq_u when
   signatures=True *)
Variable leq : box -> box -> bool.
Variable is_signature : box -> bool.   (* u_is_signature *)
Variable is_prime : box -> bool.       (* q_is_prime *)

(* cover._contains_covered:
     r(p, q) == \A u:  (u_is_signature /\ u_leq_q) => u_leq_p *)
Definition contains_covered (p q : box) : bool :=
  allb (fun u => if is_signature u then if leq u q then leq u p else true
                 else true) (params rs).

(* cover._floor:
     r(p) == \E q:  q_is_prime /\ p_like_q /\ \A u:  u_like_q => p_leq_u *)
Definition floor_formula (p : box) : bool :=
  anyb (fun q =>
    if is_prime q then
      if contains_covered p q then
        allb (fun u => if contains_covered u q then leq p u else true)
             (params rs)
      else false
    else false) (params rs).
End Lit.

(* _floor(x, y, signatures=False): floors of the elements of Y *)
Definition floors_lit (rs : ranges) (X Y : list box) (p : box) : bool :=
  floor_formula rs box_leb (mem_box X) (mem_box Y) p.
(* _floor(x, y, signatures=True): the two arguments and the order are
   swapped: ceilings of the elements of X *)
Definition ceilings_lit (rs : ranges) (X Y : list box) (p : box) : bool :=
  floor_formula rs (fun u p => box_leb p u) (mem_box Y) (mem_box X) p.
