(* C09 — the computed cover is a minimum-cardinality cover by prime boxes.
   Statements only; proofs in theories/L5Cover/*Proofs.v, CyclicCoreOpt.v,
   MinCoverFull.v, MinCoverRefuted.v and MinCoverBounded*.v.

   Layers:
   (1) property-level definitions (Boxes.v): implicant, prime = maximal
       implicant of [f or outside care], cover of f, minimum cover by primes;
   (2) a VERIFIED reference and checker, sound and complete for (1) on every
       finite instance; the check runs the checker inside Coq on the cover
       returned by the real cover.minimize;
   (3) the executable model of cover.minimize (MinCover.v, the code as
       repaired by fixes/F13.patch and fixes/F16.patch): [C09_full], for ALL
       instances and ALL pick functions a returned cover is a minimum cover
       by primes (cyclic-core reduction loses no optimal cover
       [C09_cyclic_core_preserves_minimum], exactness of the branch and bound
       [C09_branch_and_bound_invariants]); the same on the finite domains of
       the property's quantifier by computation ([_bounded], kept as
       independent evidence); [C09_total]/[C09_full_total]: the model returns
       a cover on every instance (the fuel suffices, no pick from an empty
       set); the unrepaired leaf of _traverse is refuted
       ([C09_refuted_unrepaired_leaf], finding F16). *)
From Coq Require Import List ZArith NArith Bool.
Import ListNotations.
From Omega Require Import L5Cover.Boxes L5Cover.BoxesProofs L5Cover.MinCover
  L5Cover.MinCoverProofs L5Cover.MinCoverBounded L5Cover.MinCoverBounded3L
  L5Cover.MinCoverBounded4 L5Cover.BoundsProofs L5Cover.FloorLit
  L5Cover.FloorLitProofs L5Cover.MinCoverOld L5Cover.MinCoverRefuted
  L5Cover.CyclicCoreOpt L5Cover.MinCoverFull L5Cover.CyclicCoreTotal
  L5Cover.MinCoverTotal.
From OmegaGen Require Import CoverCCGen.
From OmegaGP Require Import CoverCCBridge.
Open Scope Z_scope.

(* ---- (1) the order used by the code is inclusion of boxes *)
Theorem C09_order_is_inclusion : forall rs b c,
  box_in rs b -> length c = length b ->
  (box_le b c <-> box_incl b c).
Proof.
  intros rs b c Hb Hl. split; [apply box_le_incl | apply (box_incl_le rs); assumption].
Qed.

(* ---- (2) verified reference and checker, every finite instance *)
Theorem C09_checker_correct : forall rs f care K,
  is_min_prime_cover_b rs f care K = true <-> min_prime_cover rs f care K.
Proof. exact is_min_prime_cover_b_correct. Qed.

Theorem C09_min_cover_size_correct : forall rs f care,
  match min_cover_size rs f care with
  | Some k => (exists K, prime_cover rs f care K /\ length K = k) /\
              (forall K, prime_cover rs f care K -> (k <= length K)%nat)
  | None => forall K, ~ prime_cover rs f care K
  end.
Proof. exact min_cover_size_correct. Qed.

Theorem C09_min_cover_ref_correct : forall rs f care,
  exists K, min_cover_ref rs f care = Some K /\ min_prime_cover rs f care K.
Proof. exact min_cover_ref_total. Qed.

(* the primes together always cover f, so a minimum cover by primes exists *)
Theorem C09_primes_cover : forall rs f care,
  prime_cover rs f care (primes rs f care).
Proof. exact primes_cover. Qed.

(* ---- (3) the model of cover.minimize *)
(* soundness, all instances, all picks: the result consists of distinct
   maximal boxes of [f or outside care] and covers every point of f *)
Theorem C09_minimize_sound : forall rs pick f care K,
  (forall s b, pick s = Some b -> In b s) ->
  minimize rs pick f care = Some K ->
  NoDup K /\ prime_cover rs f care K.
Proof. exact minimize_sound. Qed.

(* non-vacuity: the hypothesis on pick is satisfiable, and the model returns
   a cover on a function with a non-empty cyclic core *)
Example C09_pick_first_ok : forall s b, pick_first s = Some b -> In b s.
Proof. exact pick_first_ok. Qed.
Example C09_pick_last_ok : forall s b, pick_last s = Some b -> In b s.
Proof. exact pick_last_ok. Qed.
Example C09_minimize_returns :
  exists K, minimize rs3 pick_first (fun_of_mask 126) (fun _ => true) = Some K
            /\ length K = 3%nat.
Proof. eexists. split; vm_compute; reflexivity. Qed.

(* minimality on the finite domains of the property's quantifier, by
   computation (independent of C09_full; these also show that the model
   RETURNS a cover there); truth tables are bit masks ([fun_of_mask]) *)
Theorem C09_bounded_3 :
  forall fm cm, (fm < 256)%N -> (cm < 256)%N ->
  exists K, minimize rs3 pick_first (fun_of_mask fm) (fun_of_mask cm) = Some K /\
            min_prime_cover rs3 (fun_of_mask fm) (fun_of_mask cm) K.
Proof. exact minimize_min_bounded_3_first. Qed.

Theorem C09_bounded_3_pick_last :
  forall fm cm, (fm < 256)%N -> (cm < 256)%N ->
  exists K, minimize rs3 pick_last (fun_of_mask fm) (fun_of_mask cm) = Some K /\
            min_prime_cover rs3 (fun_of_mask fm) (fun_of_mask cm) K.
Proof. exact minimize_min_bounded_3_last. Qed.

Theorem C09_bounded_4 :
  forall fm, (fm < 65536)%N ->
  exists K, minimize rs4 pick_first (fun_of_mask fm) care_true = Some K /\
            min_prime_cover rs4 (fun_of_mask fm) care_true K.
Proof. exact minimize_min_bounded_4_first. Qed.

Theorem C09_bounded_grid :
  forall fm, (fm < 512)%N ->
  exists K, minimize rsg pick_first (grid_fun fm) hints33 = Some K /\
            min_prime_cover rsg (grid_fun fm) hints33 K.
Proof. exact minimize_min_bounded_grid_first. Qed.

Theorem C09_bounded_grid_pick_last :
  forall fm, (fm < 512)%N ->
  exists K, minimize rsg pick_last (grid_fun fm) hints33 = Some K /\
            min_prime_cover rsg (grid_fun fm) hints33 K.
Proof. exact minimize_min_bounded_grid_last. Qed.

(* regression for finding F13 (repaired by fixes/F13.patch): the unrepaired
   code returns nothing (NameError) when the top-level traversal is pruned;
   the repaired code returns the greedy cover, which is then minimum *)
Example C09_refuted_unrepaired_returns :
  minimize_unrepaired rs4 pick_first (fun_of_mask 32453) care_true = None /\
  exists K, minimize rs4 pick_first (fun_of_mask 32453) care_true = Some K /\
            length K = 5%nat.
Proof. exact minimize_unrepaired_fails. Qed.

(* regression for finding F16 (repaired by fixes/F16.patch): with the
   unrepaired leaf of cover._traverse (MinCoverOld.v: a leaf is accepted
   without comparing its cost with bab.upper_bound) the model returns a cover
   that is NOT minimum for some pick function: six two-valued variables, the
   model returns 4 primes although 3 primes cover f; the repaired model
   returns a minimum cover on the same instance and pick *)
Example C09_refuted_unrepaired_leaf :
  (forall s b, w_pick s = Some b -> In b s) /\
  exists K K',
    minimize_old w_rs w_pick w_f w_care = Some K /\
    prime_cover w_rs w_f w_care K' /\ (length K' < length K)%nat.
Proof. exact minimize_old_not_minimum_witness. Qed.

Example C09_refuted_unrepaired_leaf_full :
  ~ (forall rs pick f care K,
       (forall s b, pick s = Some b -> In b s) ->
       minimize_old rs pick f care = Some K ->
       min_prime_cover rs f care K).
Proof. exact minimize_old_full_refuted. Qed.

Example C09_repaired_leaf_witness :
  exists K, minimize w_rs w_pick w_f w_care = Some K /\
            min_prime_cover w_rs w_f w_care K.
Proof. exact w_minimize_repaired_3. Qed.

(* the model computes floors/ceilings as joins/meets; the quantified BDD
   formulas of cover._floor / _contains_covered (FloorLit.v, literal) define
   exactly these, over all parameter assignments [pwf] *)
Theorem C09_floor_formula_is_join : forall rs, ranges_ok rs ->
  forall X Y,
  (forall x, In x X -> pwf rs x) -> (forall y, In y Y -> pwf rs y) ->
  forall p, pwf rs p ->
  (floors_lit rs X Y p = true <-> In p (map (floor rs X) Y)).
Proof. exact floors_lit_correct. Qed.

Theorem C09_ceiling_formula_is_meet : forall rs, ranges_ok rs ->
  forall X Y,
  (forall x, In x X -> pwf rs x) -> (forall y, In y Y -> pwf rs y) ->
  forall p, pwf rs p ->
  (ceilings_lit rs X Y p = true <-> In p (map (ceil rs Y) X)).
Proof. exact ceilings_lit_correct. Qed.

Example C09_floor_formula_instance :
  let f := fun_of_mask 126 in
  let X := embed rs3 f in
  let Y := primes rs3 f (fun _ => true) in
  forallb (fun p => Bool.eqb (floors_lit rs3 X Y p)
                             (mem_box (map (floor rs3 X) Y) p) &&
                    Bool.eqb (ceilings_lit rs3 X Y p)
                             (mem_box (map (ceil rs3 Y) X) p))
          (params rs3) = true.
Proof. vm_compute. reflexivity. Qed.

(* two ingredients of C09_full, for all instances and picks: the greedy
   independent set gives a valid lower bound and the greedy cover a valid
   upper bound on the size of covers by primes *)
Theorem C09_partial_lower_bound : forall rs pick f care K,
  (forall s b, pick s = Some b -> In b s) ->
  prime_cover rs f care K ->
  forall fuel,
  (indep_size pick fuel (embed rs f) (primes rs f care) <= length K)%nat.
Proof. exact lower_bound_valid. Qed.

Theorem C09_partial_upper_bound : forall rs pick f care c0 fuel,
  (forall s b, pick s = Some b -> In b s) ->
  some_cover pick fuel (embed rs f) (primes rs f care) = Some c0 ->
  prime_cover rs f care c0.
Proof. exact upper_bound_valid. Qed.

(* ---- (3') the unbounded statement, all instances, all pick functions *)
(* the cyclic-core reduction (maximal ceilings, essential elements, maximal
   floors, iterated) loses no optimal cover: every cover C of X by elements
   of Y yields a cover C' of the core by elements of the core with
   |essential| + |C'| <= |C|; with [cyclic_core_sound] (a cover of the core
   plus the essentials covers X) the reduction preserves the minimum
   (Coudert 1994; spec/mincover/CyclicCore.tla, StrongReduction.tla) *)
Theorem C09_cyclic_core_preserves_minimum : forall rs X Y Xc Yc Ec,
  cyclic_core rs X Y = Some (Xc, Yc, Ec) ->
  below_top rs X -> above_bot rs Y -> antichain Y ->
  (forall C, incl Ec C -> cov C Xc -> cov C X) /\
  sub Yc Y /\ sub Ec Y /\
  (forall C, incl C Y -> cov C X ->
     exists C', incl C' Yc /\ cov C' Xc /\ (length Ec + length C' <= length C)%nat).
Proof.
  intros rs X Y Xc Yc Ec H HX HY HA.
  destruct (cyclic_core_sound rs _ _ _ _ _ H HX) as [_ S].
  destruct (cyclic_core_opt rs _ _ _ _ _ H HX HY HA) as [_ [_ [_ [A [B C]]]]].
  split; [exact S|]. split; [exact A|]. split; [exact B | exact C].
Qed.

(* exactness of the branch and bound _traverse/_branch: the returned lower
   bound is valid, a returned cover costs at most the new upper bound, the
   upper bound never increases, after the call it is at most path cost + the
   size of ANY cover of the node (pruning loses nothing), and it is unchanged
   when nothing is returned *)
Theorem C09_branch_and_bound_invariants : forall rs pick,
  (forall s b, pick s = Some b -> In b s) ->
  forall fuel X Y pc ub r lb ub',
  traverse rs pick fuel X Y pc ub = Some (r, lb, ub') ->
  below_top rs X -> above_bot rs Y -> antichain Y ->
  (forall C, incl C Y -> cov C X -> (lb <= length C)%nat) /\
  (forall Cr, r = Some Cr -> sub Cr Y /\ (pc + length Cr <= ub')%nat) /\
  (ub' <= ub)%nat /\
  (forall C, incl C Y -> cov C X -> (ub' <= pc + length C)%nat) /\
  (r = None -> ub' = ub).
Proof.
  intros rs pick Hp fuel X Y pc ub r lb ub' H HX HY HA.
  exact (traverse_inv rs pick Hp fuel X Y pc ub (r, lb, ub') H HX HY HA).
Qed.

(* non-vacuity: the covering problem of an instance satisfies the
   hypotheses (X below top, Y = primes above bottom and an antichain) *)
Example C09_instance_hypotheses : forall rs f care,
  below_top rs (embed rs f) /\ above_bot rs (primes rs f care) /\
  antichain (primes rs f care).
Proof.
  intros. split; [apply embed_below_top|].
  split; [apply primes_above_bot | apply primes_antichain].
Qed.

(* C09: for every instance and every pick function, a cover returned by the
   model of cover.minimize is a duplicate-free minimum-cardinality cover of f
   by primes of f \/ ~care *)
Theorem C09_full :
  forall rs pick f care K,
    (forall s b, pick s = Some b -> In b s) ->
    minimize rs pick f care = Some K ->
    min_prime_cover rs f care K.
Proof. exact minimize_min. Qed.

(* ---- (3'') totality: the model returns a cover on EVERY instance, for every
   pick function that returns an element of every non-empty set (as dd's
   pick does): the fuel of the model suffices and no element is picked from
   an empty set *)
(* the cyclic-core fixpoint ends within its fuel (at most 2 (|X| + |Y|) + 2
   iterations: an iteration that does not shrink X or Y makes every x its
   own ceiling and every y its own floor, and the next one either finds an
   essential element or is the last) *)
Theorem C09_cyclic_core_terminates : forall rs X Y,
  below_top rs X -> above_bot rs Y -> exists r, cyclic_core rs X Y = Some r.
Proof. exact cyclic_core_total. Qed.

(* in the cyclic core of a feasible problem every x lies below at least two
   elements of Y: removing the branching element keeps the problem feasible *)
Theorem C09_cyclic_core_two_covers : forall rs X Y Xc Yc Ec,
  cyclic_core rs X Y = Some (Xc, Yc, Ec) -> feasible rs X Y ->
  feasible rs Xc Yc /\ (length Yc <= length Y)%nat /\
  forall x d, In x Xc -> exists y, In y Yc /\ y <> d /\ box_le x y.
Proof. exact cyclic_core_two_covers. Qed.

Theorem C09_total : forall rs pick f care,
  (forall s b, pick s = Some b -> In b s) ->
  (forall s, pick s = None -> s = []) ->
  exists K, minimize rs pick f care = Some K.
Proof. exact minimize_total. Qed.

(* C09, total form: on every instance the model returns a duplicate-free
   minimum-cardinality cover of f by primes of f \/ ~care *)
Theorem C09_full_total : forall rs pick f care,
  (forall s b, pick s = Some b -> In b s) ->
  (forall s, pick s = None -> s = []) ->
  exists K, minimize rs pick f care = Some K /\ min_prime_cover rs f care K.
Proof.
  intros rs pick f care Hok Htot.
  destruct (minimize_total rs pick f care Hok Htot) as [K HK].
  exists K. split; [exact HK | apply (minimize_min rs pick f care K Hok HK)].
Qed.

(* ---- tie T below the branch-and-bound skeleton: the functions of cover.py
   that the model's cyclic_core / indep_size / some_cover / unfloors /
   max_ceilings / max_floors stand for, translated from the working tree on
   every run (gen/CoverCCGen.v), ARE those model functions
   (GenProofs/CoverCCBridge.v) *)
Theorem C09_cyclic_core_code_is_model : forall rs f care,
  cyclic_core_gen rs (S (cc_fuel (embed rs f) (primes rs f care))) f care =
  cyclic_core_fc rs f care.
Proof. exact cyclic_core_gen_is_model. Qed.

Theorem C09_cyclic_core_fixpoint_code_is_model : forall rs fuel X Y,
  cyclic_core_fixpoint_gen rs (S fuel) X Y = cc_loop rs fuel X Y [].
Proof. exact cyclic_core_fixpoint_gen_is_cc_loop. Qed.

Theorem C09_max_transpose_code_is_model : forall rs X Y,
  max_transpose_gen rs X Y true = max_ceilings rs X Y /\
  max_transpose_gen rs X Y false = max_floors rs X Y.
Proof. intros; split; reflexivity. Qed.

Theorem C09_lower_bound_code_is_model : forall pick fuel X Y,
  lower_bound_gen pick (S fuel) X Y =
  if indep_ok pick fuel X Y then Some (indep_size pick fuel X Y) else None.
Proof. exact lower_bound_gen_is_model. Qed.

Theorem C09_upper_bound_code_is_model : forall pick fuel X Y,
  upper_bound_gen pick (S fuel) X Y =
  option_map (@length box) (some_cover pick fuel X Y).
Proof. exact upper_bound_gen_is_model. Qed.

Theorem C09_some_cover_code_is_model : forall pick,
  (forall s b, pick s = Some b -> In b s) -> forall fuel X Y,
  some_cover_gen pick (S fuel) X Y false =
  option_map (fun c => (Some c, length c)) (some_cover pick fuel X Y).
Proof. exact some_cover_gen_cover_is_model. Qed.

Theorem C09_unfloors_code_is_model : forall pick C Y,
  unfloors_gen pick C Y = unfloors pick C Y.
Proof. exact unfloors_gen_is_model. Qed.

(* non-vacuity of the hypotheses on pick *)
Example C09_pick_first_total : forall s, pick_first s = None -> s = [].
Proof. exact pick_first_total. Qed.
Example C09_pick_last_total : forall s, pick_last s = None -> s = [].
Proof. exact pick_last_total. Qed.

Print Assumptions C09_order_is_inclusion.
Print Assumptions C09_checker_correct.
Print Assumptions C09_min_cover_size_correct.
Print Assumptions C09_min_cover_ref_correct.
Print Assumptions C09_primes_cover.
Print Assumptions C09_minimize_sound.
Print Assumptions C09_floor_formula_is_join.
Print Assumptions C09_ceiling_formula_is_meet.
Print Assumptions C09_partial_lower_bound.
Print Assumptions C09_partial_upper_bound.
Print Assumptions C09_bounded_3.
Print Assumptions C09_bounded_3_pick_last.
Print Assumptions C09_bounded_4.
Print Assumptions C09_bounded_grid.
Print Assumptions C09_bounded_grid_pick_last.
Print Assumptions C09_refuted_unrepaired_leaf.
Print Assumptions C09_cyclic_core_preserves_minimum.
Print Assumptions C09_branch_and_bound_invariants.
Print Assumptions C09_full.
Print Assumptions C09_cyclic_core_terminates.
Print Assumptions C09_cyclic_core_two_covers.
Print Assumptions C09_total.
Print Assumptions C09_full_total.
Print Assumptions C09_refuted_unrepaired_leaf_full.
Print Assumptions C09_cyclic_core_code_is_model.
Print Assumptions C09_cyclic_core_fixpoint_code_is_model.
Print Assumptions C09_max_transpose_code_is_model.
Print Assumptions C09_lower_bound_code_is_model.
Print Assumptions C09_upper_bound_code_is_model.
Print Assumptions C09_some_cover_code_is_model.
Print Assumptions C09_unfloors_code_is_model.
