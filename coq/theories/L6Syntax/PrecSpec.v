(* L6 Syntax — what "the tree determined by the precedence/associativity
   table" means.  Surface trees (with explicit parentheses), their yield,
   the tree they denote, and the predicate `respects` saying that a surface
   tree groups its operators as the table demands.  Specification file:
   definitions only. *)
From Coq Require Import List String Ascii NArith Bool.
From Omega Require Import L6Syntax.Tokens L6Syntax.Parser L6Syntax.Flatten.
Import ListNotations.
Local Open Scope string_scope.

Inductive numlit := NPos (v : string) | NNeg (v : string).

Inductive atom :=
| AVar (v : string)                          (* identifier *)
| ABool (t : token)                          (* TRUE / FALSE in some spelling *)
| ANum (n : numlit)
| AStr (v : string)                          (* "name" *)
| ARange (a : numlit) (dots : token) (b : numlit).   (* a .. b *)

Inductive stree :=
| SAtom (a : atom)
| SPre (t : token) (x : stree)               (* prefix operator *)
| SPost (t : token) (x : stree)              (* postfix operator *)
| SBin (t : token) (l r : stree)             (* infix operator *)
| SParen (x : stree)                         (* ( x ) *)
| SIte (kw : token) (a b c : stree)          (* ite ( a , b , c ) *)
| SIf (a b c : stree)                        (* IF a THEN b ELSE c *)
| SQuant (kw : token) (vars : list (string * option token)) (body : stree).
                                             (* \A x, y' : body  (kw = \A or \E;
                                                a variable may carry a postfix
                                                operator token) *)

Definition LPt := Tok "LPAREN" "(".
Definition RPt := Tok "RPAREN" ")".
Definition CMt := Tok "COMMA" ",".
Definition MINUSt := Tok "MINUS" "-".
Definition DQt := Tok "DQUOTES" """".
Definition IFt := Tok "IF" "IF".
Definition THENt := Tok "THEN" "THEN".
Definition ELSEt := Tok "ELSE" "ELSE".
Definition COLONt := Tok "COLON" ":".

Definition var_toks (v : string * option token) : list token :=
  match snd v with
  | None => [Tok "NAME" (fst v)]
  | Some t => [Tok "NAME" (fst v); t]
  end.
(* x, y', z *)
Fixpoint vars_toks (vs : list (string * option token)) : list token :=
  match vs with
  | [] => []
  | [v] => var_toks v
  | v :: r => (var_toks v ++ Tok "COMMA" "," :: vars_toks r)%list
  end.

Definition num_toks (n : numlit) : list token :=
  match n with
  | NPos v => [Tok "NUMBER" v]
  | NNeg v => [MINUSt; Tok "NUMBER" v]
  end.
Definition num_tree (n : numlit) : tree :=
  match n with
  | NPos v => Term KNum v
  | NNeg v => Term KNum ("-" ++ v)
  end.

Definition atom_toks (a : atom) : list token :=
  match a with
  | AVar v => [Tok "NAME" v]
  | ABool t => [t]
  | ANum n => num_toks n
  | AStr v => [DQt; Tok "NAME" v; DQt]
  | ARange a d b => (num_toks a ++ d :: num_toks b)%list
  end.
Definition atom_tree (a : atom) : tree :=
  match a with
  | AVar v => Term KVar v
  | ABool t => Term KBool (tval t)
  | ANum n => num_tree n
  | AStr v => Term KStr ("""" ++ v ++ """")
  | ARange a d b => Bin CBinary (tval d) (num_tree a) (num_tree b)
  end.

Local Open Scope list_scope.

(* the token sequence of a surface tree: no parentheses but the explicit ones *)
Fixpoint yield (s : stree) : list token :=
  match s with
  | SAtom a => atom_toks a
  | SPre t x => t :: yield x
  | SPost t x => yield x ++ [t]
  | SBin t l r => yield l ++ t :: yield r
  | SParen x => LPt :: yield x ++ [RPt]
  | SIte kw a b c =>
      kw :: LPt :: yield a ++ CMt :: yield b ++ CMt :: yield c ++ [RPt]
  | SIf a b c => IFt :: yield a ++ THENt :: yield b ++ ELSEt :: yield c
  | SQuant kw vs body => kw :: vars_toks vs ++ COLONt :: yield body
  end.

Section Spec.
Variable T : ptable.

Definition var_tree (v : string * option token) : tree :=
  match snd v with
  | None => Term KVar (fst v)
  | Some t =>
      match pt_post T (tty t) with
      | Some (_, _, name) => Un name (Term KVar (fst v))
      | None => Un (tval t) (Term KVar (fst v))
      end
  end.
Definition var_wf (v : string * option token) : Prop :=
  match snd v with
  | None => True
  | Some t => pt_bin T (tty t) = None /\ pt_post T (tty t) <> None
  end.

(* the syntax tree a surface tree denotes *)
Fixpoint erase (s : stree) : tree :=
  match s with
  | SAtom a => atom_tree a
  | SPre t x => Un (tval t) (erase x)
  | SPost t x =>
      match pt_post T (tty t) with
      | Some (_, _, name) => Un name (erase x)
      | None => Un (tval t) (erase x)
      end
  | SBin t l r =>
      match pt_bin T (tty t) with
      | Some (c, _, _) => Bin c (tval t) (erase l) (erase r)
      | None => Bin CBinary (tval t) (erase l) (erase r)
      end
  | SParen x => erase x
  | SIte kw a b c => Opr (tval kw) [erase a; erase b; erase c]
  | SIf a b c => Opr "ite" [erase a; erase b; erase c]
  | SQuant kw vs body =>
      Opr (tval kw) [Opr "params" (map var_tree vs); erase body]
  end.

Definition atom_wf (a : atom) : Prop :=
  match a with
  | ABool t => tty t = "TRUE" \/ tty t = "FALSE"
  | ARange _ d _ => tty d = "DOTS"
  | _ => True
  end.

(* every operator token of the tree is an operator of its kind in the table *)
Fixpoint wf (s : stree) : Prop :=
  match s with
  | SAtom a => atom_wf a
  | SPre t x => pt_pre T (tty t) <> None /\ wf x
  | SPost t x => pt_bin T (tty t) = None /\ pt_post T (tty t) <> None /\ wf x
  | SBin t l r => pt_bin T (tty t) <> None /\ wf l /\ wf r
  | SParen x => wf x
  | SIte kw a b c => tty kw = "ITE" /\ wf a /\ wf b /\ wf c
  | SIf a b c => wf a /\ wf b /\ wf c
  | SQuant kw vs body =>
      (tty kw = "FORALL" \/ tty kw = "EXISTS") /\ vs <> [] /\ Forall var_wf vs
      /\ wf body
  end.

(* binding strengths.  lbp: what an operator needs from the context to be
   absorbed; rbp / pbp: the minimum binding its right operand is parsed
   under. *)
Definition bin_lv (t : token) : N :=
  match pt_bin T (tty t) with Some (_, _, lv) => lv | None => 0%N end.
Definition bin_rbp (t : token) : N :=
  match pt_bin T (tty t) with Some (_, a, lv) => bind_of (a, lv) | None => 0%N end.
Definition pre_pbp (t : token) : N :=
  match pt_pre T (tty t) with Some al => bind_of al | None => 0%N end.
Definition post_lv (t : token) : N :=
  match pt_post T (tty t) with Some (_, lv, _) => lv | None => 0%N end.

(* would the operator loop running under minimum binding m stop in front of
   token t ?  (t is not an operator, or it cannot be shifted under m) *)
Definition tok_stops (m : N) (t : token) : bool :=
  match pt_bin T (tty t) with
  | Some (_, _, lv) => negb (can_shift m lv)
  | None =>
      match pt_post T (tty t) with
      | Some (_, lv, _) => negb (can_shift m lv)
      | None =>
          if String.eqb (tty t) "TRUNCATE"
          then negb (can_shift m (snd (pt_rule T "TRUNCATE")))
          else true
      end
  end.
Definition stops (m : N) (o : option token) : Prop :=
  match o with
  | Some t => tok_stops m t = true
  | None => True
  end.

Definition not_dots (o : option token) : Prop :=
  match o with
  | Some t => String.eqb (tty t) "DOTS" = false
  | None => True
  end.

Definition atom_rok (o : option token) (a : atom) : Prop :=
  match a with
  | ANum _ => not_dots o       (* `n ..` would start a range *)
  | _ => True
  end.

(* right edge: with o the token that follows s, every operator on the right
   spine of s has finished (its loop stops at o) *)
Fixpoint rok (o : option token) (s : stree) : Prop :=
  match s with
  | SBin t l r => stops (bin_rbp t) o /\ rok o r
  | SPre t x => stops (pre_pbp t) o /\ rok o x
  | SAtom a => atom_rok o a
  | SIf _ _ c => stops (bind_of (pt_rule T "IF_THEN_ELSE")) o /\ rok o c
  | SQuant _ _ body => stops (bind_of (pt_rule T "COLON")) o /\ rok o body
  | SPost _ _ | SParen _ | SIte _ _ _ _ => True
  end.

(* left edge: every infix/postfix operator on the left spine of s can be
   absorbed under minimum binding m *)
Fixpoint fits (m : N) (s : stree) : Prop :=
  match s with
  | SBin t l r => can_shift m (bin_lv t) = true /\ fits m l
  | SPost t x => can_shift m (post_lv t) = true /\ fits m x
  | _ => True
  end.

(* the surface tree groups its operators as the table demands *)
Fixpoint respects (s : stree) : Prop :=
  match s with
  | SAtom _ => True
  | SPre t x => respects x /\ fits (pre_pbp t) x
  | SPost t x => respects x /\ rok (Some t) x
  | SBin t l r =>
      respects l /\ respects r /\ rok (Some t) l /\ fits (bin_rbp t) r
  | SParen x => respects x
  | SIte _ a b c => respects a /\ respects b /\ respects c
  | SIf a b c =>
      respects a /\ respects b /\ respects c
      /\ fits (bind_of (pt_rule T "IF_THEN_ELSE")) c
  | SQuant _ _ body => respects body /\ fits (bind_of (pt_rule T "COLON")) body
  end.

Fixpoint cost (s : stree) : nat :=
  match s with
  | SAtom _ => 2
  | SPre _ x => cost x + 3
  | SPost _ x => cost x + 1
  | SBin _ l r => cost l + cost r + 2
  | SParen x => cost x + 3
  | SIte _ a b c => cost a + cost b + cost c + 5
  | SIf a b c => cost a + cost b + cost c + 5
  | SQuant _ vs body => List.length vs + cost body + 6
  end.

(* side conditions on the table: the keywords that start an operand are not
   prefix operators, the closing tokens and `..`, `==` are not operators *)
Definition nud_keywords : list string :=
  ["NAME"; "TRUE"; "FALSE"; "NUMBER"; "LPAREN"; "DQUOTES"; "ITE"; "IF"; "LET";
   "FORALL"; "EXISTS"; "AT"; "MINUS";
   "VARIABLE"; "VARIABLES"; "CONSTANT"; "CONSTANTS"].
Definition non_operators : list string :=
  ["RPAREN"; "COMMA"; "DOTS"; "DEF"; "THEN"; "ELSE"; "COLON"].
Definition is_none {A} (o : option A) : bool :=
  match o with None => true | Some _ => false end.
Definition table_ok : bool :=
  forallb (fun k => is_none (pt_pre T k)) nud_keywords
  && forallb (fun k => is_none (pt_bin T k) && is_none (pt_post T k)) non_operators.

(* ---- the flatten-able fragment (what `flatten` prints re-parseably) ---- *)
Variable optok : string -> token.     (* the lexer on one operator spelling *)

Definition unquote (v : string) : string := substring 1 (String.length v - 2) v.
Definition bin_class (ty : string) : option bclass :=
  match pt_bin T ty with Some (c, _, _) => Some c | None => None end.

(* Besides terminals, unary and binary nodes and ite, the fragment contains
   the two forms of ast.Nodes.Operator.flatten that print concrete syntax:
     Opr op [Opr "params" vs; body]   op = \A or \E, lexed as FORALL / EXISTS;
                                      vs a NON-EMPTY list of binders, each a
                                      tree of the fragment (the parser reads a
                                      list of expressions there: variables x,
                                      primed variables ( X x ), ...)
     Opr "LET" [Lst ds; body]         ds a NON-EMPTY list of definitions
                                      Bin CBinary "==" (Term KOpname name) e
                                      with e in the fragment
   and in both the body is in the fragment. *)
(* every element of l satisfies P (a fixpoint, so that it can be used inside
   the definition of a predicate on the nested type `tree`) *)
Definition allP (P : tree -> Prop) : list tree -> Prop :=
  fix all (l : list tree) : Prop :=
    match l with
    | [] => True
    | x :: r => P x /\ all r
    end.
(* a definition of LET as the parser builds it, its body satisfying P *)
Definition def_okP (P : tree -> Prop) (d : tree) : Prop :=
  match d with
  | Bin CBinary o (Term KOpname _) e => o = "==" /\ P e
  | _ => False
  end.

Fixpoint flat_ok (t : tree) : Prop :=
  match t with
  | Term KVar _ => True
  | Term KNum _ => True
  | Term KBool v =>
      (tty (optok v) = "TRUE" \/ tty (optok v) = "FALSE") /\ tval (optok v) = v
  | Term KStr v => v = ("""" ++ unquote v ++ """")%string
  | Term KOpname _ => False
  | Un op x =>
      pt_pre T (tty (optok op)) <> None /\ tval (optok op) = op /\ flat_ok x
  | Bin c op l r =>
      bin_class (tty (optok op)) = Some c /\ tval (optok op) = op
      /\ flat_ok l /\ flat_ok r
  | Opr op args =>
      match args with
      | [a; b; c] =>
          tty (optok op) = "ITE" /\ tval (optok op) = op
          /\ flat_ok a /\ flat_ok b /\ flat_ok c
      | [p; body] =>
          match p with
          | Opr po vs =>
              (op = "\A" \/ op = "\E") /\ po = "params"
              /\ (tty (optok op) = "FORALL" \/ tty (optok op) = "EXISTS")
              /\ tval (optok op) = op
              /\ vs <> [] /\ allP flat_ok vs /\ flat_ok body
          | Lst ds =>
              op = "LET" /\ tty (optok op) = "LET" /\ tval (optok op) = op
              /\ ds <> [] /\ allP (def_okP flat_ok) ds /\ flat_ok body
          | _ => False
          end
      | _ => False
      end
  | Lst _ => False
  end.

End Spec.
