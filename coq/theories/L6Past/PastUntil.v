(* L6Past / PastUntil: solutions of the testers over an infinite sequence,
   with the recurrence goals (`win`) of the prophecy testers that
   translate(..., until=True) creates for U, [] and <>.  Definitions only. *)
From Coq Require Import String List Bool.
Import ListNotations.
From Omega Require Import L6Past.PastSyntax L6Past.PastModel L6Past.PastSpec.

(* rho satisfies the initial condition, the transition relation at every
   step, and every recurrence goal infinitely often *)
Definition solves_inf (X : translation) (rho : nat -> env) : Prop :=
  eval (rho 0) (x_init X) = true /\
  (forall i, evalA (rho i) (rho (S i)) (x_trans X) = true) /\
  (forall w, In w (x_win X) -> forall i, exists j, i <= j /\ eval (rho j) w = true).

Definition is_solution_inf (X : translation) (sigma alpha : nat -> env) : Prop :=
  solves_inf X (comb (x_names X) sigma alpha).

(* every auxiliary variable is true exactly where its formula holds *)
Definition reflects (T : list tester) (sigma alpha : nat -> env) : Prop :=
  forall t, In t T -> forall i,
    alpha i (t_name t) = true <-> holds (t_tracks t) sigma i.
