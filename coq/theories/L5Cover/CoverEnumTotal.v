(* L5Cover / CoverEnumTotal: the model of cover_enum.minimize (as repaired by
   fixes/F2.patch and fixes/F17.patch) RETURNS on every instance with a
   non-empty f: no assertion of the code fails and the recursion ends within
   the fuel of the model. *)
From Coq Require Import List ZArith Bool Lia Arith SetoidList.
Import ListNotations.
From Omega Require Import L5Cover.Boxes L5Cover.BoxesProofs L5Cover.MinCover
  L5Cover.MinCoverProofs L5Cover.BoundsProofs L5Cover.CyclicCoreOpt
  L5Cover.MinCoverFull L5Cover.CyclicCoreTotal L5Cover.MinCoverTotal
  L5Cover.CoverEnum L5Cover.CoverEnumProofs L5Cover.CoverEnumLemmas
  L5Cover.CoverEnumStep L5Cover.CoverEnumExact L5Cover.CoverEnumTotalLemmas.
Open Scope Z_scope.

(* ------------------------------------------------------------ _mincovers_from_floor *)
Lemma fold_left_bind_union_distinct {A} (h : A -> res family) l : forall init r,
  fold_left (fun acc c =>
     bind acc (fun done => bind (h c) (fun b => ok (union_fam done b)))) l (inl init) = inl r ->
  distinct init -> distinct r.
Proof.
  induction l as [|c l IH]; intros init r H HD; cbn [fold_left] in H.
  - inversion H; subst. exact HD.
  - cbn [bind] in H. destruct (h c) as [b|e] eqn:Eh.
    + cbn [bind ok] in H. apply (IH _ _ H). apply union_fam_distinct, HD.
    + cbn [bind] in H. rewrite fold_left_bind_inr in H. discriminate.
Qed.

Lemma Forall2_refl_in {A} (R : A -> A -> Prop) l : (forall a, In a l -> R a a) -> Forall2 R l l.
Proof.
  induction l as [|a l IH]; intros H; constructor; [apply H; left; reflexivity|].
  apply IH. intros b Hb. apply H. right. exact Hb.
Qed.

Lemma from_floor_total core X Yfl :
  distinct core ->
  (forall c, In c core -> c <> [] /\ NoDup c /\ antichain c /\ incl c Yfl /\ cov c X /\
                          irredundant c X) ->
  exists fl, from_floor core X Yfl = inl fl /\ (core <> [] -> fl <> []) /\ distinct fl /\
    forall q, In q fl -> exists c, In c core /\ NoDup q /\ incl q Yfl /\ cov q X /\
                                   length q = length c.
Proof.
  intros HD Hc.
  destruct (fold_left_bind_union_total (fun c => enumerate_below c X Yfl) core []) as [r Hr].
  { intros c Hcc. destruct (Hc c Hcc) as [A [B [C [D [E F]]]]].
    destruct (enumerate_below_total X Yfl c A B C D E F) as [b [Hb _]]. exists b. exact Hb. }
  assert (Eb : from_floor core X Yfl =
               bind (inl r) (fun r => check (Nat.leb (length core) (length r)) (ok r))).
  { unfold from_floor. rewrite <- Hr. reflexivity. }
  rewrite Eb. cbn [bind].
  destruct (fold_left_bind_union _ _ _ _ Hr) as [_ [Hall Hback]].
  assert (Hcount : (length core <= length r)%nat).
  { apply (distinct_count (fun c => c)); [exact HD | | auto].
    intros c Hcc. destruct (Hall c Hcc) as [b [Hb Hhas]]. apply Hhas.
    destruct (Hc c Hcc) as [A [B [C [D [E F]]]]].
    apply (enumerate_below_complete X Yfl c b c Hb B C); [|exact E].
    apply Forall2_refl_in. intros m Hm. split; [apply D, Hm | apply box_le_refl]. }
  apply Nat.leb_le in Hcount. rewrite Hcount. cbn [check].
  exists r. split; [reflexivity|]. split; [|split].
  - intros Hne En. subst r. destruct core; [contradiction|]. apply Nat.leb_le in Hcount.
    cbn in Hcount. lia.
  - apply (fold_left_bind_union_distinct _ _ _ _ Hr), distinct_nil.
  - intros q Hq. destruct (Hback q Hq) as [[]|[c [b [Hcc [Hb Hqb]]]]].
    destruct (Hc c Hcc) as [A [B [C [D [E F]]]]].
    destruct (enumerate_below_total X Yfl c A B C D E F) as [b' [Hb' [_ Hq']]].
    rewrite Hb in Hb'. inversion Hb'; subst b'.
    destruct (Hq' q Hqb) as [Q1 [Q2 [Q3 Q4]]]. exists c. repeat (split; [assumption|]). exact Q4.
Qed.

(* ------------------------------------------------------------ _mincovers_from_unfloor *)
Section Unfloor.
Variable Y : list box.
Variable flo : box -> box.       (* the floor of an element of Y *)
Hypothesis flo_le : forall y, In y Y -> box_le (flo y) y.

(* some element of Y whose floor is f *)
Definition lift (f : box) : box :=
  match find (fun y => box_eqb (flo y) f) Y with Some y => y | None => f end.

Lemma lift_spec f : (exists y, In y Y /\ flo y = f) -> In (lift f) Y /\ flo (lift f) = f.
Proof.
  intros [y [Hy Ey]]. unfold lift. destruct (find (fun y => box_eqb (flo y) f) Y) as [y'|] eqn:E.
  - apply find_some in E. destruct E as [A B]. split; [exact A | apply box_eqb_true, B].
  - exfalso. pose proof (find_none _ _ E y Hy) as H. cbn in H. rewrite Ey, box_eqb_refl in H.
    discriminate.
Qed.

Lemma from_unfloor_total fl :
  distinct fl ->
  (forall cf, In cf fl -> cf <> [] /\ NoDup cf /\ injective_above Y cf /\
                          forall f, In f cf -> exists y, In y Y /\ flo y = f) ->
  exists mc, from_unfloor fl Y = inl mc /\ (fl <> [] -> mc <> []) /\
    forall q, In q mc -> exists cf, In cf fl /\ NoDup q /\ incl q Y /\
                                    length q = length cf /\
                                    Forall2 (fun f y => box_le f y) cf q.
Proof.
  intros HD Hc.
  assert (Hab : forall cf, In cf fl -> forall f, In f cf -> exists y, In y Y /\ box_le f y).
  { intros cf Hcf f Hf. destruct (Hc cf Hcf) as [_ [_ [_ H]]]. destruct (H f Hf) as [y [Hy Ey]].
    exists y. split; [exact Hy|]. rewrite <- Ey. apply flo_le, Hy. }
  destruct (fold_left_bind_union_total (fun c => enumerate_unfloor c Y) fl []) as [r Hr].
  { intros cf Hcf. destruct (Hc cf Hcf) as [A [B [C _]]].
    destruct (enumerate_unfloor_total Y cf A B C (Hab cf Hcf)) as [b [Hb _]]. exists b. exact Hb. }
  assert (Eb : from_unfloor fl Y =
               bind (inl r) (fun r => check (Nat.leb (length fl) (length r)) (ok r))).
  { unfold from_unfloor. rewrite <- Hr. reflexivity. }
  rewrite Eb. cbn [bind].
  destruct (fold_left_bind_union _ _ _ _ Hr) as [_ [Hall Hback]].
  assert (Hcount : (length fl <= length r)%nat).
  { apply (distinct_count (map lift)); [exact HD | |].
    - intros cf Hcf. destruct (Hall cf Hcf) as [b [Hb Hhas]]. apply Hhas.
      destruct (Hc cf Hcf) as [_ [_ [_ Hfl]]].
      apply (enumerate_unfloor_complete Y cf b (map lift cf) Hb).
      clear -Hfl flo_le. induction cf as [|f cf IH]; cbn [map]; constructor.
      + destruct (lift_spec f (Hfl f (or_introl eq_refl))) as [A B].
        split; [exact A|]. rewrite <- B at 1. apply flo_le, A.
      + apply IH. intros f' Hf'. apply Hfl. right. exact Hf'.
    - intros cf cf' Hcf Hcf' [S1 S2].
      destruct (Hc cf Hcf) as [_ [_ [_ Hfl]]]. destruct (Hc cf' Hcf') as [_ [_ [_ Hfl']]].
      split; intros f Hf.
      + assert (Hin : In (lift f) (map lift cf')) by (apply S1, in_map, Hf).
        apply in_map_iff in Hin. destruct Hin as [f' [E Hf']].
        destruct (lift_spec f (Hfl f Hf)) as [_ B]. destruct (lift_spec f' (Hfl' f' Hf')) as [_ B'].
        rewrite <- B, <- E, B'. exact Hf'.
      + assert (Hin : In (lift f) (map lift cf)) by (apply S2, in_map, Hf).
        apply in_map_iff in Hin. destruct Hin as [f' [E Hf']].
        destruct (lift_spec f (Hfl' f Hf)) as [_ B]. destruct (lift_spec f' (Hfl f' Hf')) as [_ B'].
        rewrite <- B, <- E, B'. exact Hf'. }
  apply Nat.leb_le in Hcount. rewrite Hcount. cbn [check].
  exists r. split; [reflexivity|]. split.
  - intros Hne En. subst r. destruct fl; [contradiction|]. apply Nat.leb_le in Hcount.
    cbn in Hcount. lia.
  - intros q Hq. destruct (Hback q Hq) as [[]|[cf [b [Hcf [Hb Hqb]]]]].
    destruct (Hc cf Hcf) as [A [B [C _]]].
    destruct (enumerate_unfloor_total Y cf A B C (Hab cf Hcf)) as [b' [Hb' [_ Hq']]].
    rewrite Hb in Hb'. inversion Hb'; subst b'.
    destruct (Hq' q Hqb) as [Q1 [Q2 [Q3 Q4]]]. exists cf. repeat (split; [assumption|]). exact Q4.
Qed.
End Unfloor.

(* ------------------------------------------------------------ one reduction step, all covers *)
Lemma cov_cover_refines C X : cov C X -> cover_refines X C = true.
Proof.
  intros H. unfold cover_refines. rewrite allb_forallb. apply forallb_forall. intros x Hx.
  destruct (H x Hx) as [c [Hc Hle]]. rewrite anyb_existsb. apply existsb_exists.
  exists c. split; [exact Hc | apply box_leb_true, Hle].
Qed.

Lemma mincover_length X Y c c' : mincover X Y c -> mincover X Y c' -> length c = length c'.
Proof.
  intros [A [B C]] [A' [B' C']]. pose proof (C c' A' B'). pose proof (C' c A B). lia.
Qed.

(* in a minimum cover every element is needed *)
Lemma mincover_irredundant X Y c : mincover X Y c -> irredundant c X.
Proof.
  intros HM m Hm. pose proof (mincover_NoDup _ _ _ HM) as HN. destruct HM as [HI [HC HMin]].
  set (rest := remove box_eq_dec m c).
  destruct (filter (fun x => if box_leb x m then negb (anyb (box_leb x) rest) else false) X)
    as [|x0 l] eqn:Ef.
  - exfalso.
    assert (Hcov : cov rest X).
    { intros x Hx. destruct (HC x Hx) as [w [Hw Hle]].
      destruct (box_eq_dec w m) as [->|Hne].
      - destruct (anyb (box_leb x) rest) eqn:Ea.
        + rewrite anyb_existsb in Ea. apply existsb_exists in Ea. destruct Ea as [o [Ho Hxo]].
          exists o. split; [exact Ho | apply box_leb_true, Hxo].
        + exfalso.
          assert (Hin : In x (filter (fun x => if box_leb x m then negb (anyb (box_leb x) rest)
                                               else false) X)).
          { apply filter_In. split; [exact Hx|]. apply box_leb_true in Hle. rewrite Hle, Ea. reflexivity. }
          rewrite Ef in Hin. destruct Hin.
      - exists w. split; [apply in_in_remove; assumption | exact Hle]. }
    assert (Hinc : incl rest Y).
    { intros w Hw. apply in_remove in Hw. apply HI, Hw. }
    pose proof (HMin rest Hinc Hcov). pose proof (remove_length_lt box_eq_dec c m Hm). unfold rest in *. lia.
  - assert (Hin : In x0 (filter (fun x => if box_leb x m then negb (anyb (box_leb x) rest)
                                           else false) X)) by (rewrite Ef; left; reflexivity).
    apply filter_In in Hin. destruct Hin as [Hx0 Hc].
    destruct (box_leb x0 m) eqn:El; [|discriminate].
    exists x0. split; [exact Hx0|]. split; [apply box_leb_true, El|].
    intros m' Hm' Hne Hle. apply negb_true_iff in Hc. rewrite anyb_existsb in Hc.
    assert (T : existsb (box_leb x0) rest = true).
    { apply existsb_exists. exists m'. split; [apply in_in_remove; assumption | apply box_leb_true, Hle]. }
    congruence.
Qed.

Section Step2.
Variable rs : ranges.
Variable X Y : list box.
Hypothesis HF : feasible rs X Y.

Let xt := max_ceilings rs X Y.
Let yt := max_floors rs xt Y.
Let yfl := dedup (map (floor rs xt) Y).
Let e := inter xt yt.
Let x := diff xt e.
Let y := diff yt e.

Lemma s2_HX : below_top rs X. Proof. apply HF. Qed.
Lemma s2_HY : above_bot rs Y. Proof. apply HF. Qed.

(* every cover of (X, Y) goes down to a cover of (x, y) *)
Lemma step_cover_down C :
  incl C Y -> cov C X ->
  exists C4, incl C4 y /\ cov C4 x /\ (length C4 + length e <= length C)%nat.
Proof.
  intros HI HC. pose proof s2_HX as HX. pose proof s2_HY as HY.
  assert (HCxt : cov C xt) by (apply max_ceilings_cov_fwd; assumption).
  set (Cf := map (floor rs xt) C).
  assert (HCf_in : incl Cf yfl).
  { intros z Hz. unfold Cf in Hz. apply in_map_iff in Hz. destruct Hz as [c [<- Hc]].
    unfold yfl. rewrite dedup_In. apply in_map, HI, Hc. }
  assert (HCf_cov : cov Cf xt).
  { intros z Hz. destruct (HCxt z Hz) as [c [Hc Hle]].
    exists (floor rs xt c). split; [apply in_map, Hc|].
    apply (floor_above rs xt c z (step_xt_below_top rs X Y HX) Hz Hle). }
  destruct (Forall2_exists (fun z m => In m yt /\ box_le z m) Cf) as [Cm HFm].
  { intros z Hz. apply HCf_in in Hz. destruct (maxima_above _ _ Hz) as [m [Hm Hle]].
    exists m. split; [exact Hm | exact Hle]. }
  assert (HCm_in : incl Cm yt).
  { intros m Hm. destruct (Forall2_In_r _ _ _ _ HFm Hm) as [z [_ [H _]]]. exact H. }
  assert (HCm_cov : cov Cm xt).
  { intros z Hz. destruct (HCf_cov z Hz) as [c [Hc Hle]].
    destruct (Forall2_In_l _ _ _ _ HFm Hc) as [m [Hm [_ Hcm]]].
    exists m. split; [exact Hm | apply box_le_trans with c; assumption]. }
  assert (HCm_len : length Cm = length C).
  { rewrite <- (Forall2_len _ _ _ HFm). apply map_length. }
  assert (He : incl e Cm).
  { intros z Hz. apply inter_In in Hz. destruct Hz as [Hz1 Hz2].
    destruct (HCm_cov z Hz1) as [c [Hc Hle]].
    rewrite (step_yt_antichain rs X Y z c Hz2 (HCm_in c Hc) Hle). exact Hc. }
  exists (diff Cm e). split; [|split].
  - intros c Hc. apply diff_In in Hc. apply diff_In. split; [apply HCm_in, Hc | apply Hc].
  - intros z Hz. apply diff_In in Hz. destruct Hz as [Hz1 Hze].
    destruct (HCm_cov z Hz1) as [c [Hc Hle]]. exists c. split; [|exact Hle].
    apply diff_In. split; [exact Hc|]. intros Hce. apply Hze.
    assert (c = z).
    { apply inter_In in Hce. destruct Hce as [Hc1 _].
      apply (step_xt_maximal rs X Y z c Hz1 Hc1 Hle). }
    subst c. exact Hce.
  - pose proof (diff_length_le Cm e (step_e_NoDup rs X Y) He). lia.
Qed.

Lemma step_yt_below_top : below_top rs yt.
Proof.
  intros m Hm. destruct (step_yt_sub rs X Y s2_HX s2_HY m Hm) as [y0 [Hy0 Hle]].
  apply box_le_trans with y0; [exact Hle | apply HF, Hy0].
Qed.

Lemma step_feasible : feasible rs x y.
Proof.
  split; [apply (step_x_below_top rs X Y s2_HX)|].
  split; [apply (step_y_above_bot rs X Y s2_HX)|]. split.
  - intros m Hm. apply diff_In in Hm. apply step_yt_below_top, Hm.
  - destruct HF as [_ [_ [_ Hcov]]].
    destruct (step_cover_down Y (incl_refl Y) Hcov) as [C4 [A [B _]]].
    intros z Hz. destruct (B z Hz) as [c [Hc Hle]]. exists c. split; [apply A, Hc | exact Hle].
Qed.

Lemma step_xt_nonempty : X <> [] -> xt <> [].
Proof.
  intros HX En. destruct X as [|x0 X']; [contradiction|].
  assert (Hin : In (ceil rs Y x0) (dedup (map (ceil rs Y) (x0 :: X')))).
  { apply dedup_In, in_map. left. reflexivity. }
  destruct (maxima_above _ _ Hin) as [m [Hm _]]. unfold xt, max_ceilings in En.
  rewrite En in Hm. destruct Hm.
Qed.

(* a minimum cover of (x, y) with the essential elements *)
Lemma step_min_up c :
  mincover x y c ->
  let c1 := union c e in
  NoDup c1 /\ incl c1 yt /\ cov c1 xt /\ length c1 = (length c + length e)%nat /\
  (forall D, incl D yt -> cov D xt -> (length c1 <= length D)%nat) /\
  (forall D, incl D yfl -> cov D xt -> (length c1 <= length D)%nat) /\
  (forall C, incl C Y -> cov C X -> (length c1 <= length C)%nat).
Proof.
  intros HM c1. pose proof (mincover_NoDup _ _ _ HM) as HcN. destruct HM as [HI [HC HMin]].
  pose proof s2_HX as HX. pose proof s2_HY as HY.
  assert (Hdisj : forall b, In b e -> ~ In b c).
  { intros b Hb Hbc. apply HI in Hbc. apply diff_In in Hbc. apply (proj2 Hbc), Hb. }
  assert (Hlen : length c1 = (length c + length e)%nat).
  { unfold c1, union. rewrite app_length. f_equal. unfold diff.
    rewrite filter_all_true; [reflexivity|]. intros b Hb. apply negb_true_iff.
    destruct (mem_box c b) eqn:E; [|reflexivity]. apply mem_box_true in E.
    exfalso. apply (Hdisj b Hb E). }
  assert (Hin : incl c1 yt).
  { intros b Hb. apply union_In in Hb. destruct Hb as [Hb|Hb].
    - apply HI in Hb. apply diff_In in Hb. apply Hb.
    - apply inter_In in Hb. apply Hb. }
  assert (Hcov : cov c1 xt).
  { intros z Hz. destruct (in_dec box_eq_dec z e) as [Hze|Hze].
    - exists z. split; [apply union_In; right; exact Hze | apply box_le_refl].
    - destruct (HC z) as [w [Hw Hle]]; [apply diff_In; split; assumption|].
      exists w. split; [apply union_In; left; exact Hw | exact Hle]. }
  assert (Hmin_yt : forall D, incl D yt -> cov D xt -> (length c1 <= length D)%nat).
  { intros D HD HDc.
    assert (He : incl e D).
    { intros z Hz. apply inter_In in Hz. destruct Hz as [Hz1 Hz2].
      destruct (HDc z Hz1) as [w [Hw Hle]].
      rewrite (step_yt_antichain rs X Y z w Hz2 (HD w Hw) Hle). exact Hw. }
    assert (L : (length c <= length (diff D e))%nat).
    { apply HMin.
      - intros w Hw. apply diff_In in Hw. apply diff_In. split; [apply HD, Hw | apply Hw].
      - intros z Hz. apply diff_In in Hz. destruct Hz as [Hz1 Hze].
        destruct (HDc z Hz1) as [w [Hw Hle]]. exists w. split; [|exact Hle].
        apply diff_In. split; [exact Hw|]. intros Hwe. apply Hze.
        assert (w = z).
        { apply inter_In in Hwe. destruct Hwe as [Hw1 _].
          apply (step_xt_maximal rs X Y z w Hz1 Hw1 Hle). }
        subst w. exact Hwe. }
    pose proof (diff_length_le D e (step_e_NoDup rs X Y) He). lia. }
  assert (Hmin_yfl : forall D, incl D yfl -> cov D xt -> (length c1 <= length D)%nat).
  { intros D HD HDc.
    destruct (Forall2_exists (fun z m => In m yt /\ box_le z m) D) as [Dm HFm].
    { intros z Hz. apply HD in Hz. destruct (maxima_above _ _ Hz) as [m [Hm Hle]].
      exists m. split; [exact Hm | exact Hle]. }
    rewrite (Forall2_len _ _ _ HFm). apply Hmin_yt.
    - intros m Hm. destruct (Forall2_In_r _ _ _ _ HFm Hm) as [z [_ [H _]]]. exact H.
    - intros z Hz. destruct (HDc z Hz) as [w [Hw Hle]].
      destruct (Forall2_In_l _ _ _ _ HFm Hw) as [m [Hm [_ Hwm]]].
      exists m. split; [exact Hm | apply box_le_trans with w; assumption]. }
  split; [apply union_NoDup; [exact HcN | apply (step_e_NoDup rs X Y)]|].
  split; [exact Hin|]. split; [exact Hcov|]. split; [exact Hlen|].
  split; [exact Hmin_yt|]. split; [exact Hmin_yfl|].
  intros C HCI HCc. destruct (step_cover_down C HCI HCc) as [C4 [A [B L]]].
  pose proof (HMin C4 A B). lia.
Qed.
End Step2.

(* ------------------------------------------------------------ the invariant of a call *)
(* a call on the node (X, Y) with path cost pc and upper bound ub returned
   (F, u): the bound did not increase; nothing returned means every cover of
   the node is more expensive than the bound; the returned covers are
   minimum covers of the node, duplicate-free, of cost at most u *)
Definition good (X Y : list box) (pc ub : nat) (F : family) (u : nat) : Prop :=
  (u <= ub)%nat /\
  (F = [] -> u = ub /\ forall C, incl C Y -> cov C X -> (ub < pc + length C)%nat) /\
  (forall c, In c F -> mincover X Y c /\ NoDup c /\ (pc + length c <= u)%nat).

Lemma check_true {A} (b : bool) (k : res A) : b = true -> check b k = k.
Proof. intros ->. reflexivity. Qed.

Lemma allb_true_iff {A} (f : A -> bool) l : allb f l = true <-> forall a, In a l -> f a = true.
Proof. rewrite allb_forallb. apply forallb_forall. Qed.

Lemma uniform_true F n : (forall c, In c F -> length c = n) -> uniform F = true.
Proof.
  intros H. unfold uniform. destruct F as [|c0 F']; [reflexivity|].
  apply allb_true_iff. intros d Hd. apply Nat.eqb_eq.
  rewrite (H d Hd), (H c0 (or_introl eq_refl)). reflexivity.
Qed.

Lemma is_nil_false {A} (l : list A) : l <> [] -> negb (is_nil l) = true.
Proof. destruct l; [contradiction | reflexivity]. Qed.

Section Wrap.
Variable rs : ranges.
Variable pick : list box -> option box.

Lemma wrap_total X Y pc ub Fc uc :
  feasible rs X Y -> X <> [] ->
  let xt := max_ceilings rs X Y in
  let yt := max_floors rs xt Y in
  let yfl := dedup (map (floor rs xt) Y) in
  let e := inter xt yt in
  let x := diff xt e in
  let y := diff yt e in
  let npc := (pc + length e)%nat in
  good x y npc ub Fc uc ->
  exists F u, wrap X Y xt yt yfl e y (Fc, uc) = inl (F, u) /\ good X Y pc ub F u.
Proof.
  intros HF HXne xt yt yfl e x y npc [G1 [G2 G3]].
  pose proof HF as [HX [HY [HYt Hcov]]].
  unfold wrap. cbn [fst snd].
  destruct Fc as [|c0 cs] eqn:EF.
  - (* nothing found in the core *)
    exists [], uc. split; [reflexivity|]. destruct (G2 eq_refl) as [Eu Hall].
    split; [exact G1|]. split; [|intros c []].
    intros _. split; [exact Eu|]. intros C HC HCc.
    destruct (step_cover_down rs X Y HF C HC HCc) as [C4 [A [B L]]].
    specialize (Hall C4 A B). unfold npc in Hall. fold xt yt e in L. lia.
  - rewrite <- EF in *. assert (HFne : Fc <> []) by (rewrite EF; discriminate).
    clear EF.
    (* facts about the members of the core family *)
    assert (Hc0 : In c0 Fc \/ True) by (right; exact I). clear Hc0.
    assert (Hmem : forall c, In c Fc ->
              let c1 := union c e in
              NoDup c1 /\ incl c1 yt /\ cov c1 xt /\ length c1 = (length c + length e)%nat /\
              (forall D, incl D yfl -> cov D xt -> (length c1 <= length D)%nat) /\
              (forall C, incl C Y -> cov C X -> (length c1 <= length C)%nat) /\
              mincover xt yt c1).
    { intros c Hc. destruct (G3 c Hc) as [HM _].
      destruct (step_min_up rs X Y HF c HM) as [A [B [C0 [D [E1 [E2 E3]]]]]].
      cbv zeta. split; [exact A|]. split; [exact B|]. split; [exact C0|]. split; [exact D|].
      split; [exact E2|]. split; [exact E3|]. split; [exact B|]. split; [exact C0 | exact E1]. }
    destruct Fc as [|c0' cs'] eqn:EF; [contradiction|]. rewrite <- EF in *. clear HFne.
    assert (Hc0 : In c0' Fc) by (rewrite EF; left; reflexivity).
    set (N := (length c0' + length e)%nat).
    assert (HlenF : forall c, In c Fc -> length c = length c0').
    { intros c Hc. apply (mincover_length x y); [apply (G3 c Hc) | apply (G3 c0' Hc0)]. }
    pose proof (step_xt_nonempty rs X Y HF HXne) as Hxtne. fold xt in Hxtne.
    assert (Hxt_bt : below_top rs xt) by (apply (step_xt_below_top rs X Y HX)).
    set (core := union_fam [] (map (fun c => union c e) Fc)).
    assert (Hcore : forall q, In q core -> exists c, In c Fc /\ q = union c e).
    { intros q Hq. destruct (union_fam_In _ _ _ Hq) as [[]|Hin]. apply in_map_iff in Hin.
      destruct Hin as [c [<- Hc]]. exists c. split; [exact Hc | reflexivity]. }
    assert (Hcore_ne : core <> []).
    { intros En. destruct (union_fam_has_r (map (fun c => union c e) Fc) [] (union c0' e))
        as [d [Hd _]]; [apply (in_map (fun c => union c e) Fc c0' Hc0)|].
      fold core in Hd. rewrite En in Hd. destruct Hd. }
    assert (Hq_ne : forall q, In q core -> q <> []).
    { intros q Hq En. destruct (Hcore q Hq) as [c [Hc ->]].
      destruct (Hmem c Hc) as [_ [_ [Hcv _]]]. destruct xt as [|z0 xt']; [contradiction|].
      destruct (Hcv z0 (or_introl eq_refl)) as [w [Hw _]]. rewrite En in Hw. destruct Hw. }
    (* _mincovers_from_floor *)
    destruct (from_floor_total core xt yfl) as [fl [Hfl [Hfl_ne [Hfl_d Hfl_q]]]].
    { apply union_fam_distinct, distinct_nil. }
    { intros q Hq. destruct (Hcore q Hq) as [c [Hc Eq]].
      destruct (Hmem c Hc) as [A [B [C0 [L [M1 [M2 M3]]]]]]. rewrite <- Eq in *.
      split; [apply Hq_ne, Hq|]. split; [exact A|].
      split; [apply (antichain_incl yt); [exact B | apply (step_yt_antichain rs X Y)]|].
      split; [intros b Hb; apply (step_yt_yfl rs X Y), B, Hb|]. split; [exact C0|].
      apply (mincover_irredundant xt yt q M3). }
    assert (Hflq : forall q, In q fl ->
              NoDup q /\ incl q yfl /\ cov q xt /\ length q = N).
    { intros q Hq. destruct (Hfl_q q Hq) as [c1 [Hc1 [A [B [C0 L]]]]].
      destruct (Hcore c1 Hc1) as [c [Hc Eq]]. destruct (Hmem c Hc) as [_ [_ [_ [L' _]]]].
      repeat (split; [assumption|]). rewrite L, Eq, L', (HlenF c Hc). reflexivity. }
    assert (Hx_nonempty : e = [] -> forall c, In c Fc -> c <> []).
    { intros Ee c Hc En. destruct (G3 c Hc) as [[_ [HC _]] _].
      destruct xt as [|z0 xt'] eqn:Ext; [contradiction|].
      assert (Hz0 : In z0 x) by (unfold x; rewrite Ee, diff_nil_r; left; reflexivity).
      destruct (HC z0 Hz0) as [w [Hw _]]. rewrite En in Hw. destruct Hw. }
    assert (HN1 : (1 <= N)%nat).
    { destruct (Nat.eq_dec N 0) as [E0|]; [|lia]. exfalso. unfold N in E0.
      assert (Ee : e = []) by (apply length_zero_iff_nil; lia).
      apply (Hx_nonempty Ee c0' Hc0). apply length_zero_iff_nil. lia. }
    (* _mincovers_from_unfloor *)
    destruct (Hmem c0' Hc0) as [_ [_ [_ [L0 [Mfl [MY _]]]]]].
    destruct (from_unfloor_total Y (floor rs xt)) with (fl := fl) as [mc [Hmc [Hmc_ne Hmc_q]]].
    { intros y0 Hy0. apply (floor_le rs xt Y y0 Hxt_bt HY Hy0). }
    { exact Hfl_d. }
    { intros cf Hcf. destruct (Hflq cf Hcf) as [A [B [C0 L]]].
      split; [intros En; rewrite En in L; cbn in L; lia|]. split; [exact A|]. split.
      - (* no element of Y lies above two elements of a minimum cover by floors *)
        intros y0 f f' Hy0 Hf Hf' Hfy Hf'y.
        destruct (box_eq_dec f f') as [E|Hne]; [exact E|]. exfalso.
        set (D := floor rs xt y0 :: remove box_eq_dec f (remove box_eq_dec f' cf)).
        assert (HD1 : incl D yfl).
        { intros b [<-|Hb].
          - unfold yfl. rewrite dedup_In. apply in_map, Hy0.
          - apply in_remove in Hb. destruct Hb as [Hb _]. apply in_remove in Hb. apply B, Hb. }
        assert (HD2 : cov D xt).
        { intros z Hz. destruct (C0 z Hz) as [w [Hw Hle]].
          destruct (box_eq_dec w f) as [->|Hnf].
          - exists (floor rs xt y0). split; [left; reflexivity|].
            apply (floor_above rs xt y0 z Hxt_bt Hz). apply box_le_trans with f; assumption.
          - destruct (box_eq_dec w f') as [->|Hnf'].
            + exists (floor rs xt y0). split; [left; reflexivity|].
              apply (floor_above rs xt y0 z Hxt_bt Hz). apply box_le_trans with f'; assumption.
            + exists w. split; [|exact Hle]. right. apply in_in_remove; [exact Hnf|].
              apply in_in_remove; assumption. }
        pose proof (Mfl D HD1 HD2) as LD.
        assert (L1 : (length (remove box_eq_dec f' cf) < length cf)%nat)
          by (apply remove_length_lt, Hf').
        assert (L2 : (length (remove box_eq_dec f (remove box_eq_dec f' cf))
                      < length (remove box_eq_dec f' cf))%nat).
        { apply remove_length_lt. apply in_in_remove; assumption. }
        unfold D in LD. cbn [length] in LD. rewrite L0 in LD. fold N in LD. lia.
      - intros f Hf. apply B in Hf. unfold yfl in Hf. rewrite dedup_In in Hf.
        apply in_map_iff in Hf. destruct Hf as [y0 [E Hy0]]. exists y0. split; assumption. }
    assert (Hfl_ne' : fl <> []) by (apply Hfl_ne, Hcore_ne).
    assert (Hmcq : forall q, In q mc ->
              NoDup q /\ incl q Y /\ cov q X /\ length q = N).
    { intros q Hq. destruct (Hmc_q q Hq) as [cf [Hcf [A [B [L HF2]]]]].
      destruct (Hflq cf Hcf) as [_ [_ [C0 L']]].
      split; [exact A|]. split; [exact B|]. split; [|rewrite L, L'; reflexivity].
      apply (max_ceilings_cov rs X Y q HX). intros z Hz. destruct (C0 z Hz) as [f [Hf Hle]].
      destruct (Forall2_In_l _ _ _ _ HF2 Hf) as [y0 [Hy0 Hfy]].
      exists y0. split; [exact Hy0 | apply box_le_trans with f; assumption]. }
    exists mc, uc. split.
    + (* none of the assertions fails *)
      fold core.
      rewrite check_true.
      2:{ destruct (is_nil e) eqn:Ee; [|reflexivity]. apply is_nil_false. intros Ey.
          assert (Ee' : e = []) by (destruct e; [reflexivity | discriminate]).
          destruct (G3 c0' Hc0) as [[HI _] _].
          pose proof (Hx_nonempty Ee' c0' Hc0) as Hne.
          destruct c0' as [|w ?]; [contradiction|].
          specialize (HI w (or_introl eq_refl)). fold y in HI. rewrite Ey in HI. destruct HI. }
      rewrite check_true.
      2:{ unfold covers_from. apply allb_true_iff. intros c Hc. apply inclb_true.
          destruct (G3 c Hc) as [[HI _] _]. intros b Hb. apply HI in Hb. apply diff_In in Hb.
          apply (step_yt_yfl rs X Y), Hb. }
      rewrite check_true.
      2:{ apply allb_true_iff. intros q Hq. apply is_nil_false, Hq_ne, Hq. }
      rewrite check_true by (apply inclb_true, (step_yt_yfl rs X Y)).
      rewrite check_true.
      2:{ apply inclb_true. intros b Hb. apply (step_yt_yfl rs X Y). apply inter_In in Hb. apply Hb. }
      rewrite check_true.
      2:{ unfold are_covers. apply allb_true_iff. intros q Hq. destruct (Hcore q Hq) as [c [Hc ->]].
          apply cov_cover_refines. apply (Hmem c Hc). }
      rewrite check_true.
      2:{ unfold covers_from. apply allb_true_iff. intros q Hq. destruct (Hcore q Hq) as [c [Hc ->]].
          apply inclb_true. apply (Hmem c Hc). }
      rewrite check_true.
      2:{ apply (uniform_true core N). intros q Hq. destruct (Hcore q Hq) as [c [Hc ->]].
          destruct (Hmem c Hc) as [_ [_ [_ [L _]]]]. rewrite L, (HlenF c Hc). reflexivity. }
      rewrite Hfl. cbn [bind].
      rewrite check_true by (apply is_nil_false, Hfl_ne').
      rewrite check_true.
      2:{ unfold are_covers. apply allb_true_iff. intros q Hq. apply cov_cover_refines, (Hflq q Hq). }
      rewrite check_true.
      2:{ unfold covers_from. apply allb_true_iff. intros q Hq. apply inclb_true, (Hflq q Hq). }
      rewrite check_true by (apply (uniform_true fl N); intros q Hq; apply (Hflq q Hq)).
      rewrite Hmc. cbn [bind].
      rewrite check_true by (apply is_nil_false, Hmc_ne, Hfl_ne').
      rewrite check_true.
      2:{ unfold are_covers. apply allb_true_iff. intros q Hq. apply cov_cover_refines, (Hmcq q Hq). }
      rewrite check_true.
      2:{ unfold covers_from. apply allb_true_iff. intros q Hq. apply inclb_true, (Hmcq q Hq). }
      rewrite check_true by (apply (uniform_true mc N); intros q Hq; apply (Hmcq q Hq)).
      reflexivity.
    + split; [exact G1|]. split.
      * intros En. exfalso. apply (Hmc_ne Hfl_ne'), En.
      * intros q Hq. destruct (Hmcq q Hq) as [A [B [C0 L]]]. split; [|split; [exact A|]].
        -- split; [exact B|]. split; [exact C0|]. intros C HC HCc.
           rewrite L. unfold N. rewrite <- L0. apply MY; assumption.
        -- destruct (G3 c0' Hc0) as [_ [_ Hcost]]. rewrite L. unfold N, npc in *. lia.
Qed.
End Wrap.

(* ------------------------------------------------------------ the exhaustive branch and bound *)
Section BB.
Variable rs : ranges.
Variable pick : list box -> option box.
Hypothesis pick_ok : forall s b, pick s = Some b -> In b s.
Hypothesis pick_total : forall s, pick s = None -> s = [].

(* what is assumed of the recursive calls: they return on every feasible
   node that is small enough for the remaining fuel *)
Definition tspec (rec : list box -> list box -> nat -> nat -> res (family * nat))
  (bound : nat) : Prop :=
  forall X Y pc ub (s : nat),
    feasible rs X Y -> antichain Y -> X <> [] ->
    (s = O -> stable rs X Y) ->
    (2 * (length X + length Y) + s < bound)%nat ->
    exists F u, rec X Y pc ub = inl (F, u) /\ good X Y pc ub F u.

Lemma merge_nil L R : merge L R = [] -> L = [] /\ R = [].
Proof.
  unfold merge. destruct L as [|l0 Ls]; [intros ->; auto|]. destruct R as [|r0 Rs]; [discriminate|].
  destruct (length l0 <? length r0)%nat; [discriminate|].
  destruct (length r0 <? length l0)%nat; [discriminate|].
  intros H. exfalso.
  destruct (union_fam_has_l (l0 :: Ls) (r0 :: Rs) l0 (has_in (l0 :: Ls) l0 (or_introl eq_refl))) as [d [Hd _]].
  rewrite H in Hd. destruct Hd.
Qed.

Lemma add_d_cover (x : list box) d c :
  cov c (filter (fun p => negb (box_leb p d)) x) -> cov (union c [d]) x.
Proof.
  intros H z Hz. destruct (box_leb z d) eqn:Ezd.
  - exists d. split; [apply union_In; right; left; reflexivity | apply box_leb_true, Ezd].
  - destruct (H z) as [w [Hw Hle]]; [apply filter_In; split; [exact Hz | rewrite Ezd; reflexivity]|].
    exists w. split; [apply union_In; left; exact Hw | exact Hle].
Qed.

Lemma trav_total rec bound x y npc ub :
  tspec rec bound ->
  feasible rs x y -> antichain y ->
  (x = [] -> y = []) ->
  (x <> [] ->
     (forall x0 d, In x0 x -> exists y', In y' y /\ y' <> d /\ box_le x0 y') /\
     (forall d, In d y -> exists x0, In x0 x /\ box_le x0 d) /\
     (forall d, In d y -> exists x0, In x0 x /\ ~ box_le x0 d)) ->
  (2 * (length x + length y) <= bound)%nat ->
  exists F u, trav pick rec x y npc ub = inl (F, u) /\ good x y npc ub F u.
Proof.
  intros Hrec HF HA Hleaf Hcore Hb. pose proof HF as [Hx [Hy [Hyt Hcov]]].
  unfold trav. cbv zeta.
  assert (LB : forall C, incl C y -> cov C x ->
            (indep_size pick (S (length x)) x y <= length C)%nat).
  { intros C HC Hc. apply (indep_size_lower_bound pick pick_ok); assumption. }
  set (core_lb := indep_size pick (S (length x)) x y) in *.
  destruct x as [|x0 x'] eqn:Ex.
  - (* leaf *)
    rewrite (Hleaf eq_refl). cbn [is_nil check].
    assert (E0 : core_lb = O) by (unfold core_lb; apply indep_size_nil).
    rewrite E0. cbn [Nat.eqb check]. rewrite Nat.add_0_r.
    destruct (ub <? npc)%nat eqn:Eub.
    + apply Nat.ltb_lt in Eub. exists [], ub. split; [reflexivity|].
      split; [lia|]. split; [|intros c []]. intros _. split; [reflexivity|]. intros C _ _. lia.
    + apply Nat.ltb_ge in Eub. exists [[]], npc. split; [reflexivity|].
      split; [exact Eub|]. split; [discriminate|]. intros c [<-|[]].
      split; [|split; [constructor | cbn; lia]].
      split; [apply incl_nil_l|]. split; [intros z []|]. intros C' _ _. cbn. lia.
  - rewrite <- Ex in *. assert (Hxne : x <> []) by (rewrite Ex; discriminate).
    destruct (Hcore Hxne) as [B1 [B2 B3]].
    destruct (ub <? npc + core_lb)%nat eqn:Eub.
    + (* prune *)
      apply Nat.ltb_lt in Eub. exists [], ub. split; [reflexivity|].
      split; [lia|]. split; [|intros c []]. intros _. split; [reflexivity|].
      intros C HC Hc. specialize (LB C HC Hc). lia.
    + apply Nat.ltb_ge in Eub.
      assert (Hx0 : In x0 x) by (rewrite Ex; left; reflexivity).
      destruct (Hcov x0 Hx0) as [y0 [Hy0 _]].
      destruct (pick_some pick pick_ok pick_total y y0 Hy0) as [d [Ed Hd]]. rewrite Ed.
      set (ynew := diff y [d]).
      set (xm := filter (fun p => negb (box_leb p d)) x).
      assert (Hyn_incl : incl ynew y) by (intros z Hz; apply diff_In in Hz; apply Hz).
      assert (Hyn_len : (length ynew < length y)%nat)
        by (apply (diff_length_lt y [d] d Hd); left; reflexivity).
      assert (Hxm_len : (length xm <= length x)%nat) by apply filter_le_length.
      (* assert x_minus_y != x *)
      destruct (B2 d Hd) as [x1 [Hx1 Hx1d]].
      assert (Hxm_lt : (length xm < length x)%nat).
      { pose proof (filter_length_lt (fun p => negb (box_leb p d)) (fun _ => true) x
                      (fun _ _ _ => eq_refl)) as H.
        rewrite (filter_all_true (fun _ => true) x (fun _ _ => eq_refl)) in H. apply H.
        exists x1. split; [exact Hx1|]. split; [|reflexivity].
        apply negb_false_iff, box_leb_true, Hx1d. }
      rewrite check_true by (apply negb_true_iff, Nat.eqb_neq; fold xm; lia).
      (* the two recursive calls *)
      assert (HFl : feasible rs xm ynew).
      { split; [intros z Hz; apply filter_In in Hz; apply Hx, Hz|].
        split; [intros z Hz; apply Hy, Hyn_incl, Hz|].
        split; [intros z Hz; apply Hyt, Hyn_incl, Hz|].
        intros z Hz. apply filter_In in Hz. destruct Hz as [Hz Hn'].
        destruct (Hcov z Hz) as [w [Hw Hle]]. exists w. split; [|exact Hle].
        apply diff_In. split; [exact Hw|]. intros [<-|[]].
        apply box_leb_true in Hle. rewrite Hle in Hn'. discriminate. }
      assert (HFr : feasible rs x ynew).
      { split; [exact Hx|].
        split; [intros z Hz; apply Hy, Hyn_incl, Hz|].
        split; [intros z Hz; apply Hyt, Hyn_incl, Hz|].
        intros z Hz. destruct (B1 z d Hz) as [w [Hw [Hne Hle]]]. exists w. split; [|exact Hle].
        apply diff_In. split; [exact Hw|]. intros [E'|[]]. apply Hne. symmetry. exact E'. }
      assert (HAn : antichain ynew) by (apply (antichain_incl y); assumption).
      assert (Hxm_ne : xm <> []).
      { destruct (B3 d Hd) as [x2 [Hx2 Hx2d]]. intros En.
        assert (Hin : In x2 xm).
        { apply filter_In. split; [exact Hx2|]. apply negb_true_iff.
          destruct (box_leb x2 d) eqn:E'; [|reflexivity]. apply box_leb_true in E'. contradiction. }
        rewrite En in Hin. destruct Hin. }
      destruct (Hrec xm ynew (S npc) ub 1%nat HFl HAn Hxm_ne) as [Fl [ul [HL [L1 [L2 L3]]]]];
        [intros Hc; discriminate | lia |].
      fold xm ynew. rewrite HL. cbn [bind fst snd].
      destruct (Hrec x ynew npc ul 1%nat HFr HAn Hxne) as [Fr [ur [HR [R1 [R2 R3]]]]];
        [intros Hc; discriminate | lia |].
      rewrite HR. cbn [bind fst snd].
      set (L := map (fun c => union c [d]) Fl).
      assert (Eres : (match L, Fr with
                      | [], _ => ok (Fr, ur)
                      | _, [] => ok (L, ur)
                      | l0 :: _, r0 :: _ =>
                          if (length l0 <? length r0)%nat then ok (L, ur)
                          else if (length r0 <? length l0)%nat then ok (Fr, ur)
                          else ok (union_fam L Fr, ur)
                      end : res (family * nat)) = inl (merge L Fr, ur)).
      { unfold merge. destruct L as [|l0 Ls]; [reflexivity|]. destruct Fr as [|r0 Rs]; [reflexivity|].
        destruct (length l0 <? length r0)%nat; [reflexivity|].
        destruct (length r0 <? length l0)%nat; reflexivity. }
      rewrite Eres. exists (merge L Fr), ur. split; [reflexivity|].
      (* facts about the two families *)
      assert (HLm : forall q, In q L -> exists c, In c Fl /\ q = union c [d] /\
                      length q = S (length c) /\ NoDup q /\ incl q y /\ cov q x).
      { intros q Hq. apply in_map_iff in Hq. destruct Hq as [c [<- Hc]].
        destruct (L3 c Hc) as [[HI [HC _]] [HN _]].
        assert (Hnd : ~ In d c).
        { intros Hdc. apply HI in Hdc. apply diff_In in Hdc. apply (proj2 Hdc). left. reflexivity. }
        exists c. split; [exact Hc|]. split; [reflexivity|].
        split; [apply union_single_length, Hnd|].
        split; [apply union_NoDup; [exact HN | constructor; [intros []|constructor]]|]. split.
        - intros z Hz. apply union_In in Hz. destruct Hz as [Hz | [<- | [] ] ];
            [apply Hyn_incl, HI, Hz | exact Hd].
        - apply add_d_cover, HC. }
      assert (HRm : forall q, In q Fr -> NoDup q /\ incl q y /\ cov q x).
      { intros q Hq. destruct (R3 q Hq) as [[HI [HC _]] [HN _]].
        split; [exact HN|]. split; [intros z Hz; apply Hyn_incl, HI, Hz | exact HC]. }
      (* lower bounds on the covers of the node, by whether they use d *)
      assert (WithD : forall C, incl C y -> cov C x -> In d C ->
                incl (remove box_eq_dec d C) ynew /\ cov (remove box_eq_dec d C) xm /\
                (S (length (remove box_eq_dec d C)) <= length C)%nat).
      { intros C HC Hc HdC. split; [|split].
        - intros z Hz. apply in_remove in Hz. destruct Hz as [Hz Hne].
          apply diff_In. split; [apply HC, Hz|]. intros [E' | [] ]. apply Hne. symmetry. exact E'.
        - apply remove_cover; assumption.
        - pose proof (remove_length_lt box_eq_dec C d HdC). lia. }
      assert (NoD : forall C, incl C y -> ~ In d C -> incl C ynew).
      { intros C HC Hn z Hz. apply diff_In. split; [apply HC, Hz|]. intros [<-|[]]. apply Hn, Hz. }
      split; [lia|]. split.
      * (* nothing returned *)
        intros En. apply merge_nil in En. destruct En as [EL ER].
        assert (EFl : Fl = []) by (destruct Fl; [reflexivity | discriminate]).
        destruct (L2 EFl) as [Eul HLall]. destruct (R2 ER) as [Eur HRall].
        split; [lia|]. intros C HC Hc. destruct (in_dec box_eq_dec d C) as [HdC|HdC].
        -- destruct (WithD C HC Hc HdC) as [A [B0 D0]]. specialize (HLall _ A B0). lia.
        -- specialize (HRall C (NoD C HC HdC) Hc). lia.
      * (* the returned covers are minimum covers of the node *)
        assert (MinL : forall q c, In c Fl -> q = union c [d] -> length q = S (length c) ->
                  forall C, incl C y -> cov C x -> In d C -> (length q <= length C)%nat).
        { intros q c Hc _ Hl C HC Hcv HdC. destruct (WithD C HC Hcv HdC) as [A [B0 D0]].
          destruct (L3 c Hc) as [[_ [_ HM]] _]. specialize (HM _ A B0). lia. }
        assert (MinR : forall q, In q Fr ->
                  forall C, incl C y -> cov C x -> ~ In d C -> (length q <= length C)%nat).
        { intros q Hq C HC Hcv HdC. destruct (R3 q Hq) as [[_ [_ HM]] _].
          apply HM; [apply NoD; assumption | exact Hcv]. }
        unfold merge. destruct L as [|l0 Ls] eqn:EL.
        -- (* the left branch returned nothing *)
           assert (EFl : Fl = []) by (destruct Fl; [reflexivity | discriminate]).
           destruct (L2 EFl) as [Eul HLall].
           intros q Hq. destruct (HRm q Hq) as [A [B0 C0]]. destruct (R3 q Hq) as [_ [_ Hcost]].
           split; [|split; [exact A | exact Hcost]].
           split; [exact B0|]. split; [exact C0|]. intros C HC Hcv.
           destruct (in_dec box_eq_dec d C) as [HdC|HdC]; [|apply MinR; assumption].
           destruct (WithD C HC Hcv HdC) as [A' [B' D']]. specialize (HLall _ A' B'). lia.
        -- rewrite <- EL in *.
           assert (Hl0 : In l0 L) by (rewrite EL; left; reflexivity).
           destruct (HLm l0 Hl0) as [c0 [Hc0 [El0 [Ll0 _]]]].
           assert (LenL : forall q, In q L -> length q = length l0).
           { intros q Hq. destruct (HLm q Hq) as [c [Hc [_ [Lq _]]]]. rewrite Lq, Ll0. f_equal.
             apply (mincover_length xm ynew); [apply (L3 c Hc) | apply (L3 c0 Hc0)]. }
           assert (GoodL : forall q, In q L -> (npc + length q <= ul)%nat).
           { intros q Hq. destruct (HLm q Hq) as [c [Hc [_ [Lq _]]]].
             destruct (L3 c Hc) as [_ [_ Hcost]]. lia. }
           destruct Fr as [|r0 Rs] eqn:ER.
           ++ (* the right branch returned nothing *)
              destruct (R2 eq_refl) as [Eur HRall].
              intros q Hq. destruct (HLm q Hq) as [c [Hc [Eq [Lq [A [B0 C0]]]]]].
              split; [|split; [exact A | specialize (GoodL q Hq); lia]].
              split; [exact B0|]. split; [exact C0|]. intros C HC Hcv.
              destruct (in_dec box_eq_dec d C) as [HdC|HdC]; [apply (MinL q c Hc Eq Lq); assumption|].
              specialize (HRall C (NoD C HC HdC) Hcv). specialize (GoodL q Hq). lia.
           ++ rewrite <- ER in *.
              assert (Hr0 : In r0 Fr) by (rewrite ER; left; reflexivity).
              assert (LenR : forall q, In q Fr -> length q = length r0).
              { intros q Hq. apply (mincover_length x ynew); [apply (R3 q Hq) | apply (R3 r0 Hr0)]. }
              assert (CaseL : (length l0 <= length r0)%nat -> forall q, In q L ->
                        mincover x y q /\ NoDup q /\ (npc + length q <= ur)%nat).
              { intros Hle q Hq. destruct (HLm q Hq) as [c [Hc [Eq [Lq [A [B0 C0]]]]]].
                destruct (R3 r0 Hr0) as [_ [_ Hcost]]. rewrite <- (LenL q Hq) in Hle.
                split; [|split; [exact A | lia]].
                split; [exact B0|]. split; [exact C0|]. intros C HC Hcv.
                destruct (in_dec box_eq_dec d C) as [HdC|HdC]; [apply (MinL q c Hc Eq Lq); assumption|].
                pose proof (MinR r0 Hr0 C HC Hcv HdC). lia. }
              assert (CaseR : (length r0 <= length l0)%nat -> forall q, In q Fr ->
                        mincover x y q /\ NoDup q /\ (npc + length q <= ur)%nat).
              { intros Hle q Hq. destruct (HRm q Hq) as [A [B0 C0]].
                destruct (R3 q Hq) as [_ [_ Hcost]]. rewrite <- (LenR q Hq) in Hle.
                split; [|split; [exact A | exact Hcost]].
                split; [exact B0|]. split; [exact C0|]. intros C HC Hcv.
                destruct (in_dec box_eq_dec d C) as [HdC|HdC]; [|apply MinR; assumption].
                pose proof (MinL l0 c0 Hc0 El0 Ll0 C HC Hcv HdC). lia. }
              destruct (length l0 <? length r0)%nat eqn:E1.
              ** apply Nat.ltb_lt in E1. apply CaseL. lia.
              ** apply Nat.ltb_ge in E1. destruct (length r0 <? length l0)%nat eqn:E2.
                 --- apply Nat.ltb_lt in E2. apply CaseR. lia.
                 --- apply Nat.ltb_ge in E2. intros q Hq.
                     destruct (union_fam_In _ _ _ Hq) as [HqL|HqR];
                       [apply CaseL; [lia | exact HqL] | apply CaseR; [lia | exact HqR]].
Qed.
End BB.

(* ------------------------------------------------------------ facts about one step *)
Lemma nonempty_has_element {A} (l : list A) : l <> [] -> exists a, In a l.
Proof. destruct l as [|a l]; [contradiction|]. intros _. exists a. left. reflexivity. Qed.

Lemma no_elements_nil {A} (l : list A) : (forall a, ~ In a l) -> l = [].
Proof. destruct l as [|a l]; [reflexivity|]. intros H. exfalso. apply (H a). left. reflexivity. Qed.

Section StepFacts.
Variable rs : ranges.
Variable X Y : list box.
Hypothesis HF : feasible rs X Y.
Hypothesis HA : antichain Y.

Let xt := max_ceilings rs X Y.
Let yt := max_floors rs xt Y.
Let e := inter xt yt.
Let x := diff xt e.
Let y := diff yt e.

Lemma sf_sizes : (length x <= length X)%nat /\ (length y <= length Y)%nat.
Proof.
  split.
  - pose proof (diff_length_le' xt e) as D1. pose proof (max_ceilings_length rs X Y) as D2.
    fold xt in D2. unfold x. lia.
  - pose proof (diff_length_le' yt e) as D1. pose proof (max_floors_length rs xt Y) as D2.
    fold yt in D2. unfold y. lia.
Qed.

Lemma sf_xt_Y_in_yt z : In z xt -> In z Y -> In z yt.
Proof.
  intros Hz HzY. pose proof HF as [HX [HY _]].
  pose proof (step_xt_below_top rs X Y HX) as Hxt. fold xt in Hxt.
  assert (Efl : floor rs xt z = z).
  { apply box_le_antisym; [apply (floor_le rs xt Y z Hxt HY HzY)|].
    apply (floor_above rs xt z z Hxt Hz), box_le_refl. }
  unfold yt, max_floors. apply maxima_In. split.
  - apply dedup_In. rewrite <- Efl. apply in_map, HzY.
  - intros f Hf Hle. rewrite dedup_In in Hf. apply in_map_iff in Hf. destruct Hf as [y' [<- Hy']].
    assert (z = y').
    { apply HA; [exact HzY | exact Hy'|]. apply box_le_trans with (floor rs xt y'); [exact Hle|].
      apply (floor_le rs xt Y y' Hxt HY Hy'). }
    subst y'. exact Efl.
Qed.

Lemma sf_nodecrease :
  (length X + length Y <= length x + length y)%nat ->
  x = it_X rs X Y /\ y = it_Y rs X Y.
Proof.
  intros H.
  pose proof (diff_length_le' xt e) as D1. pose proof (max_ceilings_length rs X Y) as D2.
  pose proof (diff_length_le' yt e) as D3. pose proof (max_floors_length rs xt Y) as D4.
  fold xt in D2. fold yt in D4. fold x in D1. fold y in D3.
  assert (Ee : e = []).
  { apply no_elements_nil. intros z Hz. pose proof Hz as Hz'. unfold e in Hz'. apply inter_In in Hz'.
    pose proof (diff_length_lt xt e z (proj1 Hz') Hz). fold x in H0. lia. }
  assert (Eie : it_e rs X Y = []).
  { apply no_elements_nil. intros z Hz. unfold it_e in Hz. apply inter_In in Hz.
    destruct Hz as [Hz1 Hz2]. fold xt in Hz1.
    assert (Hze : In z e) by (apply inter_In; split; [exact Hz1 | apply sf_xt_Y_in_yt; assumption]).
    rewrite Ee in Hze. destruct Hze. }
  assert (EX : it_X rs X Y = x).
  { unfold it_X. cbv zeta. fold xt. unfold it_e in Eie. fold xt in Eie. rewrite Eie.
    unfold x. rewrite Ee. reflexivity. }
  split; [symmetry; exact EX|].
  unfold it_Y. rewrite EX, Eie, diff_nil_r. unfold y, x. rewrite Ee, !diff_nil_r. reflexivity.
Qed.

Lemma sf_leaf : X <> [] -> x = [] -> y = [].
Proof.
  intros HXne Hxnil. pose proof HF as [HX [HY _]].
  pose proof (step_xt_below_top rs X Y HX) as Hxt. fold xt in Hxt.
  pose proof (step_xt_nonempty rs X Y HF HXne) as Hxtne. fold xt in Hxtne.
  assert (Hsub : forall z, In z xt -> In z e).
  { intros z Hz. destruct (in_dec box_eq_dec z e) as [He|He]; [exact He|].
    assert (Hin : In z x) by (apply diff_In; split; assumption). rewrite Hxnil in Hin. destruct Hin. }
  apply no_elements_nil. intros m Hm. unfold y in Hm. apply diff_In in Hm. destruct Hm as [Hm Hne].
  apply Hne. destruct (max_floors_In rs xt Y m Hm) as [y0 [Hy0 Em]].
  destruct (those_under xt y0) as [|z l] eqn:Eu.
  - (* the floor is the bottom element: it lies below an essential element *)
    destruct (nonempty_has_element xt Hxtne) as [z0 Hz0xt].
    assert (Hz0 : In z0 e) by (apply Hsub, Hz0xt).
    pose proof Hz0 as Hz0'. unfold e in Hz0'. apply inter_In in Hz0'. destruct Hz0' as [_ Hz0yt].
    assert (Emz : m = z0).
    { apply (step_yt_antichain rs X Y); [exact Hm | exact Hz0yt|].
      rewrite Em. unfold floor. rewrite Eu. cbn.
      apply (step_yt_above_bot rs X Y HX). exact Hz0yt. }
    rewrite Emz. exact Hz0.
  - assert (Hz : In z (those_under xt y0)) by (rewrite Eu; left; reflexivity).
    apply those_under_In in Hz. destruct Hz as [Hz Hle].
    assert (Hze : In z e) by (apply Hsub, Hz).
    pose proof Hze as Hze'. unfold e in Hze'. apply inter_In in Hze'. destruct Hze' as [_ Hzyt].
    assert (Ezm : z = m).
    { apply (step_yt_antichain rs X Y); [exact Hzyt | exact Hm|].
      rewrite Em. apply (floor_above rs xt y0 z Hxt Hz Hle). }
    rewrite <- Ezm. exact Hze.
Qed.

(* at a fixpoint (x = X and y = Y as sets) with x non-empty *)
Lemma sf_fixpoint :
  same_set x X -> same_set y Y -> x <> [] ->
  (forall x0 d, In x0 x -> exists y', In y' y /\ y' <> d /\ box_le x0 y') /\
  (forall d, In d y -> exists x0, In x0 x /\ box_le x0 d) /\
  (forall d, In d y -> exists x0, In x0 x /\ ~ box_le x0 d).
Proof.
  intros SX SY Hxne. pose proof HF as [HX [HY [HYt Hcov]]].
  pose proof (step_xt_below_top rs X Y HX) as Hxt. fold xt in Hxt.
  pose proof (step_feasible rs X Y HF) as [Hxb [Hyb [Hyt' Hcovxy]]].
  fold xt yt e x y in Hxb, Hyb, Hyt', Hcovxy.
  pose proof (step_y_antichain rs X Y) as Hya. fold xt yt e y in Hya.
  (* no essential element *)
  assert (Ee : e = []).
  { apply no_elements_nil. intros z Hz. pose proof Hz as Hz'. unfold e in Hz'. apply inter_In in Hz'.
    destruct Hz' as [Hz1 _]. pose proof Hz1 as Hz1'. unfold xt, max_ceilings in Hz1'.
    apply maxima_In in Hz1'. destruct Hz1' as [Hin _]. rewrite dedup_In in Hin.
    apply in_map_iff in Hin. destruct Hin as [x0 [Ez Hx0]].
    assert (Hx0x : In x0 x) by (apply (proj2 SX), Hx0).
    pose proof Hx0x as Hx0xt. unfold x in Hx0xt. apply diff_In in Hx0xt. destruct Hx0xt as [Hx0xt _].
    assert (Ezx : z = x0).
    { apply (step_xt_maximal rs X Y x0 z Hx0xt Hz1). rewrite <- Ez. apply ceil_above, HX, Hx0. }
    unfold x in Hx0x. apply diff_In in Hx0x. apply (proj2 Hx0x). rewrite <- Ezx. exact Hz. }
  assert (Ex : x = xt) by (unfold x; rewrite Ee; apply diff_nil_r).
  assert (Ey : y = yt) by (unfold y; rewrite Ee; apply diff_nil_r).
  (* two covers *)
  assert (B1 : forall x0 d, In x0 x -> exists y', In y' y /\ y' <> d /\ box_le x0 y').
  { intros x0 d Hx0.
    destruct (filter (fun y' => if box_leb x0 y' then negb (box_eqb y' d) else false) y)
      as [|y1 l] eqn:Ef.
    - exfalso.
      assert (Hall : forall y', In y' y -> box_le x0 y' -> y' = d).
      { intros y' Hy' Hle. destruct (box_eq_dec y' d) as [->|Hne]; [reflexivity|]. exfalso.
        assert (Hin : In y' (filter (fun y' => if box_leb x0 y' then negb (box_eqb y' d) else false) y)).
        { apply filter_In. split; [exact Hy'|]. apply box_leb_true in Hle. rewrite Hle.
          apply negb_true_iff. destruct (box_eqb y' d) eqn:Eb; [|reflexivity].
          apply box_eqb_true in Eb. contradiction. }
        rewrite Ef in Hin. destruct Hin. }
      destruct (Hcovxy x0 Hx0) as [y0 [Hy0 Hle0]].
      pose proof (Hall y0 Hy0 Hle0). subst y0.
      assert (HdY : In d Y) by (apply (proj1 SY), Hy0).
      assert (Hx0X : In x0 X) by (apply (proj1 SX), Hx0).
      assert (Hceil : ceil rs Y x0 = d).
      { unfold ceil. apply meet_all_same.
        - apply Hyt', Hy0.
        - intros En. assert (Hin : In d (those_over Y x0)) by (apply those_over_In; split; assumption).
          rewrite En in Hin. destruct Hin.
        - intros y' Hy'. apply those_over_In in Hy'. destruct Hy' as [Hy' Hle].
          apply Hall; [apply (proj2 SY), Hy' | exact Hle]. }
      assert (Hin : In (ceil rs Y x0) (dedup (map (ceil rs Y) X))) by (apply dedup_In, in_map, Hx0X).
      destruct (maxima_above _ _ Hin) as [m [Hm Hdm]]. rewrite Hceil in Hdm.
      assert (Hx0xt : In x0 xt) by (rewrite <- Ex; exact Hx0).
      assert (m = x0) by (apply (step_xt_maximal rs X Y x0 m Hx0xt Hm);
                          apply box_le_trans with d; assumption).
      subst m. assert (Exd : x0 = d) by (apply box_le_antisym; assumption).
      assert (Hde : In d e).
      { apply inter_In. split; [rewrite <- Exd; exact Hx0xt | rewrite <- Ey; exact Hy0]. }
      rewrite Ee in Hde. destruct Hde.
    - assert (Hin : In y1 (filter (fun y' => if box_leb x0 y' then negb (box_eqb y' d) else false) y))
        by (rewrite Ef; left; reflexivity).
      apply filter_In in Hin. destruct Hin as [Hy1 Hc].
      destruct (box_leb x0 y1) eqn:El; [|discriminate].
      exists y1. split; [exact Hy1|]. split; [|apply box_leb_true, El].
      intros ->. rewrite box_eqb_refl in Hc. discriminate. }
  split; [exact B1|]. split.
  - (* the branching element covers something *)
    intros d Hd. pose proof Hd as Hdyt. rewrite Ey in Hdyt.
    destruct (max_floors_In rs xt Y d Hdyt) as [y0 [Hy0 Ed]].
    destruct (those_under xt y0) as [|z l] eqn:Eu.
    + destruct (nonempty_has_element x Hxne) as [x0 Hx0].
      destruct (Hcovxy x0 Hx0) as [y' [Hy' Hle]].
      assert (d = y').
      { apply Hya; [exact Hd | exact Hy'|]. rewrite Ed. unfold floor. rewrite Eu. cbn.
        apply Hyb, Hy'. }
      subst y'. exists x0. split; [exact Hx0 | exact Hle].
    + assert (Hz : In z (those_under xt y0)) by (rewrite Eu; left; reflexivity).
      apply those_under_In in Hz. destruct Hz as [Hz Hle].
      exists z. split; [rewrite Ex; exact Hz|]. rewrite Ed. apply (floor_above rs xt y0 z Hxt Hz Hle).
  - (* ... but not everything *)
    intros d Hd.
    destruct (filter (fun x0 => negb (box_leb x0 d)) x) as [|x2 l] eqn:Ef.
    + exfalso.
      assert (Hall : forall x0, In x0 x -> box_le x0 d).
      { intros x0 Hx0. destruct (box_leb x0 d) eqn:El; [apply box_leb_true, El|]. exfalso.
        assert (Hin : In x0 (filter (fun x0 => negb (box_leb x0 d)) x)).
        { apply filter_In. split; [exact Hx0 | rewrite El; reflexivity]. }
        rewrite Ef in Hin. destruct Hin. }
      assert (Hally : forall y', In y' y -> y' = d).
      { intros y' Hy'. pose proof Hy' as Hy'yt. rewrite Ey in Hy'yt.
        destruct (max_floors_In rs xt Y y' Hy'yt) as [y0 [Hy0 Ey']].
        apply Hya; [exact Hy' | exact Hd|]. rewrite Ey'. unfold floor. apply join_all_lub.
        - apply Hyb, Hd.
        - intros z Hz. apply those_under_In in Hz. apply Hall. rewrite Ex. apply Hz. }
      destruct (nonempty_has_element x Hxne) as [x0 Hx0].
      destruct (B1 x0 d Hx0) as [y' [Hy' [Hne _]]]. apply Hne, Hally, Hy'.
    + assert (Hin : In x2 (filter (fun x0 => negb (box_leb x0 d)) x)) by (rewrite Ef; left; reflexivity).
      apply filter_In in Hin. destruct Hin as [Hx2 Hc]. exists x2. split; [exact Hx2|].
      intros Hle. apply box_leb_true in Hle. rewrite Hle in Hc. discriminate.
Qed.
End StepFacts.

(* ------------------------------------------------------------ _cyclic_core_fixpoint_recursive returns *)
Section Main.
Variable rs : ranges.
Variable pick : list box -> option box.
Hypothesis pick_ok : forall s b, pick s = Some b -> In b s.
Hypothesis pick_total : forall s, pick s = None -> s = [].

Lemma ccfr_unfold n X Y pc ub :
  ccfr rs pick (S n) X Y pc ub =
  check (cover_refines X Y)
    (let xt := max_ceilings rs X Y in
     let yt := max_floors rs xt Y in
     let yfl := dedup (map (floor rs xt) Y) in
     let e := inter xt yt in
     let x := diff xt e in
     let y := diff yt e in
     let npc := (pc + length e)%nat in
     bind (if (if (if same_setb x X then same_setb y Y else false) then true else is_nil x)
           then trav pick (ccfr rs pick n) x y npc ub
           else ccfr rs pick n x y npc ub)
          (wrap X Y xt yt yfl e y)).
Proof. reflexivity. Qed.

Theorem ccfr_total n : tspec rs (ccfr rs pick n) n.
Proof.
  induction n as [|n IH]; intros X Y pc ub s HF HA HXne Hs Hn; [lia|].
  rewrite ccfr_unfold.
  pose proof HF as [HX [HY [HYt Hcov]]].
  rewrite check_true by (apply cov_cover_refines, Hcov). cbv zeta.
  pose proof (step_feasible rs X Y HF) as HFxy.
  pose proof (step_y_antichain rs X Y) as HAy.
  destruct (sf_sizes rs X Y) as [Sx Sy].
  set (xt := max_ceilings rs X Y) in *.
  set (yt := max_floors rs xt Y) in *.
  set (yfl := dedup (map (floor rs xt) Y)) in *.
  set (e := inter xt yt) in *.
  set (x := diff xt e) in *.
  set (y := diff yt e) in *.
  set (npc := (pc + length e)%nat).
  assert (Core : exists Fc uc,
    (if (if (if same_setb x X then same_setb y Y else false) then true else is_nil x)
     then trav pick (ccfr rs pick n) x y npc ub
     else ccfr rs pick n x y npc ub) = inl (Fc, uc) /\ good x y npc ub Fc uc).
  { destruct (if (if same_setb x X then same_setb y Y else false) then true else is_nil x) eqn:Ec.
    - (* a fixpoint or an empty core: branch and bound *)
      apply (trav_total rs pick pick_ok pick_total (ccfr rs pick n) n x y npc ub IH HFxy HAy).
      + apply (sf_leaf rs X Y HF HXne).
      + intros Hxne.
        destruct (same_setb x X) eqn:E1; [destruct (same_setb y Y) eqn:E2|].
        * apply (sf_fixpoint rs X Y HF); [apply same_setb_true, E1 | apply same_setb_true, E2 | exact Hxne].
        * cbn in Ec. destruct x; [contradiction | discriminate].
        * cbn in Ec. destruct x; [contradiction | discriminate].
      + lia.
    - (* another reduction step *)
      assert (Hxne : x <> []).
      { intros En. rewrite En in Ec. destruct (if same_setb [] X then same_setb y Y else false); discriminate. }
      destruct (Nat.eq_dec (length x + length y) (length X + length Y)) as [Heq|Hneq].
      + (* no decrease: the new pair is stable, and the old one was not *)
        destruct (sf_nodecrease rs X Y HF HA) as [EX EY]; [fold xt yt e x y; lia|].
        fold xt yt e x y in EX, EY.
        destruct s as [|s'].
        * exfalso. specialize (Hs eq_refl).
          destruct (it_nodecrease rs X Y) as [He _]; [rewrite <- EX, <- EY; lia|].
          destruct (it_stable rs X Y Hs) as [_ Hid]. destruct (Hid He) as [E1 E2].
          rewrite <- EX in E1. rewrite <- EY in E2. rewrite E1, E2, !same_setb_refl in Ec.
          discriminate.
        * apply (IH x y npc ub O HFxy HAy Hxne).
          -- intros _. rewrite EX, EY. apply it_nodecrease_stable; [exact HX | exact HY|].
             rewrite <- EX, <- EY. lia.
          -- lia.
      + apply (IH x y npc ub 1%nat HFxy HAy Hxne); [intros Hc; discriminate | lia]. }
  destruct Core as [Fc [uc [Hcore Hgood]]]. rewrite Hcore. cbn [bind].
  apply (wrap_total rs X Y pc ub Fc uc HF HXne Hgood).
Qed.

(* cover_enum.minimize on a covering problem returns *)
Theorem enum_xy_total X Y :
  feasible rs X Y -> antichain Y -> X <> [] ->
  exists R, enum_xy rs pick X Y = inl R.
Proof.
  intros HF HA HXne. unfold enum_xy. pose proof HF as [HX [HY [HYt Hcov]]].
  destruct (some_cover_total pick pick_ok pick_total (S (length X)) X Y Hcov) as [c0 Ec]; [lia|].
  rewrite Ec.
  destruct (ccfr_total (2 * (length X + length Y) + 4)%nat X Y 0%nat (length c0) 1%nat HF HA HXne)
    as [F [u [Hc [G1 [G2 G3]]]]]; [intros Hc; discriminate | lia |].
  rewrite Hc. cbn [bind fst].
  assert (HFne : F <> []).
  { intros En. destruct (G2 En) as [_ Hall].
    destruct (some_cover_sound pick pick_ok _ _ _ _ Ec) as [A B]. specialize (Hall c0 A B). lia. }
  rewrite check_true by (apply is_nil_false, HFne). eexists. reflexivity.
Qed.
End Main.

(* C10_total: on every instance with a non-empty f the model of
   cover_enum.minimize returns *)
Theorem enum_minimize_total rs pick f care :
  (forall s b, pick s = Some b -> In b s) ->
  (forall s, pick s = None -> s = []) ->
  (exists p, in_ranges rs p /\ f p = true) ->
  exists R, enum_minimize rs pick f care = inl R.
Proof.
  intros Hok Htot [p [Hp Hf]]. unfold enum_minimize.
  apply (enum_xy_total rs pick Hok Htot); [apply instance_feasible | apply primes_antichain|].
  intros En. assert (Hin : In (map (fun x => (x, x)) p) (embed rs f)).
  { apply embed_In. exists p. split; [exact Hp|]. split; [exact Hf | reflexivity]. }
  rewrite En in Hin. destruct Hin.
Qed.
