"""C01 — Streett(1) winning region is exact."""
from vlib import core, games, gen_games, gr1games
from vlib.core import Broken, Mismatch, Failing
from vlib.gr1games import MODES

ID = 'C01'
LEVEL = 'proof'
THEORIES = ['theories/L4/GR1Spec.vo', 'theories/L4/Tables.vo',
            'theories/L4/Determinacy.vo']

HEADER = '''From Coq Require Import List Bool Arith.
Import ListNotations.
From Omega Require Import L4.Arena L4.Tables.
From OmegaGen Require Import FixpointGen Gr1Gen.
'''


def prove(ctx):
    with ctx.coq_lock():
        gen_games.ensure_gr1(ctx)
        ctx.prove_with_deps('Properties/C01.v')
    ctx.trusted.append(
        'translator tie T: omega/games/gr1.py (solve_streett_game, '
        '_attractor_under_assumptions) and omega/symbolic/fixpoint.py '
        '(step, trap) -> gen/Gr1Gen.v, gen/FixpointGen.v')
    ctx.assumptions.append(
        'C01_region_is_winning_region / C01_outside_environment_wins '
        '(strategies over infinite plays) depend on the standard-library '
        'axiom Classical_Prop.classic; persistence/recurrence predicates are '
        'read at state valuations (primed = unprimed)')


def run_impl(g):
    import omega.games.gr1 as gr1
    ar = g['ar']
    out = {}
    for moore, plus_one in MODES:
        aut = gr1games.load(g)
        aut.moore, aut.plus_one = moore, plus_one
        z, yij, xijk = gr1.solve_streett_game(aut)
        out[(moore, plus_one)] = (ar.table1(z), gr1games.tables(ar, yij),
                                  gr1games.tables(ar, xijk))
    return out


def run_reused(g, moore, plus_one):
    """Solve on an automaton that was already used with the two players in
    the other roles (history must not matter): returns the region, indexed
    as in the role-swapped arena."""
    import omega.games.gr1 as gr1
    from props import c04
    ar = g['ar']
    aut = gr1games.load(g)
    aut.moore, aut.plus_one = moore, plus_one
    gr1.solve_streett_game(aut)            # first use, original roles
    d = c04.dual_game(g, complement=False)
    env, sys_ = list(aut.varlist['env']), list(aut.varlist['sys'])
    aut.varlist['env'], aut.varlist['sys'] = sys_, env
    aut.action['env'], aut.action['sys'] = aut.action['sys'], aut.action['env']
    z, _, _ = gr1.solve_streett_game(aut)  # second use, roles exchanged
    ztab = d['swap1'](ar.table1(z), False)
    # restore
    aut.varlist['env'], aut.varlist['sys'] = env, sys_
    aut.prime_varlists()
    return d, ztab


def coq_group(i, g, impl):
    ar = g['ar']
    n = f'{ar.nc} {ar.nx} {ar.ny}'
    fuel = ar.ns * ar.np + 2
    p = f'g{i}_'
    terms, keys = [], []
    b = lambda x: 'true' if x else 'false'
    for (moore, plus_one), (z, yij, xijk) in impl.items():
        call = (f'Gr1Gen.solve_streett_game {n} {p}E {p}S {p}P {p}R '
                f'{b(moore)} {b(plus_one)} {fuel}')
        # projections, not a destructuring let: elaborating a match on the
        # solver call costs ~0.5 s per case
        terms.append(
            f'(fun t => eq1 (tt1 {n} (fst (fst t))) {games.litn(z)} && '
            f'eq3 (tt3 {n} (snd (fst t))) {games.litn(yij)} && '
            f'eq4 (tt4 {n} (snd t)) {games.litn(xijk)}) ({call})')
        keys.append((moore, plus_one))
    defs = gr1games.coq_defs(p, g)
    if 'reused' in g:
        (moore, plus_one), d, ztab = g['reused']
        dar = d['ar']
        dn = f'{dar.nc} {dar.nx} {dar.ny}'
        defs += '\n' + gr1games.coq_defs(p + 'd', d)
        call = (f'Gr1Gen.solve_streett_game {dn} {p}dE {p}dS {p}dP {p}dR '
                f'{b(moore)} {b(plus_one)} {fuel}')
        terms.append(f'eq1 (tt1 {dn} (fst (fst ({call})))) {games.litn(ztab)}')
        keys.append(('reused-after-role-swap', moore, plus_one))
    return (defs, terms), keys


def oracle_check(g, impl):
    ex = gr1games.Explicit(g)
    for (moore, plus_one), (z, _, _) in impl.items():
        exp = ex.table(ex.streett(moore, plus_one))
        if exp != z:
            ar = g['ar']
            bad = [i for i in range(ar.ns) if exp[i] != z[i]][0]
            st = ar.state_dict(*ar.states()[bad])
            kind = 'missing from' if exp[bad] else 'wrongly included in'
            return Failing(
                f'state {st} is {kind} the Streett(1) region '
                f'(moore={moore}, plus_one={plus_one})',
                dict(gr1games.case_of(g), moore=moore, plus_one=plus_one),
                expected=exp, got=z)
    # history: the same automaton object re-used with the players' roles
    # exchanged must give the region of the exchanged game
    for moore, plus_one in MODES[1:3]:
        d, ztab = run_reused(g, moore, plus_one)
        exd = gr1games.Explicit(d)
        exp = exd.table(exd.streett(moore, plus_one))
        if exp != ztab:
            return Failing(
                'solve_streett_game on an automaton re-used after the players '
                f'exchanged roles (moore={moore}, plus_one={plus_one}) returns '
                'a region different from the exchanged game\'s',
                dict(gr1games.case_of(g), moore=moore, plus_one=plus_one,
                     scenario='reused-after-role-swap'),
                expected=exp, got=ztab)
    return None


def correspond(ctx):
    n_games = 150 if ctx.thorough else 16
    max_states = 32 if ctx.thorough else 16
    gs, impls = [], []
    trivial = 0
    hist = {}
    distinct = set()
    for i in range(n_games):
        g = gr1games.make_game(ctx.rng, 'cudd' if i % 2 else 'autoref',
                               max_states)
        try:
            impl = run_impl(g)
            if i % 2 == 0:
                mode = MODES[(i // 2) % 4]
                g['reused'] = (mode,) + run_reused(g, *mode)
        except Exception as e:
            return [Mismatch('solver raised', gr1games.case_of(g),
                             impl=repr(e), property_fails=True)]
        gs.append(g)
        impls.append(impl)
        hist[g['ar'].ns] = hist.get(g['ar'].ns, 0) + 1
        for k, (z, _, _) in impl.items():
            if any(z) and not all(z):
                distinct.add((i, k))
            else:
                trivial += 1
    groups, allkeys = [], []
    for i, (g, impl) in enumerate(zip(gs, impls)):
        grp, keys = coq_group(i, g, impl)
        groups.append(grp)
        allkeys += [(i, k) for k in keys]
    res = ctx.eval_groups('corr', HEADER, groups, shard=4)
    mism = []
    for (i, k), ok in zip(allkeys, res):
        if not ok:
            mism.append(Mismatch(
                'solve_streett_game (region or iterates) differs from the '
                'translated model' + (' on an automaton re-used after the '
                                      'players exchanged roles'
                                      if k[0] == 'reused-after-role-swap'
                                      else ''),
                dict(gr1games.case_of(gs[i]), moore=k[-2], plus_one=k[-1],
                     scenario=str(k[0])),
                impl=(impls[i][k][0] if k in impls[i] else None)))
    # the explicit oracle is exercised on every run as well
    for g, impl in list(zip(gs, impls))[:8]:
        f = oracle_check(g, impl)
        if f:
            mism.append(Mismatch('explicit solver disagrees: ' + f.what,
                                 f.case, impl=f.got, model=f.expected,
                                 property_fails=True))
    ctx.cov['evaluations'] += len(res)
    ctx.cov['distinct_nontrivial'] += len(distinct)
    ctx.cov['rule'] = (
        'random GR(1) games: 1-2 env and 1-2 sys variables of Boolean/int '
        'kinds in all hint shapes, optional rigid constant, random/structured '
        'action tables (70% of env actions independent of y\'), 1-3 '
        'persistence and 1-3 recurrence sets; the real solve_streett_game in '
        'all 4 modes on alternating back ends; region AND all recorded '
        'iterates (yij, xijk) compared as truth tables over all bit-range '
        'valuations with the translated Gallina evaluated by vm_compute. '
        'non-trivial = region neither empty nor full')
    ctx.cov['samples'] = [dict(gr1games.case_of(gs[0]),
                               region={str(k): v[0]
                                       for k, v in impls[0].items()})]
    ctx.extra['correspondence'] = dict(
        games=n_games, comparisons=len(res), trivial_regions=trivial,
        states_histogram=hist, mismatches=len(mism))
    return mism


def search(ctx, broken, mismatches):
    for m in mismatches:
        if m.case is None:
            continue
        g = gr1games.rebuild({k: v for k, v in m.case.items()
                              if k not in ('moore', 'plus_one')})
        try:
            f = oracle_check(g, run_impl(g))
        except Exception as e:
            f = Failing('solver raised ' + repr(e), m.case)
        if f:
            return [f]
    budget = 300 if ctx.thorough else 80
    for i in range(budget):
        g = gr1games.make_game(ctx.rng, 'cudd' if i % 2 else 'autoref', 16)
        try:
            f = oracle_check(g, run_impl(g))
        except Exception as e:
            f = Failing('solver raised ' + repr(e), gr1games.case_of(g))
        if f:
            return [f]
    return []


def replay(path):
    import json
    d = json.load(open(path))
    case = d.get('input') or (d.get('correspondence_mismatches') or [{}])[0].get('case')
    if not case:
        print('no concrete input in replay file:', d.get('broken'))
        return 1
    g = gr1games.rebuild({k: v for k, v in case.items()
                          if k not in ('moore', 'plus_one')})
    f = oracle_check(g, run_impl(g))
    print('still fails: ' + f.what if f else 'passes')
    return 1 if f else 0
