(* L2 / Check: comparison of the model with tables observed on the real
   translator; evaluated with vm_compute by the correspondence check. *)
From Coq Require Import ZArith List Bool.
From Omega Require Import L1Circuits.Circuits L2Compile.Expr.
Import ListNotations.

Fixpoint list_eqb {A} (eqb : A -> A -> bool) (a b : list A) : bool :=
  match a, b with
  | [], [] => true
  | x :: a', y :: b' => eqb x y && list_eqb eqb a' b'
  | _, _ => false
  end.

Definition opt_eqb {A} (eqb : A -> A -> bool) (a b : option A) : bool :=
  match a, b with
  | Some x, Some y => eqb x y
  | None, None => true
  | _, _ => false
  end.

Definition is_none {A} (x : option A) : bool :=
  match x with None => true | _ => false end.

(* impl = Some table: the translator accepted and its BDD has this truth
   table over the slots; impl = None: the translator raised *)
Definition check_pred (t : table) (slots : list (nat * bool)) (e : expr)
  (impl : option (list bool)) : bool :=
  let tt := truth_table t slots e in
  match impl with
  | Some tbl => list_eqb (opt_eqb Bool.eqb) tt (map Some tbl)
  | None => forallb is_none tt
  end.

Definition check_bits (t : table) (slots : list (nat * bool)) (e : expr)
  (impl : option (list (list bool))) : bool :=
  let tt := bits_table t slots e in
  match impl with
  | Some tbl => list_eqb (opt_eqb (list_eqb Bool.eqb)) tt (map Some tbl)
  | None => forallb is_none tt
  end.
