(* The onion of one recurrence goal and the first layer / first trap that
   contains a given state. *)
From Coq Require Import List Bool Arith Lia.
Import ListNotations.
From Omega Require Import L4.Arena L4.ArenaFacts L4.Kleene L4.GameSpec.
From OmegaGen Require Import FixpointGen Gr1Gen.
From OmegaGP Require Import TransducerModel CaSpec StreettNB1 StreettNB2.

Section NB3.
Variables nc nx ny : nat.
Variables E S : bdd.
Variables moore plus_one : bool.
Variables holds : list bdd.
Variable gl : bdd.   (* the goal of the attractor: R /\ cpre z in the solver *)
Local Notation inr := (inr nc nx ny).

Local Notation cp := (cpre_spec nx ny moore plus_one E S).

(* what _attractor_under_assumptions records for one goal, abstractly:
   layer y = previous layer \/ traps of this round; each trap x for P satisfies
   x <= (P /\ cpre x) \/ cpre(previous layer) \/ gl, on valuations of the arena *)
Inductive onion : bdd -> list bdd -> list (list bdd) -> Prop :=
| onion_nil Yp : onion Yp [] []
| onion_cons Yp y yr xk xr :
    length xk = length holds ->
    (forall s, y s = Yp s || existsb (fun x => x s) xk) ->
    (forall x P, In (x, P) (combine xk holds) -> forall s, inr s -> x s = true ->
       (P s && cp x s) || cp Yp s || gl s = true) ->
    onion y yr xr -> onion Yp (y :: yr) (xk :: xr).

Definition flat (xjk : list (list bdd)) : list (bdd * bdd) :=
  concat (map (fun xk => combine xk holds) xjk).

Lemma flat_cons xk xr : flat (xk :: xr) = combine xk holds ++ flat xr.
Proof. reflexivity. Qed.

Definition prev_layer (Yp : bdd) (ys1 : list bdd) : bdd := last ys1 Yp.

Lemma last_default {A} (l : list A) a d d' : last (a :: l) d = last (a :: l) d'.
Proof.
  revert a. induction l as [|b l IH]; intros a; [reflexivity|].
  change (last (a :: b :: l) d) with (last (b :: l) d).
  change (last (a :: b :: l) d') with (last (b :: l) d'). apply IH.
Qed.

Lemma first_in_combine (xk hs : list bdd) s :
  length xk = length hs -> existsb (fun x => x s) xk = true ->
  exists a1 x P a2, combine xk hs = a1 ++ (x, P) :: a2 /\ x s = true /\
    (forall p, In p a1 -> fst p s = false).
Proof.
  revert hs. induction xk as [|x xk IH]; intros hs Hl Hex; [discriminate|].
  destruct hs as [|P hs]; [discriminate|]. cbn [combine existsb] in *.
  destruct (x s) eqn:Ex.
  - exists [], x, P, (combine xk hs). split; [reflexivity|]. split; [exact Ex|intros p []].
  - cbn [orb] in Hex. destruct (IH hs ltac:(cbn [length] in Hl; lia) Hex)
      as [a1 [x1 [P1 [a2 [Hc [Hx1 Ha1]]]]]].
    exists ((x, P) :: a1), x1, P1, a2. split; [rewrite Hc; reflexivity|].
    split; [exact Hx1|]. intros p [<-|Hp]; [exact Ex|apply Ha1, Hp].
Qed.

Lemma combine_all_false (xk hs : list bdd) s :
  existsb (fun x => x s) xk = false -> forall p, In p (combine xk hs) -> fst p s = false.
Proof.
  revert hs. induction xk as [|x xk IH]; intros hs Hex p Hp; [destruct Hp|].
  destruct hs as [|P hs]; [destruct Hp|]. cbn [combine existsb] in *.
  apply orb_false_iff in Hex. destruct Hex as [Hx Hr].
  destruct Hp as [<-|Hp]; [exact Hx|apply (IH hs Hr p Hp)].
Qed.

(* the first layer containing s, and the first trap (in iteration order)
   containing s; that trap belongs to that layer *)
Lemma onion_find Yp yj xjk s :
  onion Yp yj xjk -> inr s -> Yp s = false -> last yj Yp s = true ->
  exists ys1 y ys2 f1 x P f2,
    yj = ys1 ++ y :: ys2 /\ y s = true /\ (forall y1, In y1 ys1 -> y1 s = false) /\
    flat xjk = f1 ++ (x, P) :: f2 /\ x s = true /\ (forall p, In p f1 -> fst p s = false) /\
    In P holds /\
    (P s && cp x s) || cp (prev_layer Yp ys1) s || gl s = true.
Proof.
  intros Ho Hs. induction Ho as [Yp|Yp y yr xk xr Hlen Hy Hx Ho IH]; intros HYp Hlast.
  - cbn [last] in Hlast. congruence.
  - destruct (y s) eqn:Eys.
    + (* first layer *)
      pose proof (Hy s) as Hys. rewrite Eys, HYp in Hys. cbn [orb] in Hys. symmetry in Hys.
      destruct (first_in_combine xk holds s Hlen Hys) as [a1 [x [P [a2 [Hc [Hxs Ha1]]]]]].
      exists [], y, yr, a1, x, P, (a2 ++ flat xr).
      split; [reflexivity|]. split; [exact Eys|]. split; [intros y1 []|].
      split; [rewrite flat_cons; unfold bdd in *; rewrite Hc, <- app_assoc; reflexivity|].
      split; [exact Hxs|]. split; [exact Ha1|].
      assert (Hin : In (x, P) (combine xk holds)) by (unfold bdd in *; rewrite Hc; apply in_elt).
      split; [apply (in_combine_r _ _ _ _ Hin)|].
      unfold prev_layer. cbn [last]. apply (Hx x P Hin s Hs Hxs).
    + (* deeper layer *)
      assert (Hl : last yr y s = true).
      { destruct yr as [|y' yr']; [cbn [last] in Hlast; congruence|].
        change (last (y :: y' :: yr') Yp) with (last (y' :: yr') Yp) in Hlast.
        rewrite (last_default yr' y' y Yp). exact Hlast. }
      destruct (IH eq_refl Hl) as [ys1 [y' [ys2 [f1 [x [P [f2 [H1 [H2 [H3 [H4 [H5 [H6 [H7 H8]]]]]]]]]]]]]].
      pose proof (Hy s) as Hys. rewrite Eys, HYp in Hys. cbn [orb] in Hys. symmetry in Hys.
      exists (y :: ys1), y', ys2, (combine xk holds ++ f1), x, P, f2.
      split; [rewrite H1; reflexivity|]. split; [exact H2|].
      split; [intros y1 [<-|Hy1]; [exact Eys|apply H3, Hy1]|].
      split; [rewrite flat_cons; unfold bdd in *; rewrite H4, <- app_assoc; reflexivity|].
      split; [exact H5|].
      split; [intros p Hp; apply in_app_iff in Hp; destruct Hp as [Hp|Hp];
              [apply (combine_all_false xk holds s Hys p Hp)|apply H6, Hp]|].
      split; [exact H7|].
      unfold prev_layer in *. destruct ys1 as [|y1 ys1']; [cbn [last] in *; exact H8|].
      change (last (y :: y1 :: ys1') Yp) with (last (y1 :: ys1') Yp).
      rewrite (last_default ys1' y1 Yp y). exact H8.
Qed.

End NB3.
