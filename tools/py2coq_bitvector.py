"""Fail-closed translator for the circuit layer of omega/logic/bitvector.py
(tie T for C06).

Reads the CURRENT source text with `ast` (never imports omega) and turns the
circuit generators into Gallina over the types of
coq/theories/L1Circuits/PyBits.v:

  kind     Python value                         Gallina type
  bit      a prefix-syntax formula (str)        Deep.bx
  bits     list of such formulas                list bx
  int      int                                  Z
  optint   int or None                          option Z
  bool     bool                                 bool
  opstr    an operator spelling (str compared   string
           with literals only)
  buf      the text "$ n c1 ... cn"             PyBits.fbuf
  joined   ' '.join(<bits>)                     list bx  (only inside "$")
  tuples of these
and, for the flatten methods of `class Nodes` (second part of the output):
  node     a parsed tree                        Thread.pnode
  fres     what flatten returns (str | list)    Thread.fres
  optbits  the `mem` argument: list or None     option (list bx)
  kwargs   **kw (opaque; kw.update(prime=True)) Section variable
The methods Arithmetic / Comparator / Operator / Unary .flatten become one
Fixpoint `g_flatten` that dispatches on the class name; the other classes'
methods and every branch that cannot be translated before the first
assignment of a method are the Section variable `ext_flatten` (listed in
the notes).  `x.flatten(mem=m, ...)` returns, next to its result, the final
state of the list passed as m.

Strings of prefix syntax are read as trees through the fixed table of
templates printed by `template_table()`; a string built in any other way is
a refusal.  Exceptions (assert / raise / index out of range / None used as
an int / a negative number printed as a register) make every translated
function return `option`.  Recursion becomes a Fixpoint on `fuel`.

In-place mutation of lists (`append`, `extend`, `insert(0, .)`) becomes
rebinding; a function that mutates a parameter also returns the parameter's
final value.  This is only sound without aliasing, so a mutated name must be
owned: bound from fresh expressions (or be a parameter that every caller
passes as an owned name), never copied to another name and never passed
where the callee may hand it back.

Nothing is dropped silently: every statement or expression that does not
appear in the generated term is listed in `notes`.
"""
import ast

from py2coq import Refuse, _src

SRC = 'omega/logic/bitvector.py'

# name -> ([(param, kind)], return kind).  The parameter lists are checked
# against the source; the return kinds are checked at every `return`.
SIGNATURES = {
    'sign': ([('x', 'bits')], 'bit'),
    'pad': ([('x', 'bits'), ('n', 'int')], 'bits'),
    'truncate': ([('x', 'bits'), ('n', 'int')], 'bits'),
    'fixed_shift': ([('x', 'bits'), ('c', 'int'), ('left', 'bool'),
                     ('logical', 'bool'), ('truncate', 'bool')], 'bits'),
    'sign_extension': ([('x', 'bits'), ('n', 'int')], 'bits'),
    'equalize_width': ([('x', 'bits'), ('y', 'bits'), ('extend_by', 'int')],
                       ('bits', 'bits')),
    '_extend_memory': ([('mem', 'bits'), ('more_mem', 'bits'),
                        ('start', 'int')], 'int'),
    'adder_subtractor': ([('x', 'bits'), ('y', 'bits'), ('add', 'bool'),
                          ('start', 'int'), ('extend_by', 'int')],
                         ('bits', 'bits', 'bit')),
    'inequality': ([('p', 'bits'), ('q', 'bits'), ('mem', 'bits')], 'bit'),
    'less_than': ([('p', 'bits'), ('q', 'bits'), ('mem', 'bits')], 'bit'),
    'ite_function': ([('a', 'bit'), ('b', 'bits'), ('c', 'bits'),
                      ('start', 'int')], ('bits', 'bits')),
    'ite_connective': ([('a', 'bit'), ('b', 'bit'), ('c', 'bit')], 'buf'),
    '_negate_if': ([('guard', 'bit'), ('x', 'bits'), ('start', 'int')],
                   ('bits', 'bits')),
    'abs_': ([('x', 'bits'), ('start', 'int')], ('bits', 'bits')),
    '_multiplier': ([('x', 'bits'), ('y', 'bits'), ('s', 'optint'),
                     ('start', 'int')], ('bits', 'bits')),
    'multiplier': ([('x', 'bits'), ('y', 'bits'), ('start', 'int')],
                   ('bits', 'bits')),
    '_restoring_divider': ([('x', 'bits'), ('y', 'bits'), ('s', 'optint'),
                            ('start', 'int')], ('bits', 'bits', 'bits')),
    'restoring_divider': ([('x', 'bits'), ('y', 'bits'), ('start', 'int')],
                          ('bits', 'bits', 'bits')),
    'flatten_arithmetic': ([('operator', 'opstr'), ('p', 'bits'),
                            ('q', 'bits'), ('mem', 'bits')], 'bits'),
    'flatten_comparator': ([('operator', 'opstr'), ('x', 'bits'),
                            ('y', 'bits'), ('mem', 'bits')], 'buf'),
}
# the leaf layer: strings are Python strings (names, digits), not formulas
LEAF_SIGNATURES = {
    'twos_complement_to_int': ([('bits', 'strs')], 'int'),
    'int_to_twos_complement': ([('s', 'pystr')], 'strs'),
    '_assert_var_in_table': ([('name', 'pystr'), ('t', 'opttable')], 'unit'),
    '_append_sign_bit': ([('bits', 'strs'), ('var', 'pystr'),
                          ('d', 'hint')], 'unit'),
    'var_to_twos_complement': ([('var', 'pystr'), ('t', 'opttable')],
                               'strs'),
    '_is_bool_var': ([('name', 'pystr'), ('t', 'opttable')], 'bool'),
}
SIGNATURES.update(LEAF_SIGNATURES)
ORDER = list(SIGNATURES)
HINT_KEYS = {'type': ('h_type', 'pystr', False),
             'bitnames': ('h_bitnames', 'strs', True),
             'signed': ('h_signed', 'bool', True),
             'dom': ('h_dom', ('int', 'int'), True)}

COQ_TYPE = {'bit': 'bx', 'bits': 'list bx', 'int': 'Z', 'optint': 'option Z',
            'bool': 'bool', 'opstr': 'string', 'buf': 'fbuf',
            'joined': 'list bx', 'unit': 'unit', 'node': 'pnode',
            'nodes': 'list pnode', 'fres': 'fres',
            'optbits': 'option (list bx)', 'none': 'option (list bx)',
            'kwargs': 'kwargs defs', 'open2': 'bx -> bx -> bx',
            'pystr': 'string', 'strs': 'list string', 'ints': 'list Z',
            'optbool': 'option bool', 'table': 'table',
            'opttable': 'option table', 'hint': 'hint', 'defs': 'defs',
            'optdefs': 'option defs', 'form': 'px'}
ELT = {'bits': 'bit', 'strs': 'pystr', 'ints': 'int'}
LISTOF = {v: k for k, v in ELT.items()}
OPTS = {'optint': 'int', 'optbits': 'bits', 'opttable': 'table',
        'optdefs': 'defs'}
LIST_KINDS = ('bits',)
RESERVED = {
    'repeat', 'length', 'map', 'combine', 'last', 'fst', 'snd', 'app',
    'firstn', 'skipn', 'concat', 'existsb', 'negb', 'andb', 'orb', 'Some',
    'None', 'fuel', 'fun', 'let', 'in', 'match', 'with', 'end', 'if', 'then',
    'else', 'fix', 'true', 'false', 'nil', 'cons', 'tt', 'bx', 'Z', 'at',
    'as', 'forall', 'exists', 'Type', 'Prop', 'Set', 'return', 'using',
    'where', 'mod', 'fold_right', 'option', 'list', 'bool', 'string', 'nat',
    'XC', 'XV', 'XR', 'XNot', 'XAnd', 'XOr', 'XXor', 'FBuf', 'fbuf', 'S', 'O',
    'cofix', 'struct', 'for', 'IF', 'pair', 'id', 'pred', 'succ', 'rev'}
SKIP_CALLS = ('logger.info', 'logger.debug', 'logger.warning', 'print')

# ------------------------------------------------------------------ templates
TEMPLATES = [
    ('0', 'XC false', 'the constant false'),
    ('1', 'XC true', 'the constant true'),
    ('! A', 'XNot A', 'negation'),
    ('& A B', 'XAnd A B', 'conjunction'),
    ('| A B', 'XOr A B', 'disjunction'),
    ('^ A B', 'XXor A B', 'exclusive or'),
    ('? K', 'py_reg K', 'memory register (K an int hole or a literal; '
     'fails for K < 0)'),
    ('{e}', 'e', 'a hole of kind bit: must be a whole space-separated token'),
    ('$ N C1 .. Cn', 'FBuf N [C1; ..; Cn]', 'buffer whose cells are written '
     'out (N an int hole or literal)'),
    ('$ N {s}', 'FBuf N s', 'buffer whose cells are s = " ".join(<bits>)'),
    ('P = a literal that lacks its last two operands, e.g. "! ^"',
     'fun a b => P a b', 'operator prefix kept in a variable'),
    ('{op} A1 .. An with op a str (a value of Nodes.opmap)',
     'py_apply_prefix op [A1; ..; An]', 'operator prefix known only at run '
     'time, applied to flatten results read as formulas (px_of_fres)'),
    ('{f} A B', 'f A B', 'a hole holding an operator prefix, applied to the '
     'two formulas after it'),
    ('" ".join(T for .. in ..) + " " + E', 'fold_right (fun .. acc => T acc) '
     'E ..', 'T a template with its LAST operand missing, E a complete one'),
]


def template_table():
    return [f'{a}  ->  {b}   ({c})' for a, b, c in TEMPLATES]


class Hole:
    def __init__(self, expr):
        self.expr = expr


def template_tokens(node):
    """Tokens of a str Constant or an f-string: literal words and Holes."""
    if isinstance(node, ast.Constant) and isinstance(node.value, str):
        return node.value.split()
    if not isinstance(node, ast.JoinedStr):
        raise Refuse(f'not a string template: {_src(node)}')
    toks = []
    prev_hole = False
    for part in node.values:
        if isinstance(part, ast.Constant):
            s = part.value
            if prev_hole and s and not s[0].isspace():
                raise Refuse('a hole is glued to text in ' + _src(node))
            toks.extend(s.split())
            prev_hole = False
        elif isinstance(part, ast.FormattedValue):
            if part.conversion != -1 or part.format_spec is not None:
                raise Refuse('format conversion in ' + _src(node))
            if prev_hole or (toks and glued_last(node, part)):
                raise Refuse('a hole is glued to text in ' + _src(node))
            toks.append(Hole(part.value))
            prev_hole = True
        else:
            raise Refuse('unknown f-string part in ' + _src(node))
    return toks


def glued_last(node, part):
    """Is the text right before hole `part` non-blank-terminated?"""
    vals = node.values
    i = vals.index(part)
    if i == 0:
        return False
    before = vals[i - 1]
    if isinstance(before, ast.Constant):
        return bool(before.value) and not before.value[-1].isspace()
    return True


# --------------------------------------------------------------------- kinds
def coq_type(k):
    if isinstance(k, tuple):
        return '(' + ' * '.join(coq_type(x) for x in k) + ')'
    if k not in COQ_TYPE:
        raise Refuse(f'no Gallina type for kind {k}')
    return COQ_TYPE[k]


def unify(a, b):
    if a == b:
        return a
    if {a, b} == {'int', 'optint'}:
        return 'optint'
    if {a, b} <= {'bits', 'none', 'optbits'}:
        return 'optbits'
    for o, base in OPTS.items():
        if {a, b} == {o, base}:
            return o
    raise Refuse(f'kinds {a} and {b} do not unify')


def coerce(text, have, want):
    if have == want:
        return text
    if have == 'int' and want == 'optint':
        return f'(Some {text})'
    if OPTS.get(want) == have:
        return f'(Some {text})'
    if have == 'none' and want == 'optbits':
        return 'None'
    if want == 'fres' and have in ('bits', 'bit', 'buf', 'form'):
        return '(%s %s)' % ({'bits': 'RBits', 'bit': 'RStr',
                             'buf': 'RBuf', 'form': 'RForm'}[have], text)
    if isinstance(have, tuple) and isinstance(want, tuple) \
            and len(have) == len(want):
        raise Refuse('coercion inside a tuple')
    raise Refuse(f'cannot use a {have} as a {want}')


def tup(names):
    if not names:
        return 'tt'
    if len(names) == 1:
        return names[0]
    return '(' + ', '.join(names) + ')'


def ind(text, n=2):
    pad = ' ' * n
    return '\n'.join(pad + l if l else l for l in text.split('\n'))


def wrap(binds, body):
    """binds: list of ('bind', pattern, option term) | ('guard', bool term)
    | ('let', pattern, term), innermost last."""
    for b in reversed(binds):
        if b[0] == 'bind':
            body = (f'match {b[2]} with\n| Some {b[1]} =>\n{ind(body)}\n'
                    f'| None => None\nend')
        elif b[0] == 'guard':
            body = f'if {b[1]} then\n{ind(body)}\nelse None'
        else:
            body = f'let {b[1]} := {b[2]} in\n{body}'
    return body


def names_used(stmts):
    """Names read in statements (logging / print calls excluded)."""
    out = set()

    class V(ast.NodeVisitor):
        def visit_Expr(self, n):
            if isinstance(n.value, ast.Call) and \
                    _call_name(n.value) in SKIP_CALLS:
                return
            if isinstance(n.value, ast.Constant):
                return
            self.generic_visit(n)

        def visit_Assert(self, n):
            self.visit(n.test)      # the message is not evaluated

        def visit_Name(self, n):
            if isinstance(n.ctx, ast.Load):
                out.add(n.id)

        def visit_AugAssign(self, n):
            if isinstance(n.target, ast.Name):
                out.add(n.target.id)
            self.generic_visit(n)
    for s in stmts:
        V().visit(s)
    return out


def names_assigned(stmts, tr=None):
    """Names (re)bound by statements: assignment targets, lists mutated in
    place or by a callee that mutates its parameter."""
    out = set()
    for s in stmts:
        for n in ast.walk(s):
            if tr is not None and isinstance(n, ast.Call) and \
                    _call_name(n) in tr.fns:
                callee = tr.fns[_call_name(n)]
                for pname, arg in tr.bind_args(callee, n):
                    if pname in callee.mutated and isinstance(arg, ast.Name):
                        out.add(arg.id)
            if isinstance(n, ast.Name) and isinstance(n.ctx, ast.Store):
                out.add(n.id)
            if isinstance(n, ast.Call) and isinstance(n.func, ast.Attribute) \
                    and n.func.attr in ('append', 'extend', 'insert') \
                    and isinstance(n.func.value, ast.Name):
                out.add(n.func.value.id)
    return out


def _call_name(call):
    f = call.func
    if isinstance(f, ast.Name):
        return f.id
    if isinstance(f, ast.Attribute) and isinstance(f.value, ast.Name):
        return f.value.id + '.' + f.attr
    return None


def terminates(stmts):
    if not stmts:
        return False
    s = stmts[-1]
    if isinstance(s, (ast.Return, ast.Raise)):
        return True
    if isinstance(s, ast.If):
        return terminates(s.body) and terminates(s.orelse)
    return False


class Fn:
    def __init__(self, name, node):
        self.name = name
        self.node = node
        self.coq = 'g_' + name
        self.params = []        # (python name, kind, default text | None)
        self.ret = None
        self.mutated = []       # parameter names
        self.recursive = False
        self.fuel = False
        self.calls = set()


class Translator:
    def __init__(self, path, wanted=None):
        with open(path) as f:
            self.tree = ast.parse(f.read())
        self.notes = []
        self.consts = {}
        self.found = {n.name: n for n in self.tree.body
                      if isinstance(n, ast.FunctionDef)}
        self.fns = {}
        self.cur = None
        self.counter = 0
        self.used_templates = []
        self.method = None
        self.open2_mode = False
        self.strmode = False
        self.opaque_name = 'ext_flatten'
        self.used_opmap = False
        self.prime_const = None
        self.opaque_lines = []
        self.with_methods = True
        self.used_consts = []
        self.done = []
        self.wanted = list(wanted or ORDER)
        import os
        sp = os.path.join(os.path.dirname(path), 'syntax.py')
        if os.path.exists(sp):
            with open(sp) as f2:
                for n in ast.parse(f2.read()).body:
                    if isinstance(n, ast.Assign) and len(n.targets) == 1 and \
                            getattr(n.targets[0], 'id', None) == 'PRIME' and \
                            isinstance(n.value, ast.Constant) and \
                            isinstance(n.value.value, str):
                        self.prime_const = n.value.value
        for n in self.tree.body:
            if isinstance(n, ast.Assign) and len(n.targets) == 1 and \
                    isinstance(n.targets[0], ast.Name) and \
                    isinstance(n.value, ast.Constant) and \
                    type(n.value.value) is int:
                self.consts[n.targets[0].id] = n.value.value

    # ------------------------------------------------------------ utilities
    def note(self, s):
        s = f'{self.cur.name}: {s}' if self.cur else s
        s = s.replace('(*', '( *').replace('*)', '* )').replace('"', "'")
        s = ' '.join(s.split())
        if s not in self.notes:
            self.notes.append(s)

    def fresh(self):
        self.counter += 1
        return f'v{self.counter}'

    def cname(self, name):
        if name == '_':
            return '_'
        if name in RESERVED or name.startswith('g_') or \
                name.startswith('py_') or (name[0] == 'v' and
                                           name[1:].isdigit()):
            return name + '_'
        return name

    # ------------------------------------------------------- function setup
    def setup(self):
        for name in self.wanted:
            if name not in self.found:
                raise Refuse(f'function {name} not found in the source')
            node = self.found[name]
            fn = Fn(name, node)
            a = node.args
            if a.vararg or a.kwarg or a.kwonlyargs or a.posonlyargs:
                raise Refuse(f'{name}: unsupported signature')
            exp, ret = SIGNATURES[name]
            got = [x.arg for x in a.args]
            if got != [p for p, _ in exp]:
                raise Refuse(f'{name}: parameters {got}, expected '
                             f'{[p for p, _ in exp]}')
            defaults = [None] * (len(got) - len(a.defaults)) + list(a.defaults)
            for (p, k), d in zip(exp, defaults):
                fn.params.append((p, k, None if d is None
                                  else self.default(name, p, k, d)))
            fn.ret = ret
            if node.decorator_list:
                raise Refuse(f'{name}: decorated')
            self.fns[name] = fn
        for fn in self.fns.values():
            for n in ast.walk(fn.node):
                if isinstance(n, ast.Call) and isinstance(n.func, ast.Name) \
                        and n.func.id in self.fns:
                    fn.calls.add(n.func.id)
                if isinstance(n, (ast.Lambda, ast.Global, ast.Nonlocal,
                                  ast.Yield, ast.YieldFrom, ast.Try,
                                  ast.With, ast.While, ast.ClassDef,
                                  ast.Delete, ast.Import, ast.ImportFrom)):
                    raise Refuse(f'{fn.name}: {type(n).__name__} '
                                 'is outside the subset')
            for n in ast.walk(fn.node):
                if isinstance(n, ast.FunctionDef) and n is not fn.node:
                    raise Refuse(f'{fn.name}: nested function')
            fn.recursive = fn.name in fn.calls
        # order: callees first
        order, seen = [], set()

        def visit(name, stack):
            if name in seen:
                return
            if name in stack:
                raise Refuse(f'mutual recursion through {name}')
            for c in sorted(self.fns[name].calls):
                if c != name:
                    visit(c, stack + [name])
            seen.add(name)
            order.append(name)
        for name in self.wanted:
            visit(name, [])
        self.order = order
        for name in order:
            fn = self.fns[name]
            fn.fuel = fn.recursive or any(
                self.fns[c].fuel for c in fn.calls if c != name)
        self.analyse_mutation()

    def default(self, fname, p, kind, d):
        if not isinstance(d, ast.Constant):
            raise Refuse(f'{fname}: default of {p} is not a constant')
        v = d.value
        if kind == 'int' and type(v) is int:
            return self.zlit(v)
        if kind == 'bool' and type(v) is bool:
            return 'true' if v else 'false'
        if kind == 'optint' and v is None:
            return 'None'
        if kind == 'optint' and type(v) is int:
            return f'(Some {self.zlit(v)})'
        raise Refuse(f'{fname}: default {v!r} of {p} is not a {kind}')

    @staticmethod
    def zlit(v):
        return str(v) if v >= 0 else f'({v})'

    # ------------------------------------------- mutation and alias analysis
    def analyse_mutation(self):
        """Which parameters each function mutates, and the ownership checks
        that make rebinding a sound reading of in-place mutation."""
        for name in self.order:
            fn = self.fns[name]
            fn.mutated = self.mutated_names(fn, params_only=True)
            if fn.recursive and fn.mutated:
                raise Refuse(f'{name}: recursive function mutates a parameter')
        # may the value returned at position i be (an alias of) a parameter
        # or of something else than a fresh list?  greatest fixpoint
        self.fresh_ret = {n: None for n in self.order}
        for name in self.order:
            ret = self.fns[name].ret
            w = len(ret) if isinstance(ret, tuple) else 1
            self.fresh_ret[name] = [True] * w
        changed = True
        while changed:
            changed = False
            for name in self.order:
                new = self.compute_fresh_returns(self.fns[name])
                if new != self.fresh_ret[name]:
                    self.fresh_ret[name] = new
                    changed = True
        for name in self.order:
            self.check_ownership(self.fns[name])

    def mutated_names(self, fn, params_only=False):
        out = []
        for n in ast.walk(fn.node):
            if not isinstance(n, ast.Call):
                continue
            if isinstance(n.func, ast.Attribute) and \
                    n.func.attr in ('append', 'extend', 'insert') and \
                    isinstance(n.func.value, ast.Name):
                out.append(n.func.value.id)
            elif isinstance(n.func, ast.Name) and n.func.id in self.fns \
                    and n.func.id != fn.name:
                callee = self.fns[n.func.id]
                for pname, arg in self.bind_args(callee, n):
                    if pname in callee.mutated and isinstance(arg, ast.Name):
                        out.append(arg.id)
        params = [p for p, _, _ in fn.params]
        if params_only:
            return [p for p in params if p in out]
        return sorted(set(out))

    def bind_args(self, callee, call):
        """[(parameter name, argument node | None for a default)]"""
        if any(isinstance(a, ast.Starred) for a in call.args) or \
                any(k.arg is None for k in call.keywords):
            raise Refuse('star arguments in ' + _src(call))
        params = [p for p, _, _ in callee.params]
        if len(call.args) > len(params):
            raise Refuse('too many arguments in ' + _src(call))
        got = dict(zip(params, call.args))
        for k in call.keywords:
            if k.arg not in params or k.arg in got:
                raise Refuse('bad keyword argument in ' + _src(call))
            got[k.arg] = k.value
        return [(p, got.get(p)) for p in params]

    def is_fresh_expr(self, e, fn, fresh_locals):
        """Does e evaluate to a list no other name refers to?"""
        if isinstance(e, (ast.List, ast.ListComp, ast.Constant,
                          ast.JoinedStr)):
            return True
        if isinstance(e, ast.BinOp):
            return True
        if isinstance(e, ast.Subscript):
            return True         # a slice copies; an element is immutable
        if isinstance(e, ast.Name):
            return e.id in fresh_locals
        if isinstance(e, ast.Call):
            nm = _call_name(e)
            if nm == 'list':
                return True
            if isinstance(e.func, ast.Attribute) and e.func.attr in (
                    'zfill', 'lstrip', 'lower'):
                return True     # a str: immutable
            if nm in self.fns:
                fr = self.fresh_ret[nm]
                return len(fr) == 1 and fr[0]
        return False

    def local_freshness(self, fn):
        """Locals all of whose bindings are fresh lists (greatest fixpoint)."""
        params = {p for p, _, _ in fn.params}
        bindings = {}

        def add(t, v):
            if isinstance(t, ast.Name):
                bindings.setdefault(t.id, []).append(v)
            elif isinstance(t, ast.Tuple):
                if isinstance(v, ast.Tuple) and len(v.elts) == len(t.elts):
                    for a, b in zip(t.elts, v.elts):
                        add(a, b)
                elif isinstance(v, ast.Call) and _call_name(v) in self.fns:
                    for i, a in enumerate(t.elts):
                        add(a, ('ret', _call_name(v), i))
                else:
                    for a in t.elts:
                        add(a, None)
        for n in ast.walk(fn.node):
            if isinstance(n, ast.Assign):
                for t in n.targets:
                    add(t, n.value)
            elif isinstance(n, ast.For):
                add(n.target, None)
        fresh = {v for v in bindings if v not in params}
        changed = True
        while changed:
            changed = False
            for v in sorted(fresh):
                ok = True
                for b in bindings[v]:
                    if b is None:
                        ok = False
                    elif isinstance(b, tuple):
                        fr = self.fresh_ret[b[1]]
                        ok = ok and b[2] < len(fr) and fr[b[2]]
                    else:
                        ok = ok and self.is_fresh_expr(b, fn, fresh)
                if not ok:
                    fresh.discard(v)
                    changed = True
        return fresh

    def compute_fresh_returns(self, fn):
        fresh = self.local_freshness(fn)
        ret = fn.ret
        w = len(ret) if isinstance(ret, tuple) else 1
        out = [True] * w
        for n in ast.walk(fn.node):
            if isinstance(n, ast.Return) and n.value is not None:
                elts = n.value.elts if (isinstance(n.value, ast.Tuple)
                                        and w > 1) else [n.value]
                if len(elts) != w:
                    if isinstance(n.value, ast.Call) and \
                            _call_name(n.value) in self.fns:
                        fr = self.fresh_ret[_call_name(n.value)]
                        for i in range(w):
                            out[i] = out[i] and i < len(fr) and fr[i]
                        continue
                    return [False] * w
                for i, e in enumerate(elts):
                    out[i] = out[i] and self.is_fresh_expr(e, fn, fresh)
        return out

    def check_ownership(self, fn):
        mutated = self.mutated_names(fn)
        if not mutated:
            return
        params = {p for p, _, _ in fn.params}
        for n in ast.walk(fn.node):
            # the final value of a mutated parameter is handed back under
            # its name: the name must keep denoting the caller's list
            if isinstance(n, ast.Name) and isinstance(n.ctx, ast.Store) and \
                    n.id in fn.mutated:
                raise Refuse(f'{fn.name}: the mutated parameter {n.id} is '
                             're-bound')
        fresh = self.local_freshness(fn)
        for m in mutated:
            if m not in params and m not in fresh:
                raise Refuse(f'{fn.name}: the mutated list {m} may be '
                             'aliased (a binding of it is not a fresh list)')
        for n in ast.walk(fn.node):
            # a mutated name must not be copied
            if isinstance(n, ast.Assign):
                vals = n.value.elts if isinstance(n.value, ast.Tuple) \
                    else [n.value]
                for v in vals:
                    if isinstance(v, ast.Name) and v.id in mutated:
                        raise Refuse(f'{fn.name}: the mutated list {v.id} '
                                     'is copied to another name')
            if isinstance(n, (ast.List, ast.Tuple, ast.Dict, ast.Set)) and \
                    not isinstance(getattr(n, 'ctx', None), ast.Store):
                parent_ok = False
                for v in ast.iter_child_nodes(n):
                    if isinstance(v, ast.Name) and v.id in mutated and \
                            not self.is_return_tuple(fn, n) and not parent_ok:
                        raise Refuse(f'{fn.name}: the mutated list {v.id} '
                                     'is stored in a container')
            if isinstance(n, ast.Call) and _call_name(n) in self.fns:
                callee = self.fns[_call_name(n)]
                seen = []
                for pname, arg in self.bind_args(callee, n):
                    if isinstance(arg, ast.Name) and arg.id in mutated:
                        if arg.id in seen:
                            raise Refuse(f'{fn.name}: {arg.id} passed twice '
                                         'in ' + _src(n))
                        seen.append(arg.id)
                        if pname not in callee.mutated and \
                                not all(self.fresh_ret[callee.name]):
                            raise Refuse(
                                f'{fn.name}: the mutated list {arg.id} is '
                                f'passed to {callee.name}, which may return '
                                'an alias of an argument')
                    if pname in callee.mutated and arg is not None and \
                            not isinstance(arg, ast.Name) and \
                            not self.is_fresh_expr(arg, fn, set()):
                        raise Refuse(f'{fn.name}: argument for the mutated '
                                     f'parameter {pname} in {_src(n)}')
            elif isinstance(n, ast.Call) and _call_name(n) not in (
                    'len', 'enumerate', 'zip', '_format_mem', 'isinstance',
                    'reversed', 'list') and \
                    _call_name(n) not in SKIP_CALLS:
                for a in list(n.args) + [k.value for k in n.keywords]:
                    if isinstance(a, ast.Name) and a.id in mutated and not (
                            isinstance(n.func, ast.Attribute)
                            and n.func.attr == 'join'):
                        raise Refuse(f'{fn.name}: the mutated list {a.id} '
                                     'is passed to ' + _src(n.func))

    def is_return_tuple(self, fn, node):
        for n in ast.walk(fn.node):
            if isinstance(n, ast.Return) and n.value is node:
                return True
            if isinstance(n, ast.Assert) and n.msg is node:
                return True
        return False

    # ---------------------------------------------------------- expressions
    def expr(self, e, env, binds):
        """(Gallina text, kind); exceptions the expression may raise are
        appended to `binds` in evaluation order."""
        if isinstance(e, ast.Call) and isinstance(e.func, ast.Attribute) and \
                e.func.attr == 'format' and \
                isinstance(e.func.value, ast.Constant) and \
                isinstance(e.func.value.value, str) and not e.args:
            return self.template(self.format_to_fstring(e), env, binds)
        r = self.leaf_expr(e, env, binds)
        if r is not None:
            return r
        if isinstance(e, ast.Constant):
            v = e.value
            if isinstance(v, str) and self.strmode:
                return self.slit(v), 'pystr'
            if type(v) is bool:
                return ('true' if v else 'false'), 'bool'
            if type(v) is int:
                return self.zlit(v), 'int'
            if v is None:
                return 'None', 'optint'
            if isinstance(v, str):
                return self.template(e, env, binds)
            raise Refuse(f'constant {v!r}')
        if isinstance(e, ast.JoinedStr) and self.strmode:
            parts = []
            for part in e.values:
                if isinstance(part, ast.Constant):
                    parts.append(self.slit(part.value))
                elif isinstance(part, ast.FormattedValue) and \
                        part.conversion == -1 and part.format_spec is None:
                    t, k = self.expr(part.value, env, binds)
                    if k != 'pystr':
                        raise Refuse(f'{_src(part.value)} of kind {k} in '
                                     'the string ' + _src(e))
                    parts.append(t)
                else:
                    raise Refuse('f-string ' + _src(e))
            self.use_template('{a}{b} (names)')
            return '(' + ' ++ '.join(parts) + ')%string', 'pystr'
        if isinstance(e, ast.JoinedStr):
            return self.template(e, env, binds)
        if isinstance(e, ast.Attribute) and self.method and \
                isinstance(e.value, ast.Name) and e.value.id == 'self':
            if e.attr == 'operator':
                return 's_operator', 'opstr'
            if e.attr == 'operands':
                return 's_operands', 'nodes'
            if e.attr == 'value':
                return 's_operator', 'pystr'
            raise Refuse('attribute ' + _src(e))
        if isinstance(e, ast.Name):
            if e.id in env:
                return self.cname(e.id), env[e.id]
            if e.id in self.consts:
                if e.id not in self.used_consts:
                    self.used_consts.append(e.id)
                return f'g_{e.id}', 'int'
            raise Refuse(f'unknown name {e.id}')
        if isinstance(e, ast.List):
            items, kinds = [], set()
            for x in e.elts:
                t, k = self.expr(x, env, binds)
                if k not in LISTOF:
                    raise Refuse('list element of kind ' + str(k))
                items.append(t)
                kinds.add(k)
            if len(kinds) > 1:
                raise Refuse('list of mixed kinds ' + _src(e))
            k = kinds.pop() if kinds else ('pystr' if self.strmode else 'bit')
            return '[' + '; '.join(items) + ']', LISTOF[k]
        if isinstance(e, ast.Tuple):
            parts = [self.expr(x, env, binds) for x in e.elts]
            return tup([t for t, _ in parts]), tuple(k for _, k in parts)
        if isinstance(e, ast.UnaryOp):
            if isinstance(e.op, ast.Not):
                t = self.as_bool(e.operand, env, binds)
                return f'(negb {t})', 'bool'
            if isinstance(e.op, ast.USub):
                t = self.as_int(e.operand, env, binds)
                return f'(- {t})', 'int'
            raise Refuse('unary operator in ' + _src(e))
        if isinstance(e, ast.BoolOp):
            op = 'andb' if isinstance(e.op, ast.And) else 'orb'
            parts = []
            monadic = False
            for i, x in enumerate(e.values):
                b2 = []
                parts.append((self.as_bool(x, dict(env) if i else env, b2),
                              b2))
                if b2 and i > 0:
                    monadic = True
                elif i == 0:
                    binds.extend(b2)
                    parts[-1] = (parts[-1][0], [])
            if not monadic:
                t = parts[-1][0]
                for p, _ in reversed(parts[:-1]):
                    t = f'({op} {p} {t})'
                return t, 'bool'
            # short circuit: a later operand is evaluated (and may raise)
            # only when the earlier ones do not decide
            t = wrap(parts[-1][1], f'Some {parts[-1][0]}')
            for p, b2 in reversed(parts[:-1]):
                inner = (f'if {p} then\n{ind(t)}\nelse Some false'
                         if op == 'andb' else
                         f'if {p} then Some true else\n{ind(t)}')
                t = wrap(b2, inner)
            v = self.fresh()
            binds.append(('bind', v, f'(\n{ind(t)})'))
            return v, 'bool'
        if isinstance(e, ast.Compare):
            return self.compare(e, env, binds)
        if isinstance(e, ast.BinOp):
            return self.binop(e, env, binds)
        if isinstance(e, ast.IfExp):
            c = self.as_bool(e.test, env, binds)
            b1, b2 = [], []
            t1, k1 = self.expr(e.body, env, b1)
            t2, k2 = self.expr(e.orelse, env, b2)
            if b1 or b2:
                raise Refuse('conditional expression whose branches may '
                             'raise: ' + _src(e))
            k = unify(k1, k2)
            return (f'(if {c} then {coerce(t1, k1, k)} '
                    f'else {coerce(t2, k2, k)})'), k
        if isinstance(e, ast.Subscript):
            return self.subscript(e, env, binds)
        if isinstance(e, ast.ListComp):
            return self.listcomp(e, env, binds)
        if isinstance(e, ast.Call):
            return self.call(e, env, binds)
        raise Refuse(f'expression {_src(e)}')

    @staticmethod
    def format_to_fstring(e):
        """'.. {k} ..'.format(k=v, ...) as the f-string '.. {v} ..'
        (keyword arguments are evaluated in the order written; each must be
        used exactly once and in that order)."""
        import re
        text = e.func.value.value
        kws = {k.arg: k.value for k in e.keywords}
        if None in kws:
            raise Refuse('format(**..)')
        parts, order = [], []
        pos = 0
        for m in re.finditer(r'\{(\w*)\}', text):
            if m.start() > pos:
                parts.append(ast.Constant(value=text[pos:m.start()]))
            if m.group(1) not in kws:
                raise Refuse('format field ' + m.group(0))
            parts.append(ast.FormattedValue(value=kws[m.group(1)],
                                            conversion=-1, format_spec=None))
            order.append(m.group(1))
            pos = m.end()
        if pos < len(text):
            parts.append(ast.Constant(value=text[pos:]))
        if '{' in text.replace('{', '', len(order)) or \
                order != [k.arg for k in e.keywords]:
            raise Refuse('format string ' + _src(e))
        return ast.JoinedStr(values=parts)

    def leaf_expr(self, e, env, binds):
        """Expressions of the leaf layer (numerals, names, tables); None
        when e is none of them."""
        if isinstance(e, ast.Attribute) and isinstance(e.value, ast.Name):
            if (e.value.id, e.attr) == ('stx', 'PRIME'):
                if self.prime_const is None:
                    raise Refuse('stx.PRIME not found in syntax.py')
                return 'g_PRIME', 'pystr'
            return None
        if isinstance(e, ast.BinOp) and isinstance(e.op, ast.Pow):
            b = self.as_int(e.left, env, binds)
            x = self.as_int(e.right, env, binds)
            v = self.fresh()
            binds.append(('bind', v, f'py_pow {b} {x}'))
            return v, 'int'
        if isinstance(e, ast.Subscript):
            # Nodes.opmap[key]
            if isinstance(e.value, ast.Attribute) and \
                    isinstance(e.value.value, ast.Name) and \
                    (e.value.value.id, e.value.attr) == ('Nodes', 'opmap'):
                key, k = self.expr(e.slice, env, binds)
                if k not in ('pystr', 'opstr'):
                    raise Refuse('opmap key ' + _src(e))
                self.used_opmap = True
                v = self.fresh()
                binds.append(('bind', v, f'dict_get g_opmap {key}'))
                return v, 'pystr'
            # s.rsplit('_', 1)[0]
            c = e.value
            if isinstance(c, ast.Call) and isinstance(c.func, ast.Attribute) \
                    and c.func.attr == 'rsplit' and len(c.args) == 2 and \
                    isinstance(c.args[0], ast.Constant) and \
                    isinstance(c.args[0].value, str) and \
                    len(c.args[0].value) == 1 and \
                    isinstance(c.args[1], ast.Constant) and \
                    c.args[1].value == 1 and \
                    isinstance(e.slice, ast.Constant) and e.slice.value == 0:
                t, k = self.expr(c.func.value, env, binds)
                if k != 'pystr':
                    raise Refuse('rsplit of a ' + str(k))
                ch = c.args[0].value
                return f'(py_rsplit1 "{ch}"%char {t})', 'pystr'
            return None
        if not isinstance(e, ast.Call):
            return None
        nm = _call_name(e)
        f = e.func
        if isinstance(f, ast.Attribute) and f.attr == 'isdigit' and \
                not e.args and not e.keywords and \
                isinstance(f.value, ast.Subscript) and \
                isinstance(f.value.slice, ast.Constant) and \
                f.value.slice.value == 0:
            t, k = self.expr(f.value.value, env, binds)
            if k != 'pystr':
                raise Refuse('isdigit on a ' + str(k))
            v = self.fresh()
            binds.append(('bind', v, f'py_first_isdigit {t}'))
            return v, 'bool'
        if nm == 'int' and len(e.args) == 1 and not e.keywords:
            t, k = self.expr(e.args[0], env, binds)
            if k == 'int':
                return t, 'int'
            if k != 'pystr':
                raise Refuse(f'int of a {k}')
            v = self.fresh()
            binds.append(('bind', v, f'py_int {t}'))
            return v, 'int'
        if nm == 'bin' and len(e.args) == 1 and not e.keywords:
            return f'(py_bin {self.as_int(e.args[0], env, binds)})', 'pystr'
        if nm == 'sum' and len(e.args) == 1 and not e.keywords and \
                isinstance(e.args[0], (ast.GeneratorExp, ast.ListComp)):
            t, k = self.listcomp(e.args[0], env, binds)
            if k != 'ints':
                raise Refuse('sum of ' + str(k))
            return f'(py_sum {t})', 'int'
        if nm == 'list' and len(e.args) == 1 and not e.keywords:
            a = e.args[0]
            if isinstance(a, ast.Call) and _call_name(a) == 'reversed' and \
                    len(a.args) == 1:
                t, k = self.expr(a.args[0], env, binds)
                if k == 'pystr':
                    return f'(rev (py_chars {t}))', 'strs'
                if k in ELT:
                    return f'(rev {t})', k
                raise Refuse('reversed of a ' + str(k))
            t, k = self.expr(a, env, binds)
            if k in ELT:
                return t, k          # a copy: lists are values here
            raise Refuse('list of a ' + str(k))
        if isinstance(f, ast.Attribute) and not e.keywords:
            if f.attr == 'bit_length' and not e.args:
                return (f'(py_bit_length '
                        f'{self.as_int(f.value, env, binds)})'), 'int'
            if f.attr in ('lstrip', 'zfill', 'lower', 'isdigit'):
                t, k = self.expr(f.value, env, binds)
                if k != 'pystr':
                    raise Refuse(f'{f.attr} of a {k}')
                if f.attr == 'lstrip' and len(e.args) == 1 and \
                        isinstance(e.args[0], ast.Constant) and \
                        isinstance(e.args[0].value, str):
                    return (f'(py_lstrip {self.slit(e.args[0].value)} '
                            f'{t})'), 'pystr'
                if f.attr == 'zfill' and len(e.args) == 1:
                    m = self.as_int(e.args[0], env, binds)
                    return f'(py_zfill {m} {t})', 'pystr'
                if f.attr == 'lower' and not e.args:
                    return f'(py_lower {t})', 'pystr'
                if f.attr == 'isdigit' and not e.args and \
                        isinstance(f.value, ast.Subscript) and \
                        isinstance(f.value.slice, ast.Constant) and \
                        f.value.slice.value == 0:
                    raise Refuse('isdigit')   # handled below on the string
                raise Refuse('string method ' + _src(e))
        return None

    def as_int(self, e, env, binds):
        t, k = self.expr(e, env, binds)
        if k == 'int':
            return t
        if k == 'optint':
            # None where an int is needed: TypeError
            if isinstance(e, ast.Name):
                binds.append(('bind', self.cname(e.id), t))
                env[e.id] = 'int'
                return self.cname(e.id)
            v = self.fresh()
            binds.append(('bind', v, t))
            return v
        raise Refuse(f'{_src(e)} is a {k}, not an int')

    def as_bool(self, e, env, binds):
        t, k = self.expr(e, env, binds)
        if k == 'bool':
            return t
        if k == 'optbool':
            return f'(py_truth {t})'
        raise Refuse(f'{_src(e)} is a {k}; truth values of other kinds '
                     'are not translated')

    def as_kind(self, e, env, binds, kind):
        if kind == 'int':
            return self.as_int(e, env, binds)
        t, k = self.expr(e, env, binds)
        return self.convert(t, k, kind, e, env, binds)

    def convert(self, t, k, kind, e, env, binds):
        """Use a value of kind k where `kind` is needed; a dynamic type
        test that Python performs (the callee's leading isinstance
        assertion, None used as a list) becomes a bind."""
        if k == 'fres' and kind in ('bits', 'bit'):
            ctor = {'bits': 'RBits', 'bit': 'RStr'}[kind]
            v = self.fresh()
            binds.append(('bind', v, f'match {t} with {ctor} x_ => Some x_ '
                          f'| _ => None end'))
            return v
        if k in OPTS and OPTS[k] == kind and k != 'optint':
            if isinstance(e, ast.Name):
                binds.append(('bind', self.cname(e.id), t))
                env[e.id] = kind
                return self.cname(e.id)
            v = self.fresh()
            binds.append(('bind', v, t))
            return v
        if k == 'strs' and kind == 'bits':
            v = self.fresh()
            binds.append(('bind', v, f'py_mapM (py_token var_id) {t}'))
            return v
        if k == 'pystr' and kind == 'bit':
            v = self.fresh()
            binds.append(('bind', v, f'py_token var_id {t}'))
            return v
        if k == 'none' and kind == 'bits':
            binds.append(('guard', 'false'))
            return '[]'
        return coerce(t, k, kind)

    def compare(self, e, env, binds):
        operands = [e.left] + list(e.comparators)
        # `x is None`
        if len(e.ops) == 1 and isinstance(e.ops[0], (ast.Is, ast.IsNot)):
            if not (isinstance(operands[1], ast.Constant)
                    and operands[1].value is None):
                raise Refuse('`is` other than `is None`: ' + _src(e))
            t, k = self.expr(operands[0], env, binds)
            if k not in ('optint', 'optbits', 'none', 'bits', 'optbool',
                         'opttable', 'optdefs'):
                raise Refuse(f'`{_src(e)}`: operand of kind {k}')
            r = f'(match {t} with None => true | Some _ => false end)'
            if k == 'none':
                r = 'true'
            if k == 'bits':
                r = 'false'
            if isinstance(e.ops[0], ast.IsNot):
                r = f'(negb {r})'
            return r, 'bool'
        # `operator in {...}` / `operator == '...'`
        if len(e.ops) == 1:
            t0, k0 = self.expr(operands[0], env, []) if isinstance(
                operands[0], (ast.Name, ast.Attribute)) else (None, None)
            if k0 == 'opstr':
                return self.opstr_compare(e, t0), 'bool'
            r = self.leaf_compare(e, env, binds)
            if r is not None:
                return r, 'bool'
        texts = []
        kinds = []
        for x in operands:
            # evaluate each operand once, left to right (chained comparison
            # short-circuits, but operands here are pure)
            b2 = []
            t, k = self.expr(x, env, b2)
            if b2 and len(operands) > 2 and x is not operands[0]:
                raise Refuse('chained comparison whose later operand may '
                             'raise: ' + _src(e))
            binds.extend(b2)
            i = operands.index(x)
            adj = e.ops[max(i - 1, 0):i + 1]
            if k == 'optint' and isinstance(x, ast.Name) and any(
                    isinstance(o, (ast.Lt, ast.LtE, ast.Gt, ast.GtE))
                    for o in adj):
                t, k = self.as_int(x, env, binds), 'int'
            texts.append(t)
            kinds.append(k)
        parts = []
        for i, op in enumerate(e.ops):
            parts.append(self.cmp1(op, texts[i], kinds[i], texts[i + 1],
                                   kinds[i + 1], e, env, binds))
        t = parts[-1]
        for p in reversed(parts[:-1]):
            t = f'(andb {p} {t})'
        return t, 'bool'

    def leaf_compare(self, e, env, binds):
        op, lhs, rhs = e.ops[0], e.left, e.comparators[0]
        neg = isinstance(op, (ast.NotEq, ast.NotIn))
        wrapn = (lambda t: f'(negb {t})') if neg else (lambda t: t)
        if isinstance(op, (ast.In, ast.NotIn)):
            # 'key' in <hint>
            if isinstance(lhs, ast.Constant) and lhs.value in HINT_KEYS:
                b2 = []
                t, k = self.expr(rhs, env, b2)
                if k == 'hint':
                    binds.extend(b2)
                    fld, _, opt = HINT_KEYS[lhs.value]
                    if not opt:
                        return wrapn('true')
                    return wrapn(f'(match {fld} {t} with Some _ => true '
                                 f'| None => false end)')
                return None
            b2 = []
            a, ka = self.expr(lhs, env, b2)
            if ka != 'pystr':
                return None
            binds.extend(b2)
            c, kc = self.expr(rhs, env, binds)
            if kc in ('table', 'opttable'):
                c = self.convert(c, kc, 'table', rhs, env, binds)
                return wrapn(f'(dict_mem {c} {a})')
            if kc in ('defs', 'optdefs'):
                c = self.convert(c, kc, 'defs', rhs, env, binds)
                return wrapn(f'(defs_mem {c} {a})')
            if kc == 'strs':
                return wrapn(f'(str_mem {a} {c})')
            raise Refuse(f'membership in a {kc}: {_src(e)}')
        if isinstance(op, (ast.Eq, ast.NotEq)):
            b2 = []
            a, ka = self.expr(lhs, env, b2)
            if ka != 'pystr':
                return None
            binds.extend(b2)
            c, kc = self.expr(rhs, env, binds)
            if kc != 'pystr':
                raise Refuse(f'== between str and {kc}: {_src(e)}')
            return wrapn(f'(String.eqb {a} {c})')
        return None

    def cmp1(self, op, a, ka, b, kb, e, env, binds):
        if isinstance(op, (ast.Eq, ast.NotEq)):
            if ka == 'int' and kb == 'int':
                r = f'({a} =? {b})'
            elif {ka, kb} == {'int', 'optint'} or (ka, kb) == ('optint',
                                                              'optint'):
                # None == 3 is False, never an error
                oa = a if ka == 'optint' else f'(Some {a})'
                ob = b if kb == 'optint' else f'(Some {b})'
                r = (f'(match {oa}, {ob} with Some a_, Some b_ => a_ =? b_ '
                     f'| None, None => true | _, _ => false end)')
            elif ka == 'bits' and kb == 'bits':
                r = f'(py_bits_eqb {a} {b})'
            elif ka == 'bool' and kb == 'bool':
                r = f'(Bool.eqb {a} {b})'
            else:
                raise Refuse(f'== on kinds {ka}, {kb} in {_src(e)}')
            return r if isinstance(op, ast.Eq) else f'(negb {r})'
        sym = {ast.Lt: '<?', ast.LtE: '<=?', ast.Gt: '>?', ast.GtE: '>=?'}
        if type(op) not in sym:
            raise Refuse('comparison in ' + _src(e))
        for t, k in ((a, ka), (b, kb)):
            if k == 'optint':
                raise Refuse('ordering comparison on a possibly-None value '
                             'that is not a plain name: ' + _src(e))
            if k != 'int':
                raise Refuse(f'ordering on kind {k} in {_src(e)}')
        return f'({a} {sym[type(op)]} {b})'

    def opstr_compare(self, e, t0):
        op, rhs = e.ops[0], e.comparators[0]
        if isinstance(op, (ast.Eq, ast.NotEq)) and isinstance(
                rhs, ast.Constant) and isinstance(rhs.value, str):
            r = f'(String.eqb {t0} {self.slit(rhs.value)})'
            return r if isinstance(op, ast.Eq) else f'(negb {r})'
        if isinstance(op, (ast.In, ast.NotIn)) and isinstance(
                rhs, (ast.Set, ast.Tuple, ast.List)):
            items = []
            for x in rhs.elts:
                if not (isinstance(x, ast.Constant)
                        and isinstance(x.value, str)):
                    raise Refuse('operator set with a non-literal member')
                items.append(x.value)
            # sets are unordered: membership does not depend on the order
            lits = '; '.join(self.slit(s) for s in sorted(set(items)))
            r = f'(existsb (String.eqb {t0}) [{lits}])'
            return r if isinstance(op, ast.In) else f'(negb {r})'
        raise Refuse('operator-string comparison ' + _src(e))

    @staticmethod
    def slit(s):
        return '"' + s.replace('"', '""') + '"%string'

    def binop(self, e, env, binds):
        # " ".join(open template ...) + " E"
        if isinstance(e.op, ast.Add) and isinstance(e.left, ast.Call) and \
                isinstance(e.left.func, ast.Attribute) and \
                e.left.func.attr == 'join':
            return self.open_join(e, env, binds)
        a, ka = self.expr(e.left, env, binds)
        b, kb = self.expr(e.right, env, binds)
        if ka == 'optint' and isinstance(e.left, ast.Name):
            a = self.as_int(e.left, env, binds)
            ka = 'int'
        if kb == 'optint' and isinstance(e.right, ast.Name):
            b = self.as_int(e.right, env, binds)
            kb = 'int'
        if ka == 'int' and kb == 'int':
            sym = {ast.Add: '+', ast.Sub: '-', ast.Mult: '*'}
            if type(e.op) not in sym:
                raise Refuse('integer operator in ' + _src(e))
            return f'({a} {sym[type(e.op)]} {b})', 'int'
        if isinstance(e.op, ast.Add) and ka == kb and ka in ELT:
            return f'({a} ++ {b})', ka
        if isinstance(e.op, ast.Mult) and (ka, kb) == ('int', 'bits'):
            return f'(py_repeat {a} {b})', 'bits'
        if isinstance(e.op, ast.Mult) and (ka, kb) == ('bits', 'int'):
            return f'(py_repeat {b} {a})', 'bits'
        raise Refuse(f'operator on kinds {ka}, {kb} in {_src(e)}')

    def subscript(self, e, env, binds):
        t, k = self.expr(e.value, env, binds)
        if k == 'nodes' and not isinstance(e.slice, ast.Slice):
            i = self.as_int(e.slice, env, binds)
            v = self.fresh()
            binds.append(('bind', v, f'py_index {t} {i}'))
            return v, 'node'
        if k == 'hint' and isinstance(e.slice, ast.Constant) and \
                e.slice.value in HINT_KEYS:
            fld, fk, opt = HINT_KEYS[e.slice.value]
            if not opt:
                return f'({fld} {t})', fk
            v = self.fresh()
            binds.append(('bind', v, f'{fld} {t}'))
            return v, fk
        if k in ('table', 'opttable') and not isinstance(e.slice, ast.Slice):
            t = self.convert(t, k, 'table', e.value, env, binds)
            key, kk = self.expr(e.slice, env, binds)
            if kk != 'pystr':
                raise Refuse('table key ' + _src(e))
            v = self.fresh()
            binds.append(('bind', v, f'dict_get {t} {key}'))
            return v, 'hint'
        if k not in ELT:
            raise Refuse(f'subscript of a {k}: {_src(e)}')
        s = e.slice
        if isinstance(s, ast.Slice):
            if s.step is not None:
                raise Refuse('slice step in ' + _src(e))
            if s.lower is None and s.upper is not None:
                n = self.as_int(s.upper, env, binds)
                return f'(py_slice_to {t} {n})', k
            if s.upper is None and s.lower is not None:
                n = self.as_int(s.lower, env, binds)
                return f'(py_slice_from {t} {n})', k
            raise Refuse('slice form ' + _src(e))
        i = self.as_int(s, env, binds)
        v = self.fresh()
        binds.append(('bind', v, f'py_index {t} {i}'))
        return v, ELT[k]

    def iter_source(self, it, env, binds):
        """(Gallina list, element kind) of a for/comprehension iterable."""
        if isinstance(it, ast.Call) and _call_name(it) == 'enumerate' and \
                len(it.args) == 1 and not it.keywords:
            t, k = self.iter_source(it.args[0], env, binds)
            return f'(py_enumerate {t})', ('int', k)
        if isinstance(it, ast.Call) and _call_name(it) == 'zip' and \
                len(it.args) == 2 and not it.keywords:
            a, ka = self.iter_source(it.args[0], env, binds)
            b, kb = self.iter_source(it.args[1], env, binds)
            return f'(combine {a} {b})', (ka, kb)
        t, k = self.expr(it, env, binds)
        if k not in ELT:
            raise Refuse(f'iteration over a {k}: {_src(it)}')
        return t, ELT[k]

    def target_pattern(self, tgt, kind, env):
        """Gallina pattern for a for/comprehension target; extends env."""
        if isinstance(tgt, ast.Name):
            if isinstance(kind, tuple):
                raise Refuse('tuple bound to one name: ' + tgt.id)
            if tgt.id != '_':
                env[tgt.id] = kind
            return self.cname(tgt.id)
        if isinstance(tgt, ast.Tuple) and isinstance(kind, tuple) and \
                len(tgt.elts) == len(kind):
            return '(' + ', '.join(self.target_pattern(t, k, env)
                                   for t, k in zip(tgt.elts, kind)) + ')'
        raise Refuse('loop target ' + _src(tgt))

    def listcomp(self, e, env, binds):
        if len(e.generators) != 1:
            raise Refuse('nested comprehension ' + _src(e))
        g = e.generators[0]
        if g.ifs or g.is_async:
            raise Refuse('filtered comprehension ' + _src(e))
        src, ek = self.iter_source(g.iter, env, binds)
        env2 = dict(env)
        pat = self.target_pattern(g.target, ek, env2)
        b2 = []
        t, k = self.expr(e.elt, env2, b2)
        if k not in LISTOF:
            raise Refuse(f'comprehension of kind {k}: {_src(e)}')
        if not b2:
            return f"(map (fun '{pat} => {t}) {src})" if pat[0] == '(' \
                else f'(map (fun {pat} => {t}) {src})', LISTOF[k]
        body = wrap(b2, f'Some {t}')
        fp = f"'{pat}" if pat[0] == '(' else pat
        v = self.fresh()
        binds.append(('bind', v,
                      f'py_mapM (fun {fp} =>\n{ind(body)}) {src}'))
        return v, LISTOF[k]

    def call(self, e, env, binds, targets=None):
        nm = _call_name(e)
        if nm == 'len' and len(e.args) == 1 and not e.keywords:
            t, k = self.expr(e.args[0], env, binds)
            if k not in ELT:
                raise Refuse(f'len of a {k}')
            return f'(py_len {t})', 'int'
        if nm in ('max', 'min') and len(e.args) == 2 and not e.keywords:
            a = self.as_int(e.args[0], env, binds)
            b = self.as_int(e.args[1], env, binds)
            return f'(Z.{nm} {a} {b})', 'int'
        if nm == 'list' and not e.args and not e.keywords:
            return '[]', 'bits'
        if nm == 'isinstance' and len(e.args) == 2 and not e.keywords and \
                isinstance(e.args[1], ast.Name) and e.args[1].id == 'list':
            t, k = self.expr(e.args[0], env, binds)
            if k == 'fres':
                return f'(is_bits {t})', 'bool'
            raise Refuse(f'isinstance of a {k}')
        if isinstance(e.func, ast.Attribute) and e.func.attr == 'flatten' \
                and self.method:
            raise Refuse('flatten call inside an expression (it may change '
                         'mem): ' + _src(e))
        if isinstance(e.func, ast.Attribute) and e.func.attr == 'join':
            sep = e.func.value
            if not (isinstance(sep, ast.Constant) and sep.value == ' ') \
                    or len(e.args) != 1 or e.keywords:
                raise Refuse('join: ' + _src(e))
            t, k = self.expr(e.args[0], env, binds)
            if k != 'bits':
                raise Refuse('join of a ' + str(k))
            return t, 'joined'
        if nm in self.fns:
            return self.user_call(e, env, binds)
        if nm in env and isinstance(env[nm], tuple) and \
                env[nm][0] == 'localfn' and not e.keywords and \
                len(e.args) == len(env[nm][1]):
            args = [self.as_kind(x, env, binds, k)
                    for x, k in zip(e.args, env[nm][1])]
            v = self.fresh()
            binds.append(('bind', v, f'{self.cname(nm)} ' + ' '.join(args)))
            return v, env[nm][2]
        raise Refuse('call ' + _src(e))

    def is_flatten_call(self, e):
        return bool(self.method) and isinstance(e, ast.Call) and \
            isinstance(e.func, ast.Attribute) and e.func.attr == 'flatten'

    def flatten_call(self, e, env, binds):
        """X.flatten(mem=M, *arg, **kw): dynamic dispatch = g_flatten; the
        callee may change the list M in place, so its final state comes
        back and re-binds the variable."""
        m = self.method
        recv, k = self.expr(e.func.value, env, binds)
        if k != 'node':
            raise Refuse(f'flatten of a {k}: {_src(e)}')
        if len(e.args) != 1 or not isinstance(e.args[0], ast.Starred) or \
                not isinstance(e.args[0].value, ast.Name) or \
                e.args[0].value.id != m['vararg']:
            raise Refuse('positional arguments of ' + _src(e))
        kwname, memarg = None, 'absent'
        for kwd in e.keywords:
            if kwd.arg is None and isinstance(kwd.value, ast.Name) and \
                    env.get(kwd.value.id) == 'kwargs' and kwname is None:
                kwname = self.cname(kwd.value.id)
            elif kwd.arg == 'mem' and memarg == 'absent':
                memarg = kwd.value
            else:
                raise Refuse('keyword arguments of ' + _src(e))
        if kwname is None:
            raise Refuse('flatten without **kw: ' + _src(e))
        if memarg == 'absent':
            if m['mem_explicit']:
                memarg = ast.Constant(value=None)   # callee's default
            else:
                memarg = ast.Name(id='mem', ctx=ast.Load())  # inside **kw
        v, st = self.fresh(), self.fresh()
        if isinstance(memarg, ast.Constant) and memarg.value is None:
            binds.append(('bind', f'({v}, _)',
                          f'g_flatten fuel {recv} None {kwname}'))
            return v, 'fres'
        if not isinstance(memarg, ast.Name) or \
                env.get(memarg.id) not in ('bits', 'optbits', 'none'):
            raise Refuse('mem argument of ' + _src(e))
        kind = env[memarg.id]
        c = self.cname(memarg.id)
        binds.append(('bind', f'({v}, {st})',
                      f'g_flatten fuel {recv} '
                      f'{coerce(c, kind, "optbits")} {kwname}'))
        if kind == 'bits':
            # the same list object comes back
            binds.append(('bind', c, st))
        elif kind == 'optbits':
            binds.append(('let', c, st))
        return v, 'fres'

    def user_call(self, e, env, binds, allow_mut=False, pat=None):
        callee = self.fns[_call_name(e)]
        if callee.mutated and not allow_mut:
            raise Refuse(f'call of {callee.name} (mutates {callee.mutated}) '
                         'inside an expression: ' + _src(e))
        if callee.name not in self.done and callee.name != self.cur.name:
            raise Refuse(f'{callee.name} called before it is translated')
        args = []
        rebind = []
        for (pname, kind, dflt), (_, arg) in zip(callee.params,
                                                 self.bind_args(callee, e)):
            if arg is None:
                if dflt is None:
                    raise Refuse(f'missing argument {pname} in {_src(e)}')
                args.append(dflt)
                continue
            t = self.as_kind(arg, env, binds, kind)
            args.append(t)
            if pname in callee.mutated:
                rebind.append(self.cname(arg.id) if isinstance(arg, ast.Name)
                              else '_')
        fuel = 'fuel ' if callee.fuel else ''
        text = f'{callee.coq} {fuel}' + ' '.join(
            a if a[0] == '(' or a.replace('_', 'a').isalnum() or a == '[]'
            else f'({a})' for a in args)
        v = pat or self.fresh()
        binds.append(('bind', tup([v] + rebind) if rebind else v, text))
        return v, callee.ret

    # ------------------------------------------------------------ templates
    def use_template(self, key):
        if key not in self.used_templates:
            self.used_templates.append(key)

    def template(self, node, env, binds):
        toks = template_tokens(node)
        if not toks:
            raise Refuse('empty string ' + _src(node))
        if toks[0] == '$':
            return self.buffer_template(toks, node, env, binds), 'buf'
        if isinstance(toks[0], Hole) and all(isinstance(x, Hole)
                                              for x in toks):
            b0 = []
            t0, k0 = self.expr(toks[0].expr, dict(env), b0)
            if k0 == 'pystr':
                # " {op} {x} {y} ": op an operator prefix known at run time
                op, _ = self.expr(toks[0].expr, env, binds)
                args = []
                for h in toks[1:]:
                    if self.is_flatten_call(h.expr):
                        t, k = self.flatten_call(h.expr, env, binds)
                    else:
                        t, k = self.expr(h.expr, env, binds)
                    if k != 'fres':
                        raise Refuse(f'operand {_src(h.expr)} of kind {k} '
                                     'after a run-time operator')
                    v = self.fresh()
                    binds.append(('bind', v, f'px_of_fres {t}'))
                    args.append(v)
                self.use_template('{op} A .. (run-time prefix)')
                v = self.fresh()
                binds.append(('bind', v, f'py_apply_prefix {op} ['
                              + '; '.join(args) + ']'))
                return v, 'form'
        if isinstance(node, ast.Constant) and toks[-1] in ('!', '&', '|', '^'):
            # an operator prefix such as '! ^': a function of the two
            # formulas written after it
            self.open2_mode = True
            try:
                t, i = self.parse_prefix(toks + ['a_', 'b_'], 0, node, env,
                                         binds)
            finally:
                self.open2_mode = False
            if i != len(toks) + 2:
                raise Refuse('operator prefix ' + _src(node))
            self.use_template('P (operator prefix)')
            return f'(fun a_ b_ => {t})', 'open2'
        t, i = self.parse_prefix(toks, 0, node, env, binds)
        if i != len(toks):
            raise Refuse('trailing text in template ' + _src(node))
        return t, 'bit'

    def int_token(self, tok, node, env, binds):
        if isinstance(tok, Hole):
            return self.as_int(tok.expr, env, binds)
        if tok.isdigit():
            return tok
        raise Refuse(f'expected an integer after ? or $ in {_src(node)}')

    def parse_prefix(self, toks, i, node, env, binds, open_ok=False):
        """Parse one prefix formula from toks[i:]; returns (text, next i).
        With open_ok, a missing LAST operand is read as the hole `acc_`."""
        if i >= len(toks):
            if open_ok == 'here':
                return 'acc_', i
            raise Refuse('incomplete prefix formula ' + _src(node))
        tok = toks[i]
        last = open_ok
        if isinstance(tok, Hole):
            t, k = self.expr(tok.expr, env, binds)
            if k == 'open2':
                self.use_template('{f} A B')
                a, i = self.parse_prefix(toks, i + 1, node, env, binds)
                b, i = self.parse_prefix(toks, i, node, env, binds,
                                         'here' if last else False)
                return f'({t} {a} {b})', i
            if k == 'fres':
                t, k = self.convert(t, k, 'bit', tok.expr, env, binds), 'bit'
            if k != 'bit':
                raise Refuse(f'hole {_src(tok.expr)} of kind {k} in '
                             f'{_src(node)}')
            self.use_template('{e}')
            return t, i + 1
        if tok in ('a_', 'b_') and self.open2_mode:
            return tok, i + 1
        if tok == '0' or tok == '1':
            self.use_template(tok)
            return f'(XC {"true" if tok == "1" else "false"})', i + 1
        if tok == '!':
            self.use_template('! A')
            a, i = self.parse_prefix(toks, i + 1, node, env, binds,
                                     'here' if last else False)
            return f'(XNot {a})', i
        if tok in ('&', '|', '^'):
            self.use_template(f'{tok} A B')
            a, i = self.parse_prefix(toks, i + 1, node, env, binds)
            b, i = self.parse_prefix(toks, i, node, env, binds,
                                     'here' if last else False)
            c = {'&': 'XAnd', '|': 'XOr', '^': 'XXor'}[tok]
            return f'({c} {a} {b})', i
        if tok == '?':
            self.use_template('? K')
            if i + 1 >= len(toks):
                raise Refuse('register without address in ' + _src(node))
            k = self.int_token(toks[i + 1], node, env, binds)
            v = self.fresh()
            binds.append(('bind', v, f'py_reg {k}'))
            return v, i + 2
        raise Refuse(f'token {tok!r} in template {_src(node)}')

    def buffer_template(self, toks, node, env, binds):
        if len(toks) < 3:
            raise Refuse('buffer template ' + _src(node))
        n = self.int_token(toks[1], node, env, binds)
        rest = toks[2:]
        if len(rest) == 1 and isinstance(rest[0], Hole):
            t, k = self.expr(rest[0].expr, env, binds)
            if k == 'joined':
                self.use_template('$ N {s}')
                return f'(FBuf {n} {t})'
        self.use_template('$ N C1 .. Cn')
        cells, i = [], 0
        while i < len(rest):
            c, i = self.parse_prefix(rest, i, node, env, binds)
            cells.append(c)
        return f'(FBuf {n} [' + '; '.join(cells) + '])'

    def open_join(self, e, env, binds):
        """' '.join(T for tgt in it) + ' E'"""
        self.use_template('" ".join(T for .. in ..) + " " + E')
        j = e.left
        sep = j.func.value
        if not (isinstance(sep, ast.Constant) and sep.value == ' ') or \
                len(j.args) != 1 or j.keywords or \
                not isinstance(j.args[0], (ast.GeneratorExp, ast.ListComp)):
            raise Refuse('join: ' + _src(e))
        gen = j.args[0]
        if len(gen.generators) != 1 or gen.generators[0].ifs:
            raise Refuse('join: ' + _src(e))
        if not (isinstance(e.right, ast.Constant)
                and isinstance(e.right.value, str)
                and e.right.value[:1] == ' '):
            raise Refuse('the text after a join must be a literal that '
                         'starts with a space: ' + _src(e))
        tail, k = self.template(e.right, env, binds)
        if k != 'bit':
            raise Refuse('join tail ' + _src(e))
        g = gen.generators[0]
        src, ek = self.iter_source(g.iter, env, binds)
        env2 = dict(env)
        pat = self.target_pattern(g.target, ek, env2)
        toks = template_tokens(gen.elt)
        b2 = []
        t, i = self.parse_prefix(toks, 0, gen.elt, env2, b2, open_ok='here')
        if i != len(toks) or 'acc_' not in t or b2:
            raise Refuse('the joined template must lack exactly its last '
                         'operand and must not raise: ' + _src(gen.elt))
        fp = f"'{pat}" if pat[0] == '(' else pat
        return f'(fold_right (fun {fp} acc_ => {t}) {tail} {src})', 'bit'

    # ----------------------------------------------------------- statements
    def block(self, stmts, env, live_after, kont):
        """Gallina for the statement list; `kont(env)` gives the term for
        falling off the end; `live_after`: names read after the block."""
        if not stmts:
            return kont(env)
        if self.method and env.get('@pristine') and terminates(stmts) \
                and not env.get('@inside_try'):
            # an untranslatable branch of a method, reached before any
            # assignment: left opaque (the external ext_flatten on the same
            # arguments)
            saved = self.counter
            try:
                env2 = dict(env)
                env2['@inside_try'] = True
                return self.block(stmts, env2, live_after, kont)
            except Refuse as r:
                self.counter = saved
                self.note(f'branch starting at line {stmts[0].lineno} is not '
                          f'translated ({r}); it is the opaque ' + self.opaque_name)
                self.opaque_lines.append(stmts[0].lineno)
                return f'{self.opaque_name} v_self mem0 kw0'
        s, rest = stmts[0], stmts[1:]
        if self.method:
            env = dict(env)
            env.pop('@inside_try', None)
            skip = isinstance(s, ast.Expr) and (
                isinstance(s.value, ast.Constant) or (
                    isinstance(s.value, ast.Call)
                    and _call_name(s.value) in SKIP_CALLS))
            pure_local = isinstance(s, ast.Assign) and \
                len(s.targets) == 1 and (
                    (isinstance(s.targets[0], ast.Name)
                     and s.targets[0].id not in env) or
                    (isinstance(s.targets[0], ast.Tuple) and all(
                        isinstance(x, ast.Name) and x.id not in env
                        for x in s.targets[0].elts))) and \
                isinstance(s.value, (ast.Attribute, ast.Name, ast.Constant))
            if not skip and not isinstance(s, ast.If) and not pure_local:
                env['@pristine'] = False

        def cont(env2):
            return self.block(rest, env2, live_after, kont)
        live = names_used(rest) | live_after
        if isinstance(s, ast.Expr):
            return self.stmt_expr(s, env, cont)
        if isinstance(s, ast.Assert):
            return self.stmt_assert(s, env, cont)
        if isinstance(s, ast.Assign):
            return self.stmt_assign(s, env, cont, live)
        if isinstance(s, ast.AugAssign):
            return self.stmt_augassign(s, env, cont)
        if isinstance(s, ast.Return):
            if rest:
                self.note('unreachable statements after return skipped')
            return self.stmt_return(s, env)
        if isinstance(s, ast.Raise):
            self.note(f'`{_src(s)}` -> None')
            return 'None'
        if isinstance(s, ast.If):
            return self.stmt_if(s, rest, env, live_after, kont)
        if isinstance(s, ast.For):
            return self.stmt_for(s, env, cont, live)
        if isinstance(s, ast.Pass):
            return cont(env)
        if isinstance(s, ast.FunctionDef) and self.method and \
                s.name in self.NESTED:
            return self.stmt_nested(s, env, cont)
        raise Refuse(f'statement {type(s).__name__}: {_src(s)[:60]}')

    def stmt_nested(self, s, env, cont):
        """A local function (a closure over the method's variables): a
        local fun returning option."""
        params, ret = self.NESTED[s.name]
        a = s.args
        if [x.arg for x in a.args] != [p for p, _ in params] or a.vararg or \
                a.kwarg or a.defaults or a.kwonlyargs or s.decorator_list:
            raise Refuse(f'local function {s.name}: signature')
        for n in ast.walk(s):
            if isinstance(n, ast.Name) and isinstance(n.ctx, ast.Store) and \
                    n.id in env:
                raise Refuse(f'local function {s.name} re-binds {n.id}')
        env2 = {k: v for k, v in env.items() if not k.startswith('@')}
        for p_, k in params:
            env2[p_] = k
        saved = (self.cur, self.method)
        fn = Fn(f'{self.cur.name}.{s.name}', s)
        fn.ret = ret
        self.cur, self.method = fn, None

        def end(env3):
            raise Refuse(f'{s.name} can fall off the end')
        try:
            body = self.block(s.body, env2, set(), end)
        finally:
            self.cur, self.method = saved
        env = dict(env)
        env[s.name] = ('localfn', tuple(k for _, k in params), ret)
        ps = ' '.join(self.cname(p_) for p_, _ in params)
        return (f'let {self.cname(s.name)} := (fun {ps} =>\n{ind(body)}) in\n'
                + cont(env))

    def stmt_expr(self, s, env, cont):
        v = s.value
        if isinstance(v, ast.Constant) and isinstance(v.value, str):
            return cont(env)      # docstring
        if not isinstance(v, ast.Call):
            raise Refuse('expression statement ' + _src(s))
        nm = _call_name(v)
        if nm in SKIP_CALLS:
            self.note(f'`{_src(s)[:70]}` skipped (logging / printing)')
            return cont(env)
        if isinstance(v.func, ast.Attribute) and \
                isinstance(v.func.value, ast.Name) and \
                v.func.attr in ('append', 'extend', 'insert'):
            return self.stmt_mutate(v, env, cont)
        if nm in self.fns:
            binds = []
            env = dict(env)
            self.user_call(v, env, binds, allow_mut=True, pat='_')
            return wrap(binds, cont(env))
        if self.method and isinstance(v.func, ast.Attribute) and \
                v.func.attr == 'update' and \
                isinstance(v.func.value, ast.Name) and \
                env.get(v.func.value.id) == 'kwargs' and not v.args and \
                len(v.keywords) == 1 and v.keywords[0].arg == 'prime' and \
                isinstance(v.keywords[0].value, ast.Constant) and \
                v.keywords[0].value.value is True:
            c = self.cname(v.func.value.id)
            return f'let {c} := kw_set_prime {c} in\n' + cont(env)
        raise Refuse('call statement ' + _src(s))

    def stmt_mutate(self, call, env, cont):
        name = call.func.value.id
        if env.get(name) == 'strs' and call.func.attr == 'append' and \
                len(call.args) == 1 and not call.keywords:
            env = dict(env)
            binds = []
            t, k = self.expr(call.args[0], env, binds)
            if k != 'pystr':
                raise Refuse(f'append of a {k} to {name}')
            c = self.cname(name)
            binds.append(('let', c, f'{c} ++ [{t}]'))
            return wrap(binds, cont(env))
        if env.get(name) != 'bits':
            raise Refuse(f'{call.func.attr} on {name} of kind '
                         f'{env.get(name)}')
        env = dict(env)
        binds = []
        c = self.cname(name)
        if call.keywords:
            raise Refuse(_src(call))
        if call.func.attr == 'append' and len(call.args) == 1:
            t, k = self.expr(call.args[0], env, binds)
            if k != 'bit':
                raise Refuse(f'append of a {k} to {name}')
            new = f'{c} ++ [{t}]'
        elif call.func.attr == 'extend' and len(call.args) == 1:
            t, k = self.expr(call.args[0], env, binds)
            if k != 'bits':
                raise Refuse(f'extend of {name} by a {k}')
            new = f'{c} ++ {t}'
        elif call.func.attr == 'insert' and len(call.args) == 2 and \
                isinstance(call.args[0], ast.Constant) and \
                call.args[0].value == 0:
            t, k = self.expr(call.args[1], env, binds)
            if k != 'bit':
                raise Refuse(f'insert of a {k} into {name}')
            new = f'{t} :: {c}'
        else:
            raise Refuse('list mutation ' + _src(call))
        binds.append(('let', c, new))
        return wrap(binds, cont(env))

    @staticmethod
    def none_test(t, env):
        """(name, is_none) when t is `name is None` / `name is not None`
        for a name that may hold a list or None."""
        if isinstance(t, ast.Compare) and len(t.ops) == 1 and \
                isinstance(t.ops[0], (ast.Is, ast.IsNot, ast.Eq, ast.NotEq)) \
                and isinstance(t.left, ast.Name) and \
                isinstance(t.comparators[0], ast.Constant) and \
                t.comparators[0].value is None and \
                env.get(t.left.id) in ('optbits', 'none', 'bits'):
            return t.left.id, isinstance(t.ops[0], (ast.Is, ast.Eq))
        return None

    def refine(self, name, is_none, env, body_none, body_some):
        """match name with None => .. | Some name => .. end, with the kind
        of `name` refined in each branch; a branch is a function of env or
        the text 'None'."""
        c = self.cname(name)
        k = env[name]
        e1, e2 = dict(env), dict(env)
        e1[name] = 'none'
        e2[name] = 'bits'
        if k == 'none':
            return body_none(e1)
        if k == 'bits':
            return body_some(e2)
        a = body_none(e1)
        b = body_some(e2)
        return (f'match {c} with\n| None =>\n{ind(a)}\n| Some {c} =>\n'
                f'{ind(b)}\nend')

    def stmt_assert(self, s, env, cont):
        t = s.test
        nt = self.none_test(t, env)
        if nt:
            name, is_none = nt
            fail = lambda e_: 'None'
            return self.refine(name, is_none, env,
                               cont if is_none else fail,
                               fail if is_none else cont)
        if isinstance(t, ast.Call) and _call_name(t) == 'isinstance' and \
                len(t.args) == 2 and isinstance(t.args[0], ast.Name) and \
                isinstance(t.args[1], ast.Name):
            k = env.get(t.args[0].id)
            if k == 'fres' and t.args[1].id in ('str', 'list'):
                c = f'(is_bits {self.cname(t.args[0].id)})'
                if t.args[1].id == 'str':
                    c = f'(negb {c})'
                return wrap([('guard', c)], cont(env))
            want = {'list': ('bits',), 'str': ('bit', 'opstr', 'buf'),
                    'int': ('int',)}.get(t.args[1].id)
            if want and k in want:
                self.note(f'`{_src(s)[:60]}` holds by the kind of '
                          f'{t.args[0].id} ({k})')
                return cont(env)
            raise Refuse(f'isinstance assertion {_src(t)} with kind {k}')
        env = dict(env)
        binds = []
        c = self.as_bool(t, env, binds)
        binds.append(('guard', c))
        return wrap(binds, cont(env))

    def assign_pattern(self, tgt, kind, env):
        if isinstance(tgt, ast.Name):
            if tgt.id != '_':
                env[tgt.id] = kind
            return self.cname(tgt.id)
        if isinstance(tgt, ast.Tuple) and isinstance(kind, tuple) and \
                len(kind) == len(tgt.elts):
            return '(' + ', '.join(self.assign_pattern(t, k, env)
                                   for t, k in zip(tgt.elts, kind)) + ')'
        raise Refuse(f'assignment target {_src(tgt)} for a value of kind '
                     f'{kind}')

    def stmt_assign(self, s, env, cont, live):
        if len(s.targets) != 1:
            raise Refuse('chained assignment ' + _src(s))
        tgt = s.targets[0]
        if isinstance(tgt, ast.Name) and tgt.id not in live and \
                tgt.id not in env and self.is_trivial(s.value):
            self.note(f'`{_src(s)[:70]}` skipped: {tgt.id} is read only by '
                      'logging')
            return cont(env)
        if self.method and isinstance(tgt, ast.Tuple) and all(
                isinstance(x, ast.Name) for x in tgt.elts):
            b0 = []
            t0, k0 = self.expr(s.value, dict(env), b0)
            if k0 == 'nodes' and not b0:
                env = dict(env)
                names = []
                for x in tgt.elts:
                    env[x.id] = 'node'
                    names.append(self.cname(x.id))
                return (f'match {t0} with\n| [' + '; '.join(names)
                        + f'] =>\n{ind(cont(env))}\n| _ => None\nend')
        env = dict(env)
        binds = []
        if self.method and isinstance(tgt, ast.Name) and \
                tgt.id in self.cur.mutated and '@state:' + tgt.id not in env:
            # the parameter name is re-bound to a new object: what the caller
            # sees of its own argument is frozen here
            if env.get(tgt.id) != 'none':
                raise Refuse(f'{tgt.id} is re-bound while it may still hold '
                             'the list of the caller')
            env['@state:' + tgt.id] = 'None'
        if isinstance(s.value, ast.Call) and _call_name(s.value) in self.fns:
            v, k = self.user_call(s.value, env, binds, allow_mut=True)
        elif self.is_flatten_call(s.value):
            v, k = self.flatten_call(s.value, env, binds)
        else:
            v, k = self.expr(s.value, env, binds)
        if k == 'joined' and not isinstance(tgt, ast.Name):
            raise Refuse(_src(s))
        pat = self.assign_pattern(tgt, k, env)
        if pat[0] == '(':
            binds.append(('let', f"'{pat}", v))
        else:
            binds.append(('let', pat, v))
        return wrap(binds, cont(env))

    @staticmethod
    def is_trivial(e):
        if isinstance(e, (ast.Constant, ast.Name)):
            return True
        if isinstance(e, ast.IfExp):
            return all(Translator.is_trivial(x)
                       for x in (e.test, e.body, e.orelse))
        return False

    def stmt_augassign(self, s, env, cont):
        if not isinstance(s.target, ast.Name):
            raise Refuse(_src(s))
        fake = ast.BinOp(left=ast.Name(id=s.target.id, ctx=ast.Load()),
                         op=s.op, right=s.value)
        env = dict(env)
        binds = []
        t, k = self.expr(fake, env, binds)
        if k == 'bits':
            raise Refuse('augmented assignment on a list (in-place '
                         'extension): ' + _src(s))
        env[s.target.id] = k
        binds.append(('let', self.cname(s.target.id), t))
        return wrap(binds, cont(env))

    def stmt_return(self, s, env):
        fn = self.cur
        env = dict(env)
        binds = []
        if s.value is None:
            if fn.ret != 'unit' or self.method:
                raise Refuse('bare return')
            return 'Some ' + tup(['tt'] + [self.cname(m)
                                           for m in fn.mutated])
        if isinstance(s.value, ast.Call) and _call_name(s.value) in self.fns:
            t, k = self.user_call(s.value, env, binds, allow_mut=True)
        elif self.is_flatten_call(s.value):
            t, k = self.flatten_call(s.value, env, binds)
        else:
            t, k = self.expr(s.value, env, binds)
        if self.method:
            if k == 'strs':
                t, k = self.convert(t, k, 'bits', s.value, env, binds), 'bits'
            if k == 'pystr':
                t, k = self.convert(t, k, 'bit', s.value, env, binds), 'bit'
            t = coerce(t, k, 'fres')
            st = env.get('@state:mem') or coerce(self.cname('mem'),
                                                 env['mem'], 'optbits')
            return wrap(binds, f'Some ({t}, {st})')
        if isinstance(fn.ret, tuple):
            if not (isinstance(k, tuple) and len(k) == len(fn.ret)):
                raise Refuse(f'return of kind {k}, expected {fn.ret}')
            if isinstance(s.value, ast.Tuple):
                parts = []
                for x, have, want in zip(s.value.elts, k, fn.ret):
                    tx, _ = self.expr(x, env, [])
                    parts.append(coerce(tx, have, want))
                t = tup(parts)
            elif k != fn.ret:
                raise Refuse(f'return of kind {k}, expected {fn.ret}')
        else:
            t = coerce(t, k, fn.ret)
        out = [t] + [self.cname(m) for m in fn.mutated]
        return wrap(binds, f'Some {tup(out)}')

    def stmt_if(self, s, rest, env, live_after, kont):
        if not self.method or env.get('@in_late'):
            return self.stmt_if_(s, rest, env, live_after, kont)
        saved = self.counter
        try:
            return self.stmt_if_(s, rest, env, live_after, kont)
        except Refuse as first:
            # a branch of a method that cannot be translated: on that path
            # the result is what the real method returns on the ORIGINAL
            # arguments (the path condition is a function of them): the
            # external function applied to mem0, kw0
            self.counter = saved
            env = dict(env)
            binds = []
            c = self.as_bool(s.test, env, binds)
            out = []
            for stmts in (s.body, s.orelse):
                try:
                    e2 = dict(env)
                    out.append(self.block(list(stmts) + list(rest), e2,
                                          live_after, kont))
                except Refuse as r:
                    ln = stmts[0].lineno if stmts else s.lineno
                    self.note(f'branch starting at line {ln} is not '
                              f'translated ({r}); on that path the result '
                              f'is the opaque {self.opaque_name} on the '
                              'original arguments')
                    self.opaque_lines.append(ln)
                    out.append(f'{self.opaque_name} v_self mem0 kw0')
            if all(o.startswith(self.opaque_name + ' ') for o in out):
                raise first
            return wrap(binds, f'if {c} then\n{ind(out[0])}\nelse\n'
                        f'{ind(out[1])}')

    def stmt_if_(self, s, rest, env, live_after, kont):
        nt = self.none_test(s.test, env)
        if nt and (terminates(s.body) and terminates(s.orelse)):
            name, is_none = nt
            live0 = names_used(rest) | live_after

            def br(stmts):
                return lambda e_: self.block(stmts, e_, live0, kont)
            return self.refine(name, is_none, env,
                               br(s.body if is_none else s.orelse),
                               br(s.orelse if is_none else s.body))
        env = dict(env)
        binds = []
        c = self.as_bool(s.test, env, binds)
        live = names_used(rest) | live_after

        def after(env2):
            return self.block(rest, env2, live_after, kont)
        tb, te = terminates(s.body), terminates(s.orelse)
        if tb or te:
            a = self.block(s.body, dict(env), live, after)
            b = self.block(s.orelse, dict(env), live, after)
            return wrap(binds, f'if {c} then\n{ind(a)}\nelse\n{ind(b)}')
        # join point: the names (re)bound in a branch and read afterwards
        outs = sorted((names_assigned(s.body, self)
                       | names_assigned(s.orelse, self))
                      & live)
        exits = []

        def exit_(env2):
            exits.append(env2)
            return f'@@EXIT{len(exits) - 1}@@'
        a = self.block(s.body, dict(env), live | set(outs), exit_)
        b = self.block(s.orelse, dict(env), live | set(outs), exit_)
        if not exits:
            raise Refuse('if statement without exit')
        kinds = {}
        for o in outs:
            ks = [e2.get(o) for e2 in exits]
            if any(k is None for k in ks):
                raise Refuse(f'{o} may be unbound after `if {_src(s.test)}`')
            k = ks[0]
            for k2 in ks[1:]:
                k = unify(k, k2)
            kinds[o] = k
        text = f'if {c} then\n{ind(a)}\nelse\n{ind(b)}'
        for i, e2 in enumerate(exits):
            vals = [coerce(self.cname(o), e2[o], kinds[o]) for o in outs]
            text = text.replace(f'@@EXIT{i}@@', f'Some {tup(vals)}')
        env3 = dict(env)
        # flow typing done inside a branch (a None check) does not survive
        for e2 in exits:
            for n, k in e2.items():
                if n in env3 and env3[n] != k and n not in outs:
                    if {env3[n], k} == {'int', 'optint'} and \
                            env[n] == 'optint':
                        env3[n] = 'optint'
        for o in outs:
            env3[o] = kinds[o]
        pat = tup([self.cname(o) for o in outs])
        binds.append(('bind', pat, f'(\n{ind(text)})'))
        return wrap(binds, after(env3))

    def stmt_for(self, s, env, cont, live):
        if s.orelse:
            raise Refuse('for/else')
        for n in ast.walk(s):
            if isinstance(n, (ast.Return, ast.Break, ast.Continue)):
                raise Refuse(f'{type(n).__name__} inside a for loop')
        env = dict(env)
        binds = []
        src, ek = self.iter_source(s.iter, env, binds)
        assigned = names_assigned(s.body, self)
        tnames = {n.id for n in ast.walk(s.target) if isinstance(n, ast.Name)}
        state = sorted(n for n in assigned if n in env and n not in tnames)
        local = (assigned | tnames) - set(state)
        leaked = sorted((local & live) - {'_'})
        if leaked:
            raise Refuse(f'{leaked} bound inside a loop and read after it')
        for n in tnames:
            if n in env:
                raise Refuse(f'loop variable {n} shadows a binding')
        env2 = dict(env)
        pat = self.target_pattern(s.target, ek, env2)
        exits = []

        def exit_(e2):
            exits.append(e2)
            return f'@@LOOP{len(exits) - 1}@@'
        body = self.block(s.body, env2, names_used(s.body) | live
                          | set(state), exit_)
        for i, e2 in enumerate(exits):
            vals = [coerce(self.cname(o), e2[o], env[o]) for o in state]
            body = body.replace(f'@@LOOP{i}@@', f'Some {tup(vals)}')
        st = tup([self.cname(o) for o in state])
        fp = f"'{pat}" if pat[0] == '(' else pat
        fs = f"'{st}" if st[0] == '(' or st == 'tt' else st
        binds.append(('bind', st,
                      f'py_for {src} {st} (fun {fp} {fs} =>\n{ind(body)})'))
        return wrap(binds, cont(env))

    # ------------------------------------------------------------ functions
    def function(self, fn):
        self.cur = fn
        env = {p: k for p, k, _ in fn.params}

        def end(env2):
            if fn.ret == 'unit':
                return 'Some ' + tup(['tt'] + [self.cname(m)
                                               for m in fn.mutated])
            raise Refuse(f'{fn.name}: control can fall off the end '
                         '(returns None)')
        self.strmode = fn.name in LEAF_SIGNATURES
        body = self.block(fn.node.body, env, set(), end)
        self.strmode = False
        ret = [coq_type(fn.ret)] + [coq_type(dict(
            (p, k) for p, k, _ in fn.params)[m]) for m in fn.mutated]
        rtype = 'option (' + ' * '.join(ret) + ')' if len(ret) > 1 \
            else f'option ({ret[0]})'
        params = ' '.join(f'({self.cname(p)} : {coq_type(k)})'
                          for p, k, _ in fn.params)
        src_line = f'(* {SRC}: def {fn.name}, line {fn.node.lineno}'
        if fn.mutated:
            src_line += ('; mutates ' + ', '.join(fn.mutated)
                         + ' (final value returned last)')
        src_line += ' *)\n'
        if fn.recursive:
            text = (f'{src_line}Fixpoint {fn.coq} (fuel : nat) {params} '
                    f'{{struct fuel}}\n  : {rtype} :=\n'
                    f'  match fuel with\n  | O => None\n  | S fuel =>\n'
                    f'{ind(body, 4)}\n  end.\n')
        else:
            fuel = '(fuel : nat) ' if fn.fuel else ''
            text = (f'{src_line}Definition {fn.coq} {fuel}{params}\n'
                    f'  : {rtype} :=\n{ind(body)}.\n')
        self.cur = None
        self.done.append(fn.name)
        return text

    def read_opmap(self):
        for n in self.tree.body:
            if isinstance(n, ast.ClassDef) and n.name == 'Nodes':
                for st in n.body:
                    if isinstance(st, ast.Assign) and \
                            getattr(st.targets[0], 'id', None) == 'opmap':
                        return ast.literal_eval(st.value)
        raise Refuse('Nodes.opmap literal not found')

    def find_methods(self):
        """flatten methods of the classes inside `class Nodes`."""
        found = {}
        for n in self.tree.body:
            if isinstance(n, ast.ClassDef) and n.name == 'Nodes':
                for c in n.body:
                    if isinstance(c, ast.ClassDef):
                        for f in c.body:
                            if isinstance(f, ast.FunctionDef) and \
                                    f.name == 'flatten':
                                found[c.name] = f
        return found

    def method_(self, cls, node):
        a = node.args
        names = [x.arg for x in a.args]
        if a.kwonlyargs or a.posonlyargs or not a.vararg or not a.kwarg or \
                names[:1] != ['self']:
            raise Refuse(f'Nodes.{cls}.flatten: unsupported signature')
        named = names[1:]
        if any(n not in ('prime', 'mem', 't', 'defs') for n in named) or \
                len(set(named)) != len(named) or \
                len(a.defaults) != len(named) or not all(
                    isinstance(d, ast.Constant) and d.value is None
                    for d in a.defaults):
            raise Refuse(f'Nodes.{cls}.flatten: parameters {names} (named '
                         'parameters must be among prime, mem, t, defs and '
                         'default to None)')
        explicit = 'mem' in named
        for n in ast.walk(node):
            if isinstance(n, (ast.Lambda, ast.Global, ast.Nonlocal, ast.Yield,
                              ast.YieldFrom, ast.Try, ast.With, ast.While,
                              ast.ClassDef, ast.Delete, ast.Import,
                              ast.ImportFrom)):
                raise Refuse(f'Nodes.{cls}.flatten: {type(n).__name__}')
            if isinstance(n, ast.Name) and isinstance(n.ctx, ast.Store) and \
                    n.id in ('self', a.vararg.arg):
                raise Refuse(f'Nodes.{cls}.flatten: {n.id} is re-bound')
            # the memory list must not be copied or stored
            if isinstance(n, ast.Assign):
                vals = n.value.elts if isinstance(n.value, ast.Tuple) \
                    else [n.value]
                if any(isinstance(v, ast.Name) and v.id == 'mem'
                       for v in vals):
                    raise Refuse(f'Nodes.{cls}.flatten: mem is copied')
        fn = Fn(f'Nodes.{cls}.flatten', node)
        fn.ret = 'fres'
        fn.mutated = ['mem']
        fn.fuel = True
        self.cur = fn
        self.method = dict(cls=cls, vararg=a.vararg.arg, kwarg=a.kwarg.arg,
                           mem_explicit=explicit)
        if not explicit:
            self.note('mem is not a named parameter: it travels inside **kw '
                      'and is passed on with it (every flatten method '
                      'defaults mem to None, so absent = None)')
        env = {'mem': 'optbits', a.kwarg.arg: 'kwargs', '@pristine': True}
        pre = ''
        for n, fld, k in (('prime', 'k_prime', 'optbool'),
                          ('t', 'k_t', 'opttable'),
                          ('defs', 'k_defs', 'optdefs')):
            if n in named:
                env[n] = k
                pre += f'let {self.cname(n)} := {fld} kw in\n'
        if pre:
            self.note('the named parameters ' + ', '.join(
                n for n in named if n != 'mem') + ' are taken out of **kw '
                '(record fields); the rest of **kw is passed on unchanged')

        def end(env2):
            raise Refuse(f'Nodes.{cls}.flatten can fall off the end')
        self.strmode = cls in self.LEAF_METHODS
        self.opaque_name = 'def_flatten' if cls == 'Var' else 'ext_flatten'
        body = self.block(node.body, env, set(), end)
        self.strmode = False
        self.opaque_name = 'ext_flatten'
        kwn = self.cname(a.kwarg.arg)
        body = 'let mem0 := mem in\nlet kw0 := kw in\n' + pre + body
        if kwn != 'kw':
            body = f'let {kwn} := kw in\n' + body
        self.cur = None
        self.method = None
        return body

    METHODS = ('Arithmetic', 'Comparator', 'Operator', 'Unary', 'Binary',
               'Var', 'Num', 'Bool')
    LEAF_METHODS = ('Var', 'Num', 'Bool')
    NESTED = {'make_bit': ([('b', 'pystr')], 'pystr')}

    def run_methods(self):
        found = self.find_methods()
        bodies = []
        for cls in self.METHODS:
            if cls not in found:
                raise Refuse(f'Nodes.{cls}.flatten not found')
            bodies.append((cls, found[cls].lineno,
                           self.method_(cls, found[cls])))
        self.cur = None
        self.note('flatten methods not translated (they are the external '
                  'ext_flatten): '
                  + ', '.join(f'Nodes.{c}' for c in sorted(found)
                              if c not in self.METHODS))
        self.note('*arg is always empty (no call passes positional '
                  'arguments to flatten); results of flatten are assumed '
                  'not to alias the memory list')
        self.note('a flatten result is RStr (one formula of Deep.bx), RBits '
                  'or RBuf (a buffer text); where the code needs a str and '
                  'gets a buffer text (ite_connective / ite_function / the '
                  'Boolean = on a nested comparator) the translation '
                  'returns None although Python continues: buffers nested '
                  'inside formulas are outside Deep.bx')
        text = '''
(* ---- the flatten methods that thread the memory buffer ---- *)
Section Flatten.
(* the dictionary `defs` of operator definitions stays abstract: only
   `name in defs` is read by the translated code *)
Variable defs : Type.
Variable defs_mem : defs -> string -> bool.
(* numbering of the bit names (a name is one token of prefix syntax) *)
Variable var_id : string -> nat.
(* the flatten methods that are not translated, and the branches of the
   translated ones that are left opaque (see the notes) *)
Variable ext_flatten : pnode -> option (list bx) -> kwargs defs
                       -> option (fres * option (list bx)).
(* the branch of Nodes.Var.flatten that expands a definition (name in defs) *)
Variable def_flatten : pnode -> option (list bx) -> kwargs defs
                       -> option (fres * option (list bx)).

(* x.flatten(mem=m, *arg, **kw): dispatch on the class of x; returns the
   result and the final state of the list passed as mem *)
Fixpoint g_flatten (fuel : nat) (v_self : pnode) (mem : option (list bx))
    (kw : kwargs defs) {struct fuel} : option (fres * option (list bx)) :=
  match fuel with
  | O => None
  | S fuel =>
    match v_self with
    | PNode s_class s_operator s_operands =>
'''
        for cls, line, body in bodies:
            text += (f'      (* {SRC}: Nodes.{cls}.flatten, line {line} *)\n'
                     f'      if String.eqb s_class "{cls}"%string then\n'
                     f'{ind(body, 8)}\n      else\n')
        text += '''        ext_flatten v_self mem kw
    end
  end.
End Flatten.
'''
        return text

    def run(self):
        self.setup()
        out = []
        for name in self.order:
            out.append(self.function(self.fns[name]))
        if self.with_methods:
            m = self.run_methods()
            if self.used_opmap:
                om = self.read_opmap()
                out.append(
                    f'(* {SRC}: Nodes.opmap *)\nDefinition g_opmap : list '
                    '(string * string) := [\n' + ';\n'.join(
                        f'  ({self.slit(k)}, {self.slit(v)})'
                        for k, v in om.items()) + '].\n')
            if self.prime_const is not None:
                out.append('(* omega/logic/syntax.py: PRIME *)\n'
                           f'Definition g_PRIME : string := '
                           f'{self.slit(self.prime_const)}.\n')
            out.append(m)
        consts = ''.join(
            f'(* {SRC}: module constant *)\n'
            f'Definition g_{c} : Z := {self.zlit(self.consts[c])}.\n\n'
            for c in self.used_consts)
        skipped = sorted(set(self.found) - set(self.fns))
        self.cur = None
        self.note('module functions not translated: ' + ', '.join(skipped))
        self.note('assertion messages are not evaluated (they are only '
                  'evaluated when the assertion fails)')
        return consts + '\n'.join(out)


HEADER = '''(* GENERATED on every run by tools/py2coq_bitvector.py from
   %(src)s (tie T for C06).  Do not edit.
   Python ints are Z, lists of bit formulas are [list bx], exceptions are
   [None]; see coq/theories/L1Circuits/PyBits.v. *)
From Coq Require Import ZArith List Bool String Ascii.
From Omega Require Import L1Circuits.Circuits L1Circuits.Deep L1Circuits.PyBits
  L1Circuits.PyStr L2Compile.Thread.
Import ListNotations.
Open Scope Z_scope.

'''


def translate(path, wanted=None):
    """(Gallina text, notes, templates used)."""
    tr = Translator(path, wanted)
    text = tr.run()
    return text, tr.notes, tr.used_templates


def file_text(repo):
    """(text of gen/BitvectorGen.v, notes, templates used)."""
    text, notes, used = translate(repo.rstrip('/') + '/' + SRC)
    body = HEADER % dict(src=SRC) + text
    body += '\n(* recognised string templates:\n'
    for line in template_table():
        body += '   ' + line.replace('(*', '( *').replace('*)', '* )') + '\n'
    body += '*)\n'
    body += ''.join(f'(* note: {n} *)\n' for n in notes)
    return body, notes, used


if __name__ == '__main__':
    import sys
    print(file_text(sys.argv[1] if len(sys.argv) > 1 else '/repo')[0])
