(* L6Past / PastFast: an efficient evaluation of PastCheck.check_all for the
   correspondence cases: names are resolved to positions once per formula,
   the semantics of the tracked formulas is computed for all positions of a
   sequence in one left-to-right pass.  PastFastProofs.v proves that it
   computes the same Boolean as the plain definitions.  Definitions only. *)
From Coq Require Import String List Bool NArith.
Import ListNotations.
From Omega Require Import L6Past.PastSyntax L6Past.PastModel L6Past.PastCheck.
Open Scope string_scope.

(* ----------------------------------------------- semantics of a whole trace *)
Fixpoint scan {A : Type} (op0 : A -> bool) (op : A -> bool -> bool)
    (acc : option bool) (xs : list A) : list bool :=
  match xs with
  | [] => []
  | x :: xs' =>
      let v := match acc with None => op0 x | Some s => op x s end in
      v :: scan op0 op (Some v) xs'
  end.

(* value `first` at position 0, then the values of xs delayed by one *)
Fixpoint delay (first : bool) (xs : list bool) : list bool :=
  match xs with
  | [] => []
  | x :: xs' => first :: delay x xs'
  end.

Definition map2 {A B C : Type} (g : A -> B -> C) (a : list A) (b : list B)
    : list C :=
  map (fun ab => g (fst ab) (snd ab)) (combine a b).

Fixpoint semL (vs : list string) (f : form) (trace : list (list bool))
    : list bool :=
  match f with
  | FVar v => map (fun bits => lookup vs bits v) trace
  | FAtom a => map (fun bits => lookup vs bits a) trace
  | FConst b => map (fun _ : list bool => b) trace
  | FNot f => map negb (semL vs f trace)
  | FBin o f g => map2 (bop o) (semL vs f trace) (semL vs g trace)
  | FIte c a b =>
      map2 (fun (c : bool) (ab : bool * bool) => if c then fst ab else snd ab)
           (semL vs c trace)
           (combine (semL vs a trace) (semL vs b trace))
  | FPrevW f => delay true (semL vs f trace)
  | FPrevS f => delay false (semL vs f trace)
  | FHist f => scan (fun x => x) andb None (semL vs f trace)
  | FOnce f => scan (fun x => x) orb None (semL vs f trace)
  | FSince f g =>
      scan (fun fg => snd fg) (fun fg s => snd fg || (fst fg && s)) None
           (combine (semL vs f trace) (semL vs g trace))
  | FAlways _ | FEvent _ | FUntil _ _ => map (fun _ : list bool => false) trace
  end.

(* ------------------------------------------------------- indexed formulas *)
Inductive iform : Type :=
| IVar (k : nat)
| IConst (b : bool)
| INot (f : iform)
| IBin (o : binop) (f g : iform)
| IIte (c a b : iform)
| INext (f : iform).

Fixpoint index_of (v : string) (l : list string) : option nat :=
  match l with
  | [] => None
  | x :: l' => if String.eqb x v then Some O
               else match index_of v l' with Some k => Some (S k) | None => None end
  end.

Fixpoint resolve (names : list string) (f : tform) : iform :=
  match f with
  | TVar v => match index_of v names with
              | Some k => IVar k
              | None => IConst false
              end
  | TAtom a => match index_of a names with
               | Some k => IVar k
               | None => IConst false
               end
  | TConst b => IConst b
  | TNot f => INot (resolve names f)
  | TBin o f g => IBin o (resolve names f) (resolve names g)
  | TIte c a b => IIte (resolve names c) (resolve names a) (resolve names b)
  | TNext f => INext (resolve names f)
  | TAlways _ | TEvent _ | TUntil _ _ => IConst false
  end.

Fixpoint evalI (cur nxt : list bool) (f : iform) : bool :=
  match f with
  | IVar k => nth k cur false
  | IConst b => b
  | INot f => negb (evalI cur nxt f)
  | IBin o f g => bop o (evalI cur nxt f) (evalI cur nxt g)
  | IIte c a b => if evalI cur nxt c then evalI cur nxt a else evalI cur nxt b
  | INext f => evalI nxt nxt f
  end.

(* ------------------------------------------------------------- the check *)
(* states of the combined sequence: position i |-> values of the auxiliary
   variables (in the order of the testers) followed by the user bits *)
Definition states (auxtab : list (list bool)) (trace : list (list bool))
    : list (list bool) :=
  map (fun i => (map (fun col => nth i col false) auxtab ++ nth i trace [])%list)
      (seq 0 (length trace)).

Fixpoint all_steps (p : list bool -> list bool -> bool) (sts : list (list bool))
    : bool :=
  match sts with
  | a :: ((b :: _) as rest) => p a b && all_steps p rest
  | _ => true
  end.

Record resolved : Type := mkRes {
  r_i_init : iform; r_i_trans : iform; r_i_formula : iform;
  r_m_init : iform; r_m_trans : iform; r_m_formula : iform }.

Definition resolve_all (M : translation) (I : impl) (vs : list string)
    : resolved :=
  let names := (x_names M ++ vs)%list in
  mkRes (resolve names (i_init I)) (resolve names (i_trans I))
        (resolve names (i_formula I))
        (resolve names (x_init M)) (resolve names (x_trans M))
        (resolve names (x_formula M)).

Definition check_trace_fast (f : form) (M : translation) (R : resolved)
    (vs : list string) (trace : list (list bool)) : bool :=
  let auxtab := map (fun t => semL vs (t_tracks t) trace) (x_testers M) in
  let sts := states auxtab trace in
  let truth := semL vs f trace in
  match sts with
  | [] => true
  | s0 :: _ =>
      evalI s0 s0 (r_i_init R) && evalI s0 s0 (r_m_init R)
      && all_steps (fun a b => evalI a b (r_i_trans R) && evalI a b (r_m_trans R))
                   sts
      && forallb (fun sv =>
                    eqb (evalI (fst sv) (fst sv) (r_i_formula R)) (snd sv)
                    && eqb (evalI (fst sv) (fst sv) (r_m_formula R)) (snd sv))
                 (combine sts truth)
  end.

Definition check_all_fast (fx until : bool) (f : form) (I : impl)
    (vs : list string) (n : nat) : bool :=
  let M := translate fx until f in
  let R := resolve_all M I vs in
  forallb (check_trace_fast f M R vs) (all_seqs (all_vals (length vs)) n).

(* ------------------------------------------------------------------------
   Formulas with future operators (until = true creates prophecy testers;
   until = false passes the operators through).  No finite-sequence
   semantics applies, so the model's and the implementation's outputs are
   compared as Boolean functions of the current and next values of all
   variables involved (truth tables), and pass-through temporal formulas
   as trees. *)
Definition equiv_on (names : list string) (a b : tform) : bool :=
  let ia := resolve names a in
  let ib := resolve names b in
  let vals := all_vals (length names) in
  forallb (fun c => forallb (fun n => eqb (evalI c n ia) (evalI c n ib)) vals)
          vals.

Fixpoint no_temporal (f : tform) : bool :=
  match f with
  | TVar _ | TAtom _ | TConst _ => true
  | TNot f | TNext f => no_temporal f
  | TBin _ f g => no_temporal f && no_temporal g
  | TIte c a b => no_temporal c && no_temporal a && no_temporal b
  | TAlways _ | TEvent _ | TUntil _ _ => false
  end.

Definition same_meaning (names : list string) (a b : tform) : bool :=
  if no_temporal a && no_temporal b then equiv_on names a b
  else tform_eqb a b.

Fixpoint all2 {A : Type} (p : A -> A -> bool) (a b : list A) : bool :=
  match a, b with
  | [], [] => true
  | x :: a', y :: b' => p x y && all2 p a' b'
  | _, _ => false
  end.

Definition check_tables (fx until : bool) (f : form) (I : impl)
    (vs : list string) : bool :=
  let M := translate fx until f in
  let names := (x_names M ++ vs)%list in
  same_meaning names (i_formula I) (x_formula M)
  && same_meaning names (i_init I) (x_init M)
  && same_meaning names (i_trans I) (x_trans M)
  && all2 (same_meaning names) (i_win I) (x_win M).

(* ------------------------------------------------------------------------
   Fallback of the correspondence for a code change that only renumbers the
   auxiliary variables: the values of the model's auxiliary variables along
   given sequences (to match them with the implementation's), and the
   renaming of the implementation's variables. *)
Definition model_columns (fx until : bool) (f : form) (vs : list string)
    (traces : list (list (list bool))) : list (string * list (list bool)) :=
  map (fun t => (t_name t, map (fun tr => semL vs (t_tracks t) tr) traces))
      (x_testers (translate fx until f)).

Fixpoint assoc (v : string) (ren : list (string * string)) : string :=
  match ren with
  | [] => v
  | (a, b) :: r => if String.eqb a v then b else assoc v r
  end.

Fixpoint rename (ren : list (string * string)) (f : tform) : tform :=
  match f with
  | TVar v => TVar (assoc v ren)
  | TAtom a => TAtom a
  | TConst b => TConst b
  | TNot f => TNot (rename ren f)
  | TBin o f g => TBin o (rename ren f) (rename ren g)
  | TIte c a b => TIte (rename ren c) (rename ren a) (rename ren b)
  | TNext f => TNext (rename ren f)
  | TAlways f => TAlways (rename ren f)
  | TEvent f => TEvent (rename ren f)
  | TUntil f g => TUntil (rename ren f) (rename ren g)
  end.

Definition rename_impl (ren : list (string * string)) (I : impl) : impl :=
  mkImpl (map (fun v => assoc v ren) (i_names I))
         (rename ren (i_formula I)) (rename ren (i_init I))
         (rename ren (i_trans I)) (map (rename ren) (i_win I)).
