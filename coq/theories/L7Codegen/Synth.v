(* L7 / Synth: executable model of omega/symbolic/functions.py
   (make_functions, extract_function) on BDDs-by-meaning (Pred.v).

   What Python leaves unspecified is a parameter of the model:
   - the iteration order of `for yp in set(outputs)` and of
     `for z in inputs` (sets of strings): the argument [order] lists, in
     iteration order, each output bit together with the order in which the
     input bits were tried for that output;
   - `dd.cudd.restrict`: the argument [restrict] (indexed by the output bit
     being extracted; a single function is the constant family).  The branch
     `_bdd is None` is the instance [no_restrict].
   No proofs here. *)
From Coq Require Import List Bool Arith.
Import ListNotations.
From Omega Require Import L7Codegen.Pred.

Section Synth.
Variable n : nat.
Variable restrict : var -> pred -> pred -> pred.

Local Notation pand := (pand n).
Local Notation por := (por n).
Local Notation pnot := (pnot n).

(*  u = bdd.exist(outputs, f)
    p = bdd.let({yp: True}, u)
    n = bdd.let({yp: False}, u)
    p = p & ~ n
    n = n & ~ p                                                            *)
Definition cofactors (f : pred) (yp : var) (outputs : list var) : pred * pred :=
  let u := exist n outputs f in
  let p := cofactor n u yp true in
  let nn := cofactor n u yp false in
  let p := pand p (pnot nn) in
  let nn := pand nn (pnot p) in
  (p, nn).

(*  inputs = bdd.support(p) | bdd.support(n)  (as a set)                   *)
Definition inputs_of (pn : pred * pred) : list var :=
  filter (fun z => depends n (fst pn) z || depends n (snd pn) z) (seq 0 n).

(*  pz = bdd.exist([z], p); nz = bdd.exist([z], n)
    disjoint = ((pz & nz) == bdd.false)
    if disjoint: p, n = pz, nz                                             *)
Definition widen_step (pn : pred * pred) (z : var) : pred * pred :=
  let pz := exist1 n z (fst pn) in
  let nz := exist1 n z (snd pn) in
  if is_false n (pand pz nz) then (pz, nz) else pn.

Definition widen (zs : list var) (pn : pred * pred) : pred * pred :=
  fold_left widen_step zs pn.

(*  care = (p & ~ n) | (n & ~ p)                                           *)
Definition care_of (pn : pred * pred) : pred :=
  por (pand (fst pn) (pnot (snd pn))) (pand (snd pn) (pnot (fst pn))).

(* final cofactors (p, n) of extract_function, before `restrict` *)
Definition final_cofactors (f : pred) (yp : var) (outputs zs : list var) :=
  widen zs (cofactors f yp outputs).

(* extract_function(f, yp, outputs, bdd) = (g, care) *)
Definition extract_function (f : pred) (yp : var) (outputs zs : list var)
    : pred * pred :=
  let pn := final_cofactors f yp outputs zs in
  let care := care_of pn in
  (restrict yp (fst pn) care, care).

Definition remove_var (y : var) (l : list var) : list var :=
  filter (fun x => negb (Nat.eqb x y)) l.

(*  for yp in set(outputs):
        outputs.remove(yp)
        g, care = extract_function(r, yp, outputs, bdd)
        r = bdd.let({yp: g}, r)
        functions[yp] = dict(function=g, care_set=care)                    *)
Fixpoint make_loop (r : pred) (order : list (var * list var))
    (outputs : list var) : list (var * (pred * pred)) :=
  match order with
  | [] => []
  | (yp, zs) :: rest =>
      let outputs' := remove_var yp outputs in
      let gc := extract_function r yp outputs' zs in
      let r' := subst n r yp (fst gc) in
      (yp, gc) :: make_loop r' rest outputs'
  end.

(*  supp = bdd.support(r); outputs = set(vrs) & supp                       *)
Definition outputs_of (r : pred) (vrs : list var) : list var :=
  filter (depends n r) vrs.

Definition make_functions (r : pred) (vrs : list var)
    (order : list (var * list var)) : list (var * (pred * pred)) :=
  make_loop r order (outputs_of r vrs).

(* the relation after the first k substitutions (for the statement of
   care_spec and for the correspondence of intermediate relations) *)
Fixpoint relation_after (r : pred) (order : list (var * list var))
    (outputs : list var) (k : nat) : pred :=
  match k, order with
  | S k', (yp, zs) :: rest =>
      let outputs' := remove_var yp outputs in
      let gc := extract_function r yp outputs' zs in
      relation_after (subst n r yp (fst gc)) rest outputs' k'
  | _, _ => r
  end.

(* the assertions executed by make_functions:
   `yp not in support(r)` after the substitution, `yp not in support(g)`,
   and finally `not support(g) & vrs` for every function *)
Fixpoint asserts_loop (r : pred) (order : list (var * list var))
    (outputs : list var) : bool :=
  match order with
  | [] => true
  | (yp, zs) :: rest =>
      let outputs' := remove_var yp outputs in
      let gc := extract_function r yp outputs' zs in
      let r' := subst n r yp (fst gc) in
      negb (depends n r' yp) && negb (depends n (fst gc) yp) &&
      asserts_loop r' rest outputs'
  end.
Definition asserts_ok (r : pred) (vrs : list var)
    (order : list (var * list var)) : bool :=
  asserts_loop r order (outputs_of r vrs) &&
  forallb (fun e => forallb (fun v => negb (depends n (fst (snd e)) v)) vrs)
          (make_functions r vrs order).

(* the value assignment computed by the functions: every extracted output
   bit y is set to g_y(a); all other bits keep their value in a *)
Definition apply_functions (fs : list (var * (pred * pred))) (a : asg) : asg :=
  fold_left (fun b e => upd b (fst e) (fst (snd e) a)) fs a.

End Synth.

(* the branch `_bdd is None`: g = p *)
Definition no_restrict : var -> pred -> pred -> pred := fun _ p _ => p.
