#!/bin/bash
# Run every registered quick check with several seeds on the current tree
# (looking for seed-dependent false alarms).  usage: seed_sweep.sh [seeds...]
cd /verif
seeds=${@:-1 2 3}
for id in $(python3 -c "import json; print(' '.join(c['property_id'] for c in json.load(open('MANIFEST.json'))['checks']))"); do
  cp evidence/$id.json /tmp/sweep.$id.json 2>/dev/null
  for sd in $seeds; do
    s=$(date +%s)
    out=$(./check $id --tier quick --seed $sd 2>&1)
    rc=$?
    e=$(( $(date +%s) - s ))
    v=$(echo "$out" | grep -c '^VIOLATION')
    echo "$id seed=$sd rc=$rc violations=$v ${e}s"
    if [ $rc -ne 0 ]; then echo "$out" | tail -5; cp replay/$id-0.json tmp/sweep-$id-$sd.json 2>/dev/null; fi
  done
  cp /tmp/sweep.$id.json evidence/$id.json 2>/dev/null; rm -f /tmp/sweep.$id.json
done
