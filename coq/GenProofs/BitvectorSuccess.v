(* C06, tie T: the translated flatten SUCCEEDS on the quantifier-free
   fragments (it does not raise), so the end-to-end theorems of
   BitvectorCorrect.v / BitvectorFormula.v are not vacuous: for every tree of
   Leaf.qexp whose numerals are decimal, whose variables are declared in the
   table with well-formed hints ([q_anode] = Some), whose widths stay below
   the 32-bit limit ([aok]) and every fuel with depth + 33 < fuel (terms;
   depth + 34 < fuel for comparisons and formulas), g_flatten returns
   the threading model; likewise Comparator.flatten on two such terms and
   the connectives on formulas of Leaf.bexp. *)
From Coq Require Import String Ascii ZArith List Bool Lia.
From Omega Require Import L1Circuits.Circuits L1Circuits.CircuitsProofs L1Circuits.Deep
  L1Circuits.PyBits L1Circuits.PyBitsProofs L1Circuits.PyStr
  L2Compile.Expr L2Compile.Emit L2Compile.Thread L2Compile.Leaf L2Compile.LeafProofs.
From OmegaGen Require Import BitvectorGen.
From OmegaGP Require Import BitvectorBridge BitvectorLeafBridge BitvectorFlatBridge
  BitvectorCorrect BitvectorFormula.
Import ListNotations.
Open Scope Z_scope.

(* ---- the self-check of int_to_twos_complement passes *)
Definition zbit (s : string) : Z := if String.eqb s "1" then 1 else 0.

Lemma zbit_bstr : forall l, map zbit (map bstr l) = map b2z l.
Proof. induction l as [|b l IH]; [reflexivity|]. cbn [map]. rewrite IH. now destruct b. Qed.

Lemma sum_enum : forall l i0, 0 <= i0 ->
  py_sum (map (fun p : Z * Z => snd p * 2 ^ fst p) (py_enum_from i0 (map b2z l)))
  = 2 ^ i0 * uval l.
Proof.
  induction l as [|b l IH]; intros i0 H; cbn [map py_enum_from py_sum fold_right uval]; [lia|].
  change (fold_right Z.add 0 ?x) with (py_sum x). rewrite IH by lia.
  cbn [fst snd]. rewrite Z.pow_add_r by lia. change (2 ^ 1) with 2. ring.
Qed.

Lemma g_twos_complement_to_int_bits : forall l s,
  g_twos_complement_to_int (map bstr (l ++ [s])) = Some (sval (l ++ [s])).
Proof.
  intros l s. unfold g_twos_complement_to_int. cbv zeta.
  erewrite (py_mapM_some _ _ _ zbit).
  2:{ intros x Hx. apply in_map_iff in Hx. destruct Hx as [b [<- _]]. now destruct b. }
  rewrite zbit_bstr, map_app. cbn [map].
  assert (L : length (map b2z l ++ [b2z s]) = S (length l))
    by (rewrite app_length, map_length; cbn [length]; lia).
  erewrite (py_index_last_some _ _ 0) by lia. rewrite last_last.
  unfold py_len. rewrite map_length, app_length. cbn [length].
  unfold py_pow. replace (Z.of_nat (length l + 1) - 1 <? 0) with false
    by (symmetry; apply Z.ltb_ge; lia).
  assert (SL : py_slice_to (map b2z l ++ [b2z s]) (-1) = map b2z l).
  { unfold py_slice_to, py_clamp, py_len. rewrite L. cbn [Z.ltb Z.compare].
    replace (Z.to_nat (Z.min (Z.max (-1 + Z.of_nat (S (length l))) 0) (Z.of_nat (S (length l)))))
      with (length (map b2z l)) by (rewrite map_length; lia).
    apply firstn_app_exact. }
  rewrite SL. unfold py_enumerate.
  erewrite (py_mapM_some _ _ _ (fun p : Z * Z => snd p * 2 ^ fst p)).
  2:{ intros [i b] Hx. apply in_enum_from in Hx. cbv beta iota zeta. unfold py_pow.
      replace (i <? 0) with false by (symmetry; apply Z.ltb_ge; lia). reflexivity. }
  rewrite sum_enum by lia. rewrite sval_snoc. f_equal.
  replace (Z.of_nat (length l + 1) - 1) with (Z.of_nat (length l)) by lia.
  change (2 ^ 0) with 1. ring.
Qed.

Theorem g_int_to_twos_complement_some : forall s z, py_int s = Some z ->
  g_int_to_twos_complement s = Some (num_names z).
Proof.
  intros s z Hz. unfold g_int_to_twos_complement. rewrite Hz. cbv zeta.
  pose proof (numeral_names z) as N. cbv zeta in N.
  assert (P : 0 <= py_bit_length z) by (destruct z; cbn; lia).
  destruct (z >=? 0) eqn:S; cbv beta iota zeta.
  - assert (SB : "0"%string = bstr (z <? 0)).
    { apply Z.geb_le in S. replace (z <? 0) with false by (symmetry; apply Z.ltb_ge; lia).
      reflexivity. }
    rewrite SB, N. unfold num_names, int_to_twos_complement.
    rewrite g_twos_complement_to_int_bits.
    destruct (int_to_twos_complement_spec z) as [V L]. unfold int_to_twos_complement in V, L.
    rewrite V, Z.eqb_refl. unfold py_len. rewrite map_length.
    replace (Z.of_nat _ >? 1) with true by (symmetry; rewrite Z.gtb_ltb; apply Z.ltb_lt; lia).
    reflexivity.
  - unfold py_pow. replace (py_bit_length z <? 0) with false by (symmetry; apply Z.ltb_ge; lia).
    cbv beta iota zeta.
    assert (SB : "1"%string = bstr (z <? 0)).
    { rewrite Z.geb_leb in S. apply Z.leb_gt in S.
      replace (z <? 0) with true by (symmetry; apply Z.ltb_lt; lia). reflexivity. }
    rewrite SB, N. unfold num_names, int_to_twos_complement.
    rewrite g_twos_complement_to_int_bits.
    destruct (int_to_twos_complement_spec z) as [V L]. unfold int_to_twos_complement in V, L.
    rewrite V, Z.eqb_refl. unfold py_len. rewrite map_length.
    replace (Z.of_nat _ >? 1) with true by (symmetry; rewrite Z.gtb_ltb; apply Z.ltb_lt; lia).
    reflexivity.
Qed.

(* ---- trees of Leaf.qexp *)
Fixpoint qdepth (e : qexp) : nat :=
  match e with
  | QNum _ | QVar _ => 0
  | QPrime _ a => S (qdepth a)
  | QArith _ _ a b => S (Nat.max (qdepth a) (qdepth b))
  end.

(* the width guard of flatten_arithmetic at every arithmetic node (operand
   widths >= 2, result width below 32; = the acceptance condition of
   Expr.c_arith, [arith_guard_is_c_arith_guard]) *)
Fixpoint aok (e : anode) (mem : list bx) : bool :=
  match e with
  | ALeaf _ _ => true
  | APrime _ a => aok a mem
  | AArith o _ a b =>
      let '(p, m1) := d_aflat a mem in
      let '(q, m2) := d_aflat b m1 in
      aok a mem && aok b m1 && arith_guard o p q
  | AIte _ _ _ _ => false
  end.

Ltac eval_goal_strings :=
  repeat match goal with |- context [String.eqb ?a ?b] =>
    let v := eval vm_compute in (String.eqb a b) in
    match v with
    | true => change (String.eqb a b) with true
    | false => change (String.eqb a b) with false
    end end.

Section Success.
Variable defs : Type.
Variable defs_mem : defs -> string -> bool.
Variable var_id : string -> nat.
Variable ext_flatten def_flatten : pnode -> option (list bx) -> kwargs defs
                                   -> option (fres * option (list bx)).
Variable t : PyStr.table.
Notation flat := (g_flatten defs defs_mem var_id ext_flatten def_flatten).
Notation nodef_on := (nodef_on defs defs_mem).

Theorem q_flatten_succeeds : forall e kw a mem fuel,
  k_t kw = Some t -> nodef_on kw (qnames e) ->
  q_anode var_id t (py_truth (k_prime kw)) e = Some a ->
  aok a mem = true -> (qdepth e + 33 < fuel)%nat ->
  flat fuel (qnode e) (Some mem) kw
  = Some (RBits (fst (d_aflat a mem)), Some (snd (d_aflat a mem))).
Proof.
  induction e as [v|n|op e IH|o op e1 IH1 e2 IH2]; intros kw a mem fuel Ht Hd H G Hf;
    (destruct fuel as [|fuel]; [lia|]); cbn [q_anode qnode qdepth] in *.
  - destruct (py_int v) as [z|] eqn:Z; [|discriminate]. injection H as <-.
    cbn [g_flatten]. eval_goal_strings. cbv beta iota.
    rewrite (g_int_to_twos_complement_some _ _ Z). unfold num_names. rewrite token_bstr.
    reflexivity.
  - destruct (d_var_flatten var_id t n (py_truth (k_prime kw))) as [[b|bits|f|p]|] eqn:E;
      try discriminate. injection H as <-.
    rewrite (var_flatten_is_model defs defs_mem var_id ext_flatten def_flatten fuel n
               (Some mem) kw t Ht (Hd n (or_introl eq_refl))), E. reflexivity.
  - destruct (String.eqb op "X" || String.eqb op "'")%bool eqn:O; [|discriminate].
    destruct (q_anode var_id t true e) as [a'|] eqn:E; [|discriminate]. injection H as <-.
    cbn [g_flatten]. eval_goal_strings. cbv beta iota zeta. rewrite O.
    change (py_index [qnode e] 0) with (Some (qnode e)). cbv beta iota.
    cbn [aok d_aflat] in G |- *.
    rewrite (IH (kw_set_prime kw) a' mem fuel Ht (nodef_on_prime _ _ _ _ Hd) E G ltac:(lia)).
    reflexivity.
  - destruct (aop_of_string op) as [o'|] eqn:O; [|discriminate].
    destruct (q_anode var_id t (py_truth (k_prime kw)) e1) as [a1|] eqn:E1; [|discriminate].
    destruct (q_anode var_id t (py_truth (k_prime kw)) e2) as [a2|] eqn:E2; [|discriminate].
    assert (o' = o) by (destruct o, o'; try discriminate; reflexivity). subst o'.
    match type of H with (if ?c then _ else _) = _ => destruct c; [|discriminate] end.
    injection H as <-. cbn [aok d_aflat] in G |- *.
    destruct (nodef_on_app _ _ _ _ _ Hd) as [Hd1 Hd2].
    pose proof (IH1 kw a1 mem fuel Ht Hd1 E1) as S1.
    destruct (d_aflat a1 mem) as [p m1]. 
    pose proof (IH2 kw a2 m1 fuel Ht Hd2 E2) as S2.
    destruct (d_aflat a2 m1) as [q m2]. cbn [fst snd] in *.
    apply andb_prop in G. destruct G as [G G3]. apply andb_prop in G. destruct G as [G1 G2].
    cbn [g_flatten]. eval_goal_strings. cbv beta iota zeta.
    assert (T : String.eqb op "<<>>" = false).
    { pose proof O as O2. unfold aop_of_string in O2.
      repeat match type of O2 with (if String.eqb ?u ?w then _ else _) = _ =>
        destruct (String.eqb_spec u w); [subst; reflexivity|] end. discriminate. }
    rewrite T.
    change (py_index [qnode e1; qnode e2] 0) with (Some (qnode e1)).
    change (py_index [qnode e1; qnode e2] 1) with (Some (qnode e2)). cbv beta iota zeta.
    rewrite (S1 G1 ltac:(lia)). cbv beta iota zeta. rewrite (S2 G2 ltac:(lia)). cbv beta iota zeta.
    rewrite (g_flatten_arithmetic_some fuel op o p q m2 O G3 ltac:(lia)).
    destruct (d_flatten_arithmetic o p q (length m2)) as [r cells]. reflexivity.
Qed.

(* Comparator.flatten on two such terms *)
Theorem q_comparator_succeeds : forall op o l r la ra kw fuel,
  k_t kw = Some t -> nodef_on kw (qnames l ++ qnames r) -> cmp_of_string op = Some o ->
  q_anode var_id t (py_truth (k_prime kw)) l = Some la ->
  q_anode var_id t (py_truth (k_prime kw)) r = Some ra ->
  aok la [] = true -> aok ra (snd (d_aflat la [])) = true ->
  cmp_guard (fst (d_aflat la [])) (fst (d_aflat ra (snd (d_aflat la [])))) = true ->
  (Nat.max (qdepth l) (qdepth r) + 34 < fuel)%nat ->
  flat fuel (PNode "Comparator" op [qnode l; qnode r]) None kw
  = Some (RBuf (FBuf (py_len (d_cmp_flat o la ra)) (d_cmp_flat o la ra)), None).
Proof.
  intros op o l r la ra kw fuel Ht Hd Ho El Er Gl Gr Gc Hf. destruct fuel as [|fuel]; [lia|].
  destruct (nodef_on_app _ _ _ _ _ Hd) as [Hdl Hdr].
  cbn [g_flatten]. eval_goal_strings. cbv beta iota zeta.
  change (py_index [qnode l; qnode r] 0) with (Some (qnode l)).
  change (py_index [qnode l; qnode r] 1) with (Some (qnode r)). cbv beta iota zeta.
  rewrite (q_flatten_succeeds l kw la [] fuel Ht Hdl El Gl ltac:(lia)). cbv beta iota zeta.
  unfold d_cmp_flat. destruct (d_aflat la []) as [p m1]. cbn [fst snd] in *.
  rewrite (q_flatten_succeeds r kw ra m1 fuel Ht Hdr Er Gr ltac:(lia)). cbv beta iota zeta.
  destruct (d_aflat ra m1) as [q m2]. cbn [fst snd is_bits andb] in *. cbv beta iota zeta.
  rewrite (g_flatten_comparator_some op o p q m2 Ho Gc). reflexivity.
Qed.

(* ---- formulas of Leaf.bexp *)
Fixpoint bdepth (e : bexp) : nat :=
  match e with
  | BConst _ | BVar _ => 0
  | BCmp _ l r => S (Nat.max (qdepth l) (qdepth r))
  | BNot _ a => S (bdepth a)
  | BBin _ a b => S (Nat.max (bdepth a) (bdepth b))
  end.

(* every leaf is declared, every operator is one of the fragment, every
   width is within the limit *)
Fixpoint bok (e : bexp) : Prop :=
  match e with
  | BConst v => py_lower v = "true"%string \/ py_lower v = "false"%string
  | BVar n => exists gb, d_var_flatten var_id t n false = Some (RStr gb)
  | BCmp op l r =>
      exists o la ra, cmp_of_string op = Some o /\
        q_anode var_id t false l = Some la /\ q_anode var_id t false r = Some ra /\
        aok la [] = true /\ aok ra (snd (d_aflat la [])) = true /\
        cmp_guard (fst (d_aflat la [])) (fst (d_aflat ra (snd (d_aflat la [])))) = true
  | BNot op a => op = "~"%string /\ bok a
  | BBin op a b => (exists o, bop_of_string op = Some o) /\ bok a /\ bok b
  end.

Theorem b_flatten_succeeds : forall e kw fuel,
  k_t kw = Some t -> nodef_on kw (bnames e) -> py_truth (k_prime kw) = false -> bok e ->
  (bdepth e + 34 < fuel)%nat ->
  exists r p, flat fuel (bnode e) None kw = Some (r, None) /\ px_of_fres r = Some p.
Proof.
  induction e as [c|n|op l r0|op a IH|op a IHa b IHb]; intros kw fuel Ht Hd Hp W Hf;
    (destruct fuel as [|fuel]; [lia|]); cbn [bnode bok bdepth] in *.
  - destruct (bool_flatten_is_model defs defs_mem var_id ext_flatten def_flatten fuel c None kw)
      as [T F].
    destruct W as [E|E]; [rewrite (T E)|rewrite (F E)]; eexists; eexists; split; reflexivity.
  - destruct W as [gb G].
    rewrite (var_flatten_is_model defs defs_mem var_id ext_flatten def_flatten fuel n None kw t
               Ht (Hd n (or_introl eq_refl))), Hp, G.
    eexists. eexists. split; reflexivity.
  - destruct W as (o & la & ra & Ho & El & Er & Gl & Gr & Gc). rewrite <- Hp in El, Er.
    rewrite (q_comparator_succeeds op o l r0 la ra kw (S fuel) Ht Hd Ho El Er Gl Gr Gc ltac:(lia)).
    eexists. eexists. split; reflexivity.
  - destruct W as [-> W].
    destruct (IH kw fuel Ht Hd Hp W ltac:(lia)) as (r & p & E & P).
    cbn [g_flatten]. eval_goal_strings. cbn [orb]. cbv beta iota zeta.
    change (dict_get g_opmap "~") with (Some "!"%string).
    change (py_index [bnode a] 0) with (Some (bnode a)). cbv beta iota zeta.
    rewrite E. cbv beta iota zeta. rewrite P. cbv beta iota zeta.
    eexists. eexists. split; reflexivity.
  - destruct W as ([o Ho] & Wa & Wb).
    destruct (nodef_on_app _ _ _ _ _ Hd) as [Hda Hdb].
    destruct (IHa kw fuel Ht Hda Hp Wa ltac:(lia)) as (ra & pa & Ea & Pa).
    destruct (IHb kw fuel Ht Hdb Hp Wb ltac:(lia)) as (rb & pb & Eb & Pb).
    assert (Ia : is_bits ra = false) by (destruct ra; try reflexivity; discriminate).
    assert (Ib : is_bits rb = false) by (destruct rb; try reflexivity; discriminate).
    unfold bop_of_string in Ho.
    repeat match type of Ho with (if String.eqb ?u ?w then _ else _) = _ =>
      destruct (String.eqb_spec u w); [subst op|] end; try discriminate;
      cbn [g_flatten]; eval_goal_strings; cbv beta iota zeta;
      rewrite Ea; cbv beta iota zeta; rewrite Eb; cbv beta iota zeta;
      match goal with |- context [dict_get g_opmap ?k] =>
        let v := eval vm_compute in (dict_get g_opmap k) in
        change (dict_get g_opmap k) with v end;
      cbv beta iota zeta; rewrite Ia, Ib; cbn [negb]; cbv beta iota; rewrite Pa, Pb;
      cbv beta iota zeta; eexists; eexists; split; reflexivity.
Qed.

(* ---- success and correctness together *)
Variable vars : nat -> bool.
Variable env : string -> bool -> Z.
Variable benv : string -> bool.

Theorem translated_comparison_total : forall op o l r la ra kw fuel vl vr,
  k_t kw = Some t -> nodef_on kw (qnames l ++ qnames r) -> cmp_of_string op = Some o ->
  q_anode var_id t (py_truth (k_prime kw)) l = Some la ->
  q_anode var_id t (py_truth (k_prime kw)) r = Some ra ->
  aok la [] = true -> aok ra (snd (d_aflat la [])) = true ->
  cmp_guard (fst (d_aflat la [])) (fst (d_aflat ra (snd (d_aflat la [])))) = true ->
  (Nat.max (qdepth l) (qdepth r) + 34 < fuel)%nat ->
  encodes var_id vars t env ->
  qval env (py_truth (k_prime kw)) l = Some vl ->
  qval env (py_truth (k_prime kw)) r = Some vr ->
  exists buf,
    flat fuel (PNode "Comparator" op [qnode l; qnode r]) None kw = Some (RBuf buf, None) /\
    buf_value vars buf = Some (sem_cmp o vl vr).
Proof.
  intros op o l r la ra kw fuel vl vr Ht Hd Ho El Er Gl Gr Gc Hf Enc Vl Vr.
  pose proof (q_comparator_succeeds op o l r la ra kw fuel Ht Hd Ho El Er Gl Gr Gc Hf) as S.
  destruct (translated_flatten_end_to_end defs defs_mem var_id ext_flatten def_flatten vars t env
              op l r la ra fuel kw _ _ vl vr Ht Hd Enc El Er Vl Vr S)
    as (o' & buf & Ho' & E & _ & B).
  assert (o' = o) by congruence. subst o'. injection E as <-.
  eexists. split; [exact S|exact B].
Qed.

Theorem translated_formula_total : forall e kw fuel v,
  k_t kw = Some t -> nodef_on kw (bnames e) -> py_truth (k_prime kw) = false -> bok e ->
  (bdepth e + 34 < fuel)%nat ->
  encodes var_id vars t env -> encodes_bool var_id vars t benv ->
  bsem env benv e = Some v ->
  exists r p, flat fuel (bnode e) None kw = Some (r, None) /\ px_of_fres r = Some p /\
    eval_px vars p = Some v.
Proof.
  intros e kw fuel v Ht Hd Hp W Hf Enc EncB S.
  destruct (b_flatten_succeeds e kw fuel Ht Hd Hp W Hf) as (r & p & E & P).
  assert (BW : bwf var_id t e).
  { clear - W. induction e as [c|n|op l r0|op a IH|op a IHa b IHb]; cbn [bok bwf] in *; auto.
    - destruct W as (o & la & ra & _ & El & Er & _). split; eexists; eassumption.
    - destruct W as [_ W]. auto.
    - destruct W as (_ & Wa & Wb). auto. }
  destruct (translated_formula_end_to_end defs defs_mem var_id ext_flatten def_flatten vars t env benv
              e fuel kw r None v Ht Hd Hp Enc EncB BW S E) as (_ & p' & P' & Ev).
  rewrite P in P'. injection P' as <-. exists r, p. auto.
Qed.
End Success.
